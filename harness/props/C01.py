"""C01 — CoAP datagram codec.

Correspondence (model ~ code), every line is one call of the real code and of the Lean model:
  ext   `_read_extended_field_value` / `_write_extended_field_value` vs readExt / writeExt
  fmt   `OptionNumber(n).format` vs formatOf (the transcribed table)
  utf8  `bytes.decode("utf-8")` vs utf8Valid (the restated library function)
  enc   structured messages built from the repo's own types -> `Message.encode()` vs encode
  dec   `Message.decode(bytes)` -> field tuple or exception type vs decode
  sock  one datagram arriving on the udp6 socket (`RecvmsgSelectorDatagramTransport._read_ready` over a kernel-like
        socket object -> `MessageInterfaceUDP6.datagram_msg_received`) -> dispatched message / dropped vs udp6Receive
An option number whose registered format class is none of the five the model transcribes is handled generically
(kind "x": value = wire bytes, built through the class's own decode(); judged by the oracle on the observables
"decode keeps the value bytes / encode gives them back"; `enc` lines with such an option are out-of-model, the `fmt`
and `dec` lines report the class as a disagreement).
Oracle (independent RFC 7252 parser/serialiser, harness/c01_rfc7252.py):
  * encode output must parse under the RFC to exactly the message, and decode back to it;
  * a datagram that is RFC-well-formed must be parsed into the fields the RFC assigns;
  * any byte string: only UnparsableMessage may leave the parser; an accepted message must
    serialise again and parse back to itself;
  * the same byte strings go through the real receive paths
    (`MessageInterfaceUDP6.datagram_msg_received`, `GenericMessageInterface._received_datagram`):
    nothing may escape, and a message is dispatched iff it parses;
  * from the udp6 socket on: up to the largest UDP payload (65527) a well-formed datagram is dispatched as the RFC
    reads it and a message is dispatched iff the bytes parse; beyond: the whole datagram's message or nothing.
"""
import asyncio
import logging
import socket
import struct

import c01_rfc7252 as rfc
from common import compare, load_corpus, HarnessError

RULE = ("Structured: messages over type x code 0..255 x MID x token 0..8 x option lists drawn from "
        "the repo's OptionNumber table plus unknown numbers up to 200000 (repeated options, every "
        "format, values generated per format incl. multi-byte UTF-8, non-minimal uints on the wire, "
        "options added in shuffled order) x payloads; each is encoded by the real code (enc case) and "
        "its bytes are decoded (dec case). Boundary table enumerated in full: deltas and value lengths "
        "12/13/268/269/65803/65804/65805 from several bases, all 16 nibbles x extension shapes, TKL "
        "0..15 complete and truncated, code/MID limits, payload marker shapes, Block SZX/M, the format "
        "table for 0..2100, all 1- and 2-byte strings for UTF-8 plus structured 3/4-byte boundaries; every "
        "named option number (and unnamed neighbours) x value lengths 0..5/8/9/12/13/14 x ASCII and non-UTF-8/"
        "leading-zero fillings as received bytes, whatever length range RFC 7252 5.10 gives the option; datagrams "
        "of 4000..65527 bytes around the receive buffer and 65535..70000 beyond a UDP datagram's size, well-formed "
        "and not, delivered through the udp6 socket receive path. "
        "Malformed stream (<= 50 %): truncations, single-byte mutations and insertions of valid "
        "datagrams (exhaustive for three corpus seeds, sampled for the rest). uint-like options "
        "longer than 600 bytes are not generated (decimal/hex big-number printing cost). "
        "A case is non-trivial when it carries at least one option or is rejected for a reason other "
        "than length < 4; distinct by full input.")
TRUSTED = ["independent RFC 7252 parser/serialiser and RFC 3629 checker in harness/c01_rfc7252.py"]
ASSUMPTIONS = ["byte strings are sequences of values < 256 (Bytes.wf)",
               "the kernel's recvmsg() on a datagram socket hands out at most bufsize bytes of one datagram and sets "
               "MSG_TRUNC iff bytes were discarded (recvmsg(2)); the harness's socket object and the model do the same",
               "message type is a Type enum member (0..3); None fields (TypeError) are not modelled"]

BOUNDS = [12, 13, 268, 269, 65803, 65804, 65805]
MAX_EXT = 65804
MAX_UDP_PAYLOAD = 65527          # 16-bit UDP length minus the 8-byte UDP header (IPv4 allows 20 less)
KIND_OF_CLASS = {"StringOption": "s", "OpaqueOption": "o", "UintOption": "u",
                 "BlockOption": "b", "ContentFormatOption": "c"}
FMT_NAME = {"StringOption": "string", "OpaqueOption": "opaque", "UintOption": "uint",
            "BlockOption": "block", "ContentFormatOption": "contentFormat"}


def known_class_name(cls):
    """name of the first class in the MRO that is one of the five format classes the model transcribes (a subclass
    that only renames or decorates one of them is compared through its behaviour like its base), else None"""
    for c in getattr(cls, "__mro__", ()):
        if c.__name__ in KIND_OF_CLASS:
            return c.__name__
    return None


def hx(b):
    return bytes(b).hex() or "-"


# ---------------------------------------------------------------------------------------------
# implementation side

class Impl:
    def __init__(self, env):
        self.aiocoap = env.import_repo()
        from aiocoap import Message, error
        from aiocoap.message import Direction
        from aiocoap.numbers.optionnumbers import OptionNumber
        from aiocoap.numbers.types import Type
        from aiocoap import options as options_mod
        self.Message, self.error, self.Direction = Message, error, Direction
        self.OptionNumber, self.Type, self.options_mod = OptionNumber, Type, options_mod
        self.named = sorted(int(n) for n in OptionNumber)
        self._transports = None

    # --- canonical strings (same syntax as the driver) ---
    def canon_val(self, o):
        k = KIND_OF_CLASS.get(known_class_name(type(o)))
        if k is None:
            # a format class this harness has no reading for: name it and show its wire observable
            try:
                return "x:%s:%s" % (type(o).__name__, hx(o.encode()))
            except Exception as e:
                return "x:%s:encode-raises-%s" % (type(o).__name__, type(e).__name__)
        if k == "s":
            return "s:" + hx(o.value.encode("utf-8"))
        if k == "o":
            return "o:" + hx(o.value)
        if k == "u":
            return "u:%x" % int(o.value)
        if k == "c":
            return "c:%x" % int(o.value)
        if k == "b":
            v = o.value
            return "b:%d/%d/%d" % (v.block_number, 1 if v.more else 0, v.size_exponent)
        raise HarnessError("unreachable kind %r" % k)

    def canon_msg(self, m):
        parts = [str(int(m.mtype)), str(int(m.code)), str(int(m.mid)), hx(m.token), hx(m.payload)]
        for o in m.opt.option_list():
            parts.append("%d:%s" % (int(o.number), self.canon_val(o)))
        return " ".join(parts)

    def decode(self, data):
        """-> (canonical string, message or None)"""
        try:
            m = self.Message.decode(data)
        except self.error.UnparsableMessage:
            return "err:unparsable", None
        except Exception as e:          # any other type is an observation, and a property failure
            return "err:escaped:" + type(e).__name__, None
        return "ok " + self.canon_msg(m), m

    def build(self, spec):
        m = self.Message(code=spec["c"], payload=bytes.fromhex(spec["pl"]))
        m.mtype = self.Type(spec["t"])
        m.mid = spec["i"]
        m.token = bytes.fromhex(spec["tok"])
        for num, kind, val in spec["opts"]:
            if kind == "s":
                v = bytes.fromhex(val).decode("utf-8")
            elif kind == "o":
                v = bytes.fromhex(val)
            elif kind == "b":
                v = (val[0], bool(val[1]), val[2])
            elif kind == "x":
                # unknown format class: the only way in that needs no knowledge of its value type is the wire side
                m.opt.add_option(self.OptionNumber(num).create_option(decode=bytes.fromhex(val)))
                continue
            else:
                v = val
            m.opt.add_option(self.OptionNumber(num).create_option(value=v))
        return m

    def encode_msg(self, m):
        try:
            return "ok " + hx(m.encode()), None
        except struct.error:
            return "err:struct.error", "struct.error"
        except ValueError as e:
            if type(e) is ValueError:
                return "err:ValueError", "ValueError"
            return "err:other:" + type(e).__name__, type(e).__name__
        except Exception as e:
            return "err:other:" + type(e).__name__, type(e).__name__

    def reencode(self, m):
        """what a proxy does with a parsed message: copy, mark outgoing, serialise"""
        c = m.copy()
        c.direction = self.Direction.OUTGOING
        return self.encode_msg(c)

    def kind_of(self, num):
        """value kind of the format class registered for `num`; "x" = a class this harness does not know (handled
        generically: value given as wire bytes, judged by decode/encode observables, never compared with the model)"""
        return KIND_OF_CLASS.get(known_class_name(self.OptionNumber(num).format), "x")

    def fmt_name(self, num):
        f = self.OptionNumber(num).format
        n = known_class_name(f)
        return FMT_NAME[n] if n else "?:" + (getattr(f, "__name__", None) or type(f).__name__)

    # --- the real receive paths, no sockets ---
    def transports(self):
        if self._transports is None:
            from aiocoap.transports.udp6 import MessageInterfaceUDP6
            from aiocoap.transports.generic_udp import GenericMessageInterface
            log = logging.getLogger("verif-c01-silent")
            log.disabled = True

            class Sink:
                def __init__(self):
                    self.got = []

                def dispatch_message(self, message):
                    self.got.append(message)

                def dispatch_error(self, *a):
                    pass

            loop = asyncio.new_event_loop()
            s6, sg = Sink(), Sink()

            async def make():
                mi = MessageInterfaceUDP6(None, log, loop)
                mi._ctx = s6
                return mi
            mi6 = loop.run_until_complete(make())

            class Generic(GenericMessageInterface):
                # the abstract part (address recognition) plays no role on the receive path
                def recognize_remote(self, remote):
                    return False
            gen = Generic(sg, log, loop)
            self._transports = (loop, mi6, s6, gen, sg)
        return self._transports

    def close(self):
        if self._transports is not None:
            self._transports[0].close()
            self._transports = None

    def receive(self, data):
        """-> verdict string ("" = fine) given whether Message.decode accepts `data`"""
        loop, mi6, s6, gen, sg = self.transports()
        pktinfo = struct.pack("16sI", socket.inet_pton(socket.AF_INET6, "::1"), 0)
        out = []
        for name, call, sink in (
                ("udp6", lambda: mi6.datagram_msg_received(
                    data, [(socket.IPPROTO_IPV6, socket.IPV6_PKTINFO, pktinfo)], 0,
                    ("::1", 5683, 0, 0)), s6),
                ("generic_udp", lambda: gen._received_datagram(("::1", 5683), data), sg)):
            del sink.got[:]
            try:
                call()
            except BaseException as e:
                out.append((name, "escape:" + type(e).__name__, len(sink.got)))
                continue
            out.append((name, "", len(sink.got)))
        return out


    def receive_via_socket(self, data):
        """the udp6 receive path from the socket on: the real RecvmsgSelectorDatagramTransport._read_ready over a
        socket object that behaves like the kernel's (hands out at most `bufsize` bytes of the datagram and says
        so with MSG_TRUNC) -> (escaped exception name or "", list of dispatched messages)"""
        import os
        from aiocoap.util.asyncio.recvmsg import RecvmsgSelectorDatagramTransport
        loop, mi6, s6, gen, sg = self.transports()
        pktinfo = struct.pack("16sI", socket.inet_pton(socket.AF_INET6, "::1"), 0)

        class KernelLikeSocket:
            def __init__(self):
                self.r, self.w = os.pipe()
                self.queue = [data]

            def fileno(self):
                return self.r

            def close(self):
                pass

            def recvmsg(self, bufsize, ancbufsize=0, flags=0):
                if flags or not self.queue:
                    raise BlockingIOError()
                d = self.queue.pop(0)
                return (d[:bufsize], [(socket.IPPROTO_IPV6, socket.IPV6_PKTINFO, pktinfo)],
                        socket.MSG_TRUNC if len(d) > bufsize else 0, ("::1", 5683, 0, 0))

        class Protocol:
            """the real protocol object, minus the one-time `connection_made` it has already seen"""
            def connection_made(self, transport):
                pass

            def connection_lost(self, exc):
                pass
            datagram_msg_received = staticmethod(mi6.datagram_msg_received)
            datagram_errqueue_received = staticmethod(mi6.datagram_errqueue_received)
            error_received = staticmethod(mi6.error_received)

        sock = KernelLikeSocket()
        del s6.got[:]
        t = RecvmsgSelectorDatagramTransport(loop, sock, Protocol(), loop.create_future())
        try:
            try:
                t._read_ready()
            except BaseException as e:
                return type(e).__name__, []
            return "", list(s6.got)
        finally:
            try:
                loop.remove_reader(sock.r)
            except Exception:
                pass
            loop.run_until_complete(asyncio.sleep(0))      # the connection_made scheduled by the transport
            os.close(sock.r)
            os.close(sock.w)


# ---------------------------------------------------------------------------------------------
# oracle

def opt_matches(raw, o):
    """does the parsed option object `o` carry the value the RFC bytes `raw` denote?"""
    v = getattr(o, "value", None)
    if isinstance(v, str):
        try:
            return v.encode("utf-8") == raw
        except UnicodeEncodeError:
            return False
    if isinstance(v, (bytes, bytearray)):
        return bytes(v) == raw
    if isinstance(v, tuple) and hasattr(v, "block_number"):
        n = int.from_bytes(raw, "big")
        return (v.block_number, bool(v.more), v.size_exponent) == (n >> 4, bool(n & 8), n & 7)
    if isinstance(v, int) and not isinstance(v, bool):
        return int(v) == int.from_bytes(raw, "big")
    # a value type this harness has no reading for (an option format class it does not know): judge by the wire
    # observable -- the option was handed `raw` by the parser, its serialisation must give `raw` back
    try:
        return bytes(o.encode()) == raw
    except Exception:
        return False


def fields_match(f, m):
    """RFC fields `f` vs parsed message `m`; '' when equal"""
    if int(m.mtype) != f.mtype:
        return "type %r != %d" % (m.mtype, f.mtype)
    if int(m.code) != f.code:
        return "code %d != %d" % (int(m.code), f.code)
    if m.mid != f.mid:
        return "message id %r != %d" % (m.mid, f.mid)
    if bytes(m.token) != f.token:
        return "token %s != %s" % (bytes(m.token).hex(), f.token.hex())
    if bytes(m.payload) != f.payload:
        return "payload differs"
    ol = list(m.opt.option_list())
    if len(ol) != len(f.options):
        return "%d options != %d" % (len(ol), len(f.options))
    for k, (o, (num, raw)) in enumerate(zip(ol, f.options)):
        if int(o.number) != num:
            return "option #%d number %d != %d" % (k, int(o.number), num)
        if not opt_matches(raw, o):
            return "option #%d (number %d) value differs from %s" % (k, num, raw.hex())
    return ""


def oracle_decode(impl, data, out, m):
    """direct reading of the property for one byte string; returns (verdict, key)"""
    if out.startswith("err:escaped:"):
        return ("Message.decode(%s) raised %s" % (data.hex(), out[12:]), "decode-escape:" + out[12:])
    try:
        f = rfc.parse(data)
        wf = rfc.strings_legal(f)
    except rfc.FormatError:
        f, wf = None, False
    if wf:
        if m is None:
            return ("RFC-well-formed datagram %s rejected; RFC reading: %r" % (data.hex(), f),
                    "rfc-wellformed-rejected")
        d = fields_match(f, m)
        if d:
            return ("datagram %s parsed differently from the RFC reading (%s): %r" % (data.hex(), d, f),
                    "rfc-fields-differ")
    if m is not None:
        out2, exc = impl.reencode(m)
        if exc:
            return ("accepted datagram %s cannot be serialised again: %s" % (data.hex(), exc),
                    "reencode-raises:" + exc)
        b2 = bytes.fromhex(out2[3:].replace("-", ""))
        out3, m3 = impl.decode(b2)
        if out3 != out:
            return ("accepted datagram %s does not round-trip: %s -> %s -> %s"
                    % (data.hex(), out[:200], b2.hex()[:200], out3[:200]), "accepted-no-roundtrip")
    return ("", "")


def spec_wellformed(spec, kind_of):
    """is this one of the messages the property quantifies over?"""
    if not (0 <= spec["t"] <= 3 and 0 <= spec["c"] <= 255 and 0 <= spec["i"] <= 0xFFFF):
        return False
    if len(spec["tok"]) // 2 > 8:
        return False
    prev = 0
    for num, kind, val in sorted(spec["opts"], key=lambda o: o[0]):   # stable
        if num - prev > MAX_EXT or kind != kind_of(num):
            return False
        prev = num
        if kind in "sox":
            n = len(val) // 2
        elif kind == "b":
            if not (0 <= val[2] <= 7 and val[0] >= 0):
                return False
            n = (((val[0] << 4) | 8 | val[2]).bit_length() + 7) // 8
        else:
            if val < 0:
                return False
            n = (val.bit_length() + 7) // 8
        if n > MAX_EXT:
            return False
    return True


def spec_fields(spec):
    """the RFC-level fields of a structured message (options stably sorted, values as canonical bytes)"""
    opts = []
    for num, kind, val in sorted(spec["opts"], key=lambda o: o[0]):
        if kind in "sox":
            raw = bytes.fromhex(val)
        elif kind == "b":
            n = (val[0] << 4) | (8 if val[1] else 0) | val[2]
            raw = n.to_bytes((n.bit_length() + 7) // 8, "big")
        else:
            raw = val.to_bytes((val.bit_length() + 7) // 8, "big")
        opts.append((num, raw))
    return rfc.Fields(spec["t"], spec["c"], spec["i"], bytes.fromhex(spec["tok"]), opts,
                      bytes.fromhex(spec["pl"]))


def oracle_encode(impl, spec, out, exc):
    if not spec_wellformed(spec, impl.kind_of):
        return ("", "")
    if exc:
        return ("Message.encode() of a well-formed message raised %s: %r" % (exc, spec),
                "encode-raises:" + exc)
    wire = bytes.fromhex(out[3:].replace("-", ""))
    want = spec_fields(spec)
    try:
        f = rfc.parse(wire)
    except rfc.FormatError as e:
        return ("encode output %s is not an RFC 7252 datagram (%s)" % (wire.hex()[:300], e),
                "encode-not-rfc")
    got = (f.mtype, f.code, f.mid, f.token, f.options, f.payload)
    exp = (want.mtype, want.code, want.mid, want.token, want.options, want.payload)
    if got != exp:
        return ("encode output %s reads under the RFC as %r, expected %r"
                % (wire.hex()[:300], f, want), "encode-wrong-fields")
    out2, m2 = impl.decode(wire)
    if m2 is None:
        return ("encode output %s is not parsed back (%s)" % (wire.hex()[:300], out2),
                "roundtrip-rejected")
    d = fields_match(want, m2)
    if d:
        return ("round trip changed the message (%s): %r" % (d, spec), "roundtrip-differs")
    return ("", "")


# ---------------------------------------------------------------------------------------------
# generators

def enc_line(spec):
    parts = ["C01 enc", str(spec["t"]), str(spec["c"]), str(spec["i"]),
             spec["tok"] or "-", spec["pl"] or "-"]
    for num, kind, val in spec["opts"]:
        if kind in "sox":
            parts.append("%d:%s:%s" % (num, kind, val or "-"))
        elif kind == "b":
            parts.append("%d:b:%d/%d/%d" % (num, val[0], 1 if val[1] else 0, val[2]))
        else:
            parts.append("%d:%s:%x" % (num, kind, val))
    return " ".join(parts)


def mk(t=0, c=1, i=1, tok=b"", pl=b"", opts=()):
    return {"t": t, "c": c, "i": i, "tok": bytes(tok).hex(), "pl": bytes(pl).hex(),
            "opts": [list(o) for o in opts]}


SPECIAL_CP = [0x00, 0x41, 0x7F, 0x80, 0x7FF, 0x800, 0xFFF, 0x1000, 0xCFFF, 0xD000, 0xD7FF, 0xE000,
              0xFFFD, 0xFFFF, 0x10000, 0x3FFFF, 0x40000, 0xFFFFF, 0x100000, 0x10FFFF]


def rand_text(rng, maxlen=12):
    cps = []
    for _ in range(rng.randrange(maxlen + 1)):
        r = rng.random()
        if r < 0.5:
            cps.append(rng.randrange(0x20, 0x7F))
        elif r < 0.7:
            cps.append(rng.choice(SPECIAL_CP))
        elif r < 0.8:
            cps.append(rng.randrange(0x80, 0x800))
        elif r < 0.9:
            cp = rng.randrange(0x800, 0x10000)
            cps.append(cp if not 0xD800 <= cp <= 0xDFFF else 0xE000)
        else:
            cps.append(rng.randrange(0x10000, 0x110000))
    return "".join(map(chr, cps)).encode("utf-8")


def rand_value(rng, kind, big=False):
    if kind == "s":
        b = rand_text(rng)
        if big:
            b = b + b"x" * rng.choice([13, 255, 256, 269, 270, 300])
        return b.hex()
    if kind in "ox":
        n = rng.choice([0, 0, 1, 2, 4, 8, 12, 13, 20]) if not big else rng.choice([268, 269, 270, 1000])
        return bytes(rng.getrandbits(8) for _ in range(n)).hex()
    if kind == "b":
        return [rng.choice([0, 1, 5, 15, 16, 4095, 4096, (1 << 20) - 1, rng.getrandbits(24)]),
                rng.random() < 0.5, rng.randrange(8)]
    # uint / content-format
    r = rng.random()
    if r < 0.25:
        return rng.choice([0, 1, 50, 255, 256, 65535, 65536, (1 << 24) - 1, 1 << 24, (1 << 32) - 1, 1 << 32])
    if r < 0.9:
        return rng.getrandbits(rng.choice([1, 7, 8, 9, 16, 17, 24, 32, 40, 64]))
    return rng.getrandbits(8 * rng.choice([12, 13, 14, 100, 268, 269, 270]))


def rand_spec(impl, rng):
    pool = impl.named
    nums = []
    for _ in range(rng.choice([0, 1, 1, 2, 3, 4, 6, 9])):
        r = rng.random()
        if r < 0.55:
            nums.append(rng.choice(pool))
        elif r < 0.7 and nums:
            nums.append(rng.choice(nums))                 # repeated option
        elif r < 0.85:
            nums.append(rng.randrange(0, 70))
        elif r < 0.95:
            nums.append(rng.randrange(0, 2100))
        else:
            nums.append(rng.randrange(0, 200001))
    # keep every delta (in sorted order) representable
    keep, prev = [], 0
    for n in sorted(nums):
        if n - prev <= MAX_EXT:
            keep.append(n)
            prev = n
    opts = []
    for n in keep:
        k = impl.kind_of(n)
        opts.append([n, k, rand_value(rng, k, big=rng.random() < 0.05)])
    if rng.random() < 0.5:
        rng.shuffle(opts)                                 # options added out of order
    pl = b""
    if rng.random() < 0.6:
        pl = bytes(rng.getrandbits(8) for _ in range(rng.choice([1, 1, 2, 5, 16, 64])))
        if rng.random() < 0.1:
            pl = b"\xff" + pl
    return mk(t=rng.randrange(4), c=rng.randrange(256), i=rng.choice([0, 1, 0xFFFF, rng.getrandbits(16)]),
              tok=bytes(rng.getrandbits(8) for _ in range(rng.randrange(9))), pl=pl, opts=opts)


def zero_value(kind):
    return 0 if kind in "uc" else ([0, False, 0] if kind == "b" else "")


def as_kind(impl, num, kind, val):
    """[num, kind, val] as the boundary table lays it out for the format RFC 7252 gives `num` -- unless the tree
    under test registers a format class for `num` that this harness does not know: then the same value as its RFC
    bytes, kind "x" (built through the class's own decode())"""
    if impl.kind_of(num) != "x":
        return [num, kind, val]
    if kind in "so":
        return [num, "x", val]
    n = ((val[0] << 4) | (8 if val[1] else 0) | val[2]) if kind == "b" else val
    return [num, "x", n.to_bytes((n.bit_length() + 7) // 8, "big").hex()]


def boundary_specs(impl):
    """structured messages at every threshold of the model"""
    out = []
    for b in BOUNDS:
        for base in (0, 1, 11, 60, 65804):
            # delta b from `base`
            k0, k1 = impl.kind_of(base), impl.kind_of(base + b)
            first = [[base, k0, zero_value(k0)]] if base else []
            second = [base + b, k1, zero_value(k1)]
            out.append(mk(opts=first + [second]))
            out.append(mk(opts=[second] + first, pl=b"p"))          # added in reverse order
        # two consecutive deltas of b
        out.append(mk(opts=[[b, impl.kind_of(b), zero_value(impl.kind_of(b))],
                            [2 * b, impl.kind_of(2 * b), zero_value(impl.kind_of(2 * b))]]))
        # value length b: opaque (ETag 4, unknown 2049) and string (Uri-Path 11)
        out.append(mk(opts=[as_kind(impl, 4, "o", (b"\xa5" * b).hex())]))
        out.append(mk(opts=[as_kind(impl, 11, "s", (b"a" * b).hex())], pl=b"\x00"))
        out.append(mk(opts=[as_kind(impl, 2049, "o", (b"\x00" * b).hex()), as_kind(impl, 2049, "o", "")]))
        if b <= 269:
            # uint of exactly b bytes
            out.append(mk(opts=[as_kind(impl, 7, "u", 1 << (8 * b - 1)), as_kind(impl, 60, "u", (1 << (8 * b)) - 1)]))
            out.append(mk(opts=[as_kind(impl, 12, "c", 1 << (8 * b - 8))]))
    for n in range(0, 18):                                           # token lengths incl. >8, >15
        out.append(mk(tok=bytes(range(1, n + 1)), opts=[as_kind(impl, 11, "s", "61")]))
        out.append(mk(tok=bytes(range(1, n + 1))))
    for t in range(4):
        for c in (0, 1, 69, 255, 256):
            for i in (0, 255, 256, 65535, 65536):
                out.append(mk(t=t, c=c, i=i, pl=b"x" if c % 2 else b""))
    for szx in range(8):
        for more in (False, True):
            for num in (0, 1, 15, 16, 1 << 20):
                out.append(mk(opts=[as_kind(impl, 23, "b", [num, more, szx]), as_kind(impl, 27, "b", [num, not more, szx])]))
    for pl in (b"", b"\xff", b"\xff\xff", b"\x00", b"a" * 300):
        out.append(mk(pl=pl))
        out.append(mk(pl=pl, opts=[as_kind(impl, 4, "o", "ff")]))
    # every named option once, in reverse order, and each repeated
    named = impl.named
    vals = {"s": "c3a9", "o": "00ff", "u": 258, "c": 50, "b": [3, True, 2], "x": "00ff"}
    out.append(mk(opts=[[n, impl.kind_of(n), vals[impl.kind_of(n)]] for n in reversed(named)]))
    out.append(mk(opts=[[n, impl.kind_of(n), vals[impl.kind_of(n)]] for n in named for _ in (0, 1)]))
    return out


VALUE_LENGTHS = [0, 1, 2, 3, 4, 5, 8, 9, 12, 13, 14]


def option_value_grid(named):
    """every option number the tree under test has a name for (plus neighbours without one, 0, and numbers in the
    extended-delta ranges) x value lengths 0..5, 8, 9 and the extended-length boundary x two fillings (ASCII: legal
    for every format incl. string; bytes with leading zero / high bits: not UTF-8, non-minimal for integers) --
    laid out by the oracle's serialiser, regardless of the length range RFC 7252 5.10 gives the option: a length
    outside that range is not a message format error (5.4.3), the value bytes are still the option's value.
    Alone, and behind another option (non-zero base for the delta) with a payload after it."""
    nums = sorted(set(named) | {0, 2, 10, 16, 18, 22, 24, 29, 31, 61, 268, 269, 2049, 65000, 65535, 65536})
    out = []
    for num in nums:
        for ln in VALUE_LENGTHS:
            for fill in (bytes((0x61 + k) % 0x7F for k in range(ln)),
                         bytes([0x00, 0xFF, 0x80, 0x07] * 4)[:ln]):
                if ln == 0 and fill != b"":
                    continue
                out.append(rfc.build(rfc.Fields(0, 1, 0x1234, b"", [(num, fill)], b"")))
                if ln in (0, 1, 4, 13):
                    out.append(rfc.build(rfc.Fields(1, 2, 7, b"\x05", [(1, b"e"), (num, fill), (num, fill)] if num
                                                    else [(num, fill), (1, b"e")], b"\xffpl")))
    return out


def boundary_datagrams():
    """hand-laid byte strings at the thresholds of the parser"""
    H = bytes.fromhex("40010001")
    out = []
    ext_shapes = [b"", b"\x00", b"\xff", b"\x00\x00", b"\xff\xfe", b"\xff\xff", b"\xff\xff\x07"]
    for dn in range(16):
        for ln in range(16):
            for tail in (b"", b"\x00", b"\x00\x00", b"\xff", b"ab" * 8, b"\x00" * 40):
                out.append(H + bytes([dn << 4 | ln]) + tail)
    for dn in (13, 14):
        for dx in ext_shapes:
            out.append(H + bytes([dn << 4]) + dx)
            out.append(H + bytes([dn << 4 | 1]) + dx + b"a")
    for b in BOUNDS[:-1]:
        nib, ext = (b, b"") if b < 13 else ((13, bytes([b - 13])) if b < 269 else (14, (b - 269).to_bytes(2, "big")))
        for num0 in (b"", b"\x10", b"\xb0"):                       # nothing / option 1 / option 11 before
            # delta b, empty value; delta b twice
            out.append(H + num0 + bytes([nib << 4]) + ext)
            out.append(H + num0 + bytes([nib << 4]) + ext + bytes([nib << 4]) + ext + b"\xffp")
        # length b: complete, one short, one extra (extra byte starts another option)
        for val in (b"a" * b, b"a" * (b - 1), b"a" * b + b"\x00", b"a" * b + b"\xff", b"a" * b + b"\xffx"):
            out.append(H + bytes([0x40 | nib]) + ext + val)      # ETag (opaque)
            out.append(H + bytes([0xb0 | nib]) + ext + val)      # Uri-Path (string)
    for tkl in range(16):
        for have in (0, 1, tkl - 1, tkl, tkl + 1, tkl + 3):
            if have >= 0:
                out.append(bytes([0x40 | tkl, 1, 0, 1]) + bytes(range(0x10, 0x10 + have)))
                out.append(bytes([0x40 | tkl, 1, 0, 1]) + bytes(range(0x10, 0x10 + have)) + b"\xb1a\xffp")
    for b0 in (0x00, 0x3f, 0x40, 0x7f, 0x80, 0xc0, 0xff):
        out.append(bytes([b0, 0, 0, 0]))
        out.append(bytes([b0, 255, 255, 255, 0xff, 1]))
    for n in range(5):
        out.append(H[:n])
    # payload marker shapes
    for tail in (b"\xff", b"\xff\xff", b"\xffa", b"\xb1a\xff", b"\xb1a\xffa", b"\xb1\xff", b"\xb1\xff\xff"):
        out.append(H + tail)
    # uint with leading zeros, empty, long; block; content-format
    for val in (b"", b"\x00", b"\x00\x01", b"\x01\x00", b"\x00\x00\x00\x07", b"\xff" * 9, b"\x00" * 12 + b"\x05"):
        ln = len(val)
        lenc = bytes([ln]) if ln < 13 else bytes([13, ln - 13])
        for first in (0x70, 0xc0, 0xd0):                           # Uri-Port 7, Content-Format 12, 13+x
            if first == 0xd0:
                out.append(H + bytes([first | lenc[0]]) + b"\x0a" + lenc[1:] + val)   # option 23 (Block2)
            else:
                out.append(H + bytes([first | lenc[0]]) + lenc[1:] + val)
    # string options with invalid UTF-8 of every kind
    for bad in (b"\x80", b"\xc0\x80", b"\xc1\xbf", b"\xc2", b"\xe0\x9f\x80", b"\xed\xa0\x80", b"\xed\xbf\xbf",
                b"\xf0\x8f\x80\x80", b"\xf4\x90\x80\x80", b"\xf5\x80\x80\x80", b"\xff", b"a\xe2\x82",
                b"\xe2\x82\xac", b"\xf0\x9f\x98\x80", b"\xf4\x8f\xbf\xbf"):
        for first in (0x30, 0x80, 0xb0, 0xd0):                     # Uri-Host, Location-Path, Uri-Path, 13+2=15 Uri-Query
            mid = b"\x02" if first == 0xd0 else b""
            out.append(H + bytes([first | len(bad)]) + mid + bad)
        out.append(H + bytes([0x40 | len(bad)]) + bad)             # the same bytes as an opaque ETag
    return out


def utf8_cases(env):
    rng = env.rng
    out = [b""] + [bytes([a]) for a in range(256)] + [bytes([a, b]) for a in range(256) for b in range(256)]
    edge2 = [0x7F, 0x80, 0x8F, 0x90, 0x9F, 0xA0, 0xBF, 0xC0]
    edge = [0x7F, 0x80, 0xBF, 0xC0]
    for a in (0xE0, 0xE1, 0xEC, 0xED, 0xEE, 0xEF):
        for b in edge2:
            for c in edge:
                out.append(bytes([a, b, c]))
                out.append(bytes([0x41, a, b, c, 0x42]))
            out.append(bytes([a, b]))
    for a in (0xF0, 0xF1, 0xF3, 0xF4, 0xF5, 0xF7, 0xF8):
        for b in edge2:
            for c in edge:
                for d in edge:
                    out.append(bytes([a, b, c, d]))
            out.append(bytes([a, b, 0x80]))
    for _ in range(env.scale(3000, 150000)):
        s = bytearray(rand_text(rng, 6))
        if s and rng.random() < 0.6:
            k = rng.randrange(len(s))
            r = rng.random()
            if r < 0.4:
                s[k] = rng.getrandbits(8)
            elif r < 0.7:
                del s[k]
            else:
                s.insert(k, rng.choice([0x80, 0xBF, 0xC0, 0xC2, 0xE0, 0xED, 0xF0, 0xF4, 0xF5, 0xFF]))
        out.append(bytes(s))
    return out


def mutations(env, seeds, exhaustive):
    """malformed stream: truncations, single-byte mutations, insertions"""
    rng = env.rng
    out = []
    for k, d in enumerate(seeds):
        n = len(d)
        if k < exhaustive:
            for cut in range(n):
                out.append(("trunc", d[:cut]))
            for pos in range(n):
                for v in range(256):
                    if v != d[pos]:
                        out.append(("mut", d[:pos] + bytes([v]) + d[pos + 1:]))
            for pos in range(n + 1):
                for v in (0x00, 0x01, 0x0d, 0x0e, 0x0f, 0x10, 0xd0, 0xe0, 0xf0, 0x80, 0xc3, 0xfe, 0xff):
                    out.append(("ins", d[:pos] + bytes([v]) + d[pos:]))
        else:
            m = min(n, 40)
            for cut in sorted(rng.sample(range(n), min(n, 6))):
                out.append(("trunc", d[:cut]))
            for _ in range(m // 2 + 2):
                pos = rng.randrange(n)
                v = d[pos] ^ (1 << rng.randrange(8)) if rng.random() < 0.5 else rng.getrandbits(8)
                if v != d[pos]:
                    out.append(("mut", d[:pos] + bytes([v]) + d[pos + 1:]))
            for _ in range(m // 4 + 1):
                pos = rng.randrange(n + 1)
                out.append(("ins", d[:pos] + bytes([rng.choice([0, 0xd0, 0xe0, 0xf0, 0xff, rng.getrandbits(8)])]) + d[pos:]))
    return out


# ---------------------------------------------------------------------------------------------

def run_enc(env, rep, impl, specs, tag):
    cases, lines, outs, wires = [], [], [], []
    for spec in specs:
        case = {"kind": "enc", "msg": spec}
        try:
            m = impl.build(spec)
        except Exception as e:
            if any(k == "x" for _, k, _ in spec["opts"]):
                # a format class this harness does not know refused the bytes through its decode(): the message is
                # not one "the library can represent"; whether refusing those bytes on reception is right is judged
                # on the dec side (option-value grid)
                rep.count("enc:%s:unknown-format-class-refused-value" % tag)
                continue
            raise HarnessError("cannot build message %r: %r" % (spec, e))
        out, exc = impl.encode_msg(m)
        cases.append(case)
        lines.append(enc_line(spec))
        outs.append(out)
        rep.case(case if len(lines[-1]) < 600 else {"kind": "enc", "line": lines[-1][:600] + "..."},
                 nontrivial=bool(spec["opts"]), sample_every=997)
        rep.count("enc:%s:%s" % (tag, out.split(" ")[0] if out.startswith("err") else "ok"))
        rep.count("enc:options=%s" % (len(spec["opts"]) if len(spec["opts"]) < 5 else "5+"))
        for _, k, _ in spec["opts"]:
            rep.count("enc:value-kind=" + k)
        v, key = oracle_encode(impl, spec, out, exc)
        if v:
            rep.oracle_fail(case, v, key=key)
        if not exc:
            wires.append(bytes.fromhex(out[3:].replace("-", "")))
    compare(env, rep, cases, lines, outs, what="Message.encode")
    return wires


def run_dec(env, rep, impl, datas, tag, malformed=False, transports=True):
    cases, lines, outs = [], [], []
    for data in datas:
        case = {"kind": "dec", "hex": data.hex()}
        out, m = impl.decode(data)
        cases.append(case)
        lines.append("C01 dec " + hx(data))
        outs.append(out)
        nontriv = (m is not None and bool(m.opt._options)) or (m is None and len(data) >= 4)
        rep.case(case if len(data) < 300 else {"kind": "dec", "hex": data.hex()[:600] + "..."},
                 nontrivial=nontriv, sample_every=4999)
        rep.count("dec:%s:%s" % (tag, "ok" if m is not None else out))
        if malformed:
            rep.count("malformed-stream")
        if m is not None:
            for o in m.opt.option_list():
                rep.count("dec:value-kind=" + KIND_OF_CLASS.get(known_class_name(type(o)), "x"))
        v, key = oracle_decode(impl, data, out, m)
        if v:
            rep.oracle_fail(case, v, key=key)
        if transports:
            for name, esc, n in impl.receive(data):
                rep.count("receive:%s:%s" % (name, esc or ("dispatched" if n else "dropped")))
                if esc:
                    rep.oracle_fail(case, "%s receive path let %s through for datagram %s"
                                    % (name, esc, data.hex()[:300]), key="%s-%s" % (name, esc))
                elif (n == 1) != (m is not None):
                    rep.oracle_fail(case, "%s receive path dispatched %d messages for datagram %s (decode: %s)"
                                    % (name, n, data.hex()[:300], out[:80]), key=name + "-dispatch-mismatch")
    compare(env, rep, cases, lines, outs, what="Message.decode")


def socket_datagrams(impl, rng):
    """well-formed datagrams whose size lies around the transport's receive buffer (4096) and up to the largest
    UDP payload, and a few malformed ones of those sizes"""
    out = []
    for total in (4000, 4094, 4095, 4096, 4097, 4098, 4200, 5130, 8192, 8193, 20000, 65507, 65508, MAX_UDP_PAYLOAD,
                  # beyond what a UDP length field can say (jumbograms): whole or nothing
                  65535, 65536, 65537, 70000):
        for opts in ((), ((11, b"big"),)):
            head = bytes([0x51, 0x03, rng.randrange(256), rng.randrange(256), 0xAB])
            body = b"".join(bytes([0xB0 | len(v)]) + v for (_, v) in opts)
            room = total - len(head) - len(body) - 1
            payload = bytes(rng.randrange(256) for _ in range(64)) * (room // 64 + 1)
            out.append(head + body + b"\xff" + payload[:room])
    # a datagram whose first 4096 bytes end exactly at the payload marker (prefix = marker without payload) and one
    # whose prefix cuts an option in two: the prefixes are malformed, the datagrams are not
    head = bytes([0x41, 0x01, 1, 2, 0x33])
    out.append(head + bytes([0xBD, 255]) + b"a" * 268 + b"\xff" + b"p" * 4000)
    out.append(head + b"\xff" + b"q" * (4096 - len(head) - 1) + b"r" * 10)
    # large and not well-formed: an option running over the end, reserved token length, marker without payload
    out.append(head + bytes([0xBE, 0xFF, 0xFF]) + b"a" * 9000)
    out.append(bytes([0x4C, 0x01, 1, 2]) + b"t" * 12 + b"\xff" + b"p" * 6000)
    out.append(head + bytes([0x4E, 0x10, 0x00]) + b"e" * (4096 + 269) + b"\xff")
    return out


def run_socket(env, rep, impl, datas):
    cases, lines, outs = [], [], []
    for data in datas:
        case = {"kind": "sock", "hex": data.hex()}
        rep.case({"kind": "sock", "len": len(data), "hex": data.hex()[:200]}, nontrivial=True, sample_every=997)
        v, key, out = judge_socket(impl, data)
        cases.append({"kind": "sock", "len": len(data), "hex": data.hex()[:200]})
        lines.append("C01 sock " + hx(data))
        outs.append(out)
        rep.count("socket:%s" % ("jumbo" if len(data) > MAX_UDP_PAYLOAD else "over-4096" if len(data) > 4096 else "small"))
        if v:
            rep.oracle_fail(case, v, key=key)
    compare(env, rep, cases, lines, outs, what="udp6 socket receive path")


def oracle_socket(impl, data):
    v, key, _ = judge_socket(impl, data)
    return v, key


def judge_socket(impl, data):
    """what the application layer is handed for the datagram `data` arriving on the udp6 socket.  Up to the largest
    payload a UDP datagram can have, the transport is part of the parser the property talks about ("all byte strings
    up to a datagram's size"; udp6.py is an anchor): a well-formed datagram is dispatched as the message the RFC reads
    out of it, and in general a message is dispatched iff these bytes parse, and it is that message.  Beyond that
    size (jumbograms): the message read out of *these* bytes or nothing -- never one read out of a part of them."""
    esc, got = impl.receive_via_socket(data)
    if esc:
        return ("udp6 socket receive path let %s through for a %d byte datagram" % (esc, len(data)),
                "udp6-socket-" + esc, "escaped:" + esc)
    if len(got) > 1:
        return ("udp6 socket receive path dispatched %d messages for one datagram" % len(got), "udp6-socket-count",
                "dispatched-%d" % len(got))
    v, key = _judge_socket(impl, data, got)
    return v, key, ("dispatched " + impl.canon_msg(got[0])) if got else "dropped"


def _judge_socket(impl, data, got):
    try:
        f = rfc.parse(data)
        wf = rfc.strings_legal(f)
    except rfc.FormatError:
        f, wf = None, False
    out, m = impl.decode(data)
    if not got:
        if len(data) > MAX_UDP_PAYLOAD:
            return "", None
        if wf:
            return ("a well-formed %d byte datagram arriving on the udp6 socket was not dispatched (RFC reading: T=%d "
                    "code=%d mid=%d, %d options, %d payload bytes)"
                    % (len(data), f.mtype, f.code, f.mid, len(f.options), len(f.payload)), "udp6-socket-dropped")
        if m is not None:
            return ("a %d byte datagram that Message.decode accepts was not dispatched by the udp6 socket receive "
                    "path" % len(data), "udp6-socket-dropped")
        return "", None
    if m is None:
        return ("udp6 socket receive path dispatched a message for a %d byte datagram that Message.decode rejects"
                % len(data), "udp6-socket-malformed-dispatched")
    if wf:
        d = fields_match(f, got[0])
        if d:
            return ("a %d byte datagram arriving on the udp6 socket was dispatched as a different message (%s; "
                    "dispatched payload %d bytes, sent %d)" % (len(data), d, len(got[0].payload), len(f.payload)),
                    "udp6-socket-truncated")
    if "ok " + impl.canon_msg(got[0]) != out:
        return ("a %d byte datagram arriving on the udp6 socket was dispatched as a message different from "
                "Message.decode of its bytes" % len(data), "udp6-socket-truncated")
    return "", None


def run_small(env, rep, impl):
    """ext / fmt / utf8: function-level correspondence of the pieces the model restates"""
    r_ext = impl.options_mod._read_extended_field_value
    w_ext = impl.options_mod._write_extended_field_value
    cases, lines, outs = [], [], []

    def add(case, line, out, nontrivial=True):
        cases.append(case)
        lines.append(line)
        outs.append(out)
        rep.case(case, nontrivial=nontrivial, sample_every=20011)

    vals = set(range(0, 300)) | {b + d for b in BOUNDS for d in (-2, -1, 0, 1, 2)} | {65535, 65536, 70000, 1 << 20}
    if env.thorough:
        vals |= set(range(0, 70001))
    for v in sorted(vals):
        try:
            nib, ext = w_ext(v)
            out = "%d %s" % (nib, hx(ext))
        except Exception as e:
            out = "err" if type(e) is ValueError else "err:other:" + type(e).__name__
        add({"kind": "ext-w", "v": v}, "C01 ext w %d" % v, out)
        rep.count("ext-w:" + (out if out.startswith("err") else "nibble=%s" % out.split()[0] if int(out.split()[0]) > 12 else "direct"))
        if not out.startswith("err"):
            # oracle: what was written must read back as v (RFC 7252 section 3.1)
            try:
                rv, rest = r_ext(nib, ext + b"\x99")
            except Exception as e:
                rv, rest = "exception " + type(e).__name__, b""
            if (rv, rest) != (v, b"\x99"):
                rep.oracle_fail({"kind": "ext-w", "v": v}, "extended field %d written as (%d,%s) reads back as %s"
                                % (v, nib, ext.hex(), rv), key="ext-roundtrip")
        elif v <= MAX_EXT:
            rep.oracle_fail({"kind": "ext-w", "v": v},
                            "_write_extended_field_value(%d) raises although the 16-bit form covers 269..65804" % v,
                            key="ext-write-refuses:%d" % v)
    shapes = [b"", b"\x00", b"\xff", b"\x00\x00", b"\x00\xff", b"\x01\x00", b"\xff\xfe", b"\xff\xff", b"\xff\xff\x07"]
    for nib in range(16):
        for raw in shapes:
            try:
                v, rest = r_ext(nib, raw)
                out = "%d %s" % (v, hx(rest))
            except impl.error.UnparsableMessage:
                out = "err"
            except Exception as e:
                out = "err:other:" + type(e).__name__
            add({"kind": "ext-r", "nib": nib, "hex": raw.hex()}, "C01 ext r %d %s" % (nib, hx(raw)), out)
            rep.count("ext-r:" + ("err" if out == "err" else "ok"))
    for n in sorted(set(range(0, 2101)) | set(impl.named) | {65535, 65536, 65804, 100000, 200000}):
        add({"kind": "fmt", "n": n}, "C01 fmt %d" % n, impl.fmt_name(n),
            nontrivial=n in impl.named)
        rep.count("fmt:" + outs[-1])
    compare(env, rep, cases, lines, outs, what="ext/fmt")
    rep.exhaustive_parts.append("format table 0..2100 and every named option number")
    rep.exhaustive_parts.append("extended-field writer 0..299 and every threshold +-2; reader 16 nibbles x 9 shapes")
    if env.thorough:
        rep.exhaustive_parts.append("extended-field writer 0..70000")

    cases, lines, outs = [], [], []
    for b in utf8_cases(env):
        try:
            b.decode("utf-8")
            ok = True
        except UnicodeDecodeError:
            ok = False
        case = {"kind": "utf8", "hex": b.hex()}
        cases.append(case)
        lines.append("C01 utf8 " + hx(b))
        outs.append("1" if ok else "0")
        rep.case(case, nontrivial=len(b) > 1, sample_every=30011)
        rep.count("utf8:valid" if ok else "utf8:invalid")
        if rfc.is_utf8(b) != ok:
            raise HarnessError("oracle UTF-8 checker disagrees with CPython on %s" % b.hex())
    compare(env, rep, cases, lines, outs, what="utf8")
    rep.exhaustive_parts.append("UTF-8 validity of all 0-, 1- and 2-byte strings")


def corpus_cases():
    decs, encs, seeds, socks = [], [], [], []
    for fn, c in load_corpus("C01"):
        if c.get("kind") == "sock":
            socks.append(bytes.fromhex(c["hex"]))
        if c.get("kind") == "dec":
            decs.append(bytes.fromhex(c["hex"]))
            if c.get("seed"):
                seeds.append(bytes.fromhex(c["hex"]))
        elif c.get("kind") == "enc":
            encs.append(c["msg"])
    return decs, encs, seeds, socks


def run(env, rep):
    impl = Impl(env)
    try:
        _run(env, rep, impl)
    finally:
        impl.close()


def _run(env, rep, impl):
    rng = env.rng
    cdec, cenc, cseeds, csock = corpus_cases()

    # function-level pieces
    run_small(env, rep, impl)

    # corpus first
    wires = run_enc(env, rep, impl, cenc, "corpus")
    run_dec(env, rep, impl, cdec + wires, "corpus")

    # boundary table, in full
    bspecs = boundary_specs(impl)
    bw = run_enc(env, rep, impl, bspecs, "boundary")
    run_dec(env, rep, impl, bw, "boundary-wire")
    bd = boundary_datagrams()
    run_dec(env, rep, impl, bd, "boundary-bytes")
    run_dec(env, rep, impl, option_value_grid(impl.named), "option-value-grid")
    rep.exhaustive_parts.append("every named option number x value lengths %s x 2 fillings as received bytes"
                                % VALUE_LENGTHS)
    rep.exhaustive_parts.append("boundary table: deltas/lengths %s, 256 nibble pairs, TKL 0..15" % BOUNDS)

    # random structured messages
    specs = [rand_spec(impl, rng) for _ in range(env.scale(8000, 250000))]
    rw = run_enc(env, rep, impl, specs, "random")
    run_dec(env, rep, impl, rw, "random-wire", transports=False)
    # RFC-valid datagrams the library itself would never write: non-minimal integers, laid out by
    # the oracle's serialiser
    alt = []
    for spec in specs[: env.scale(2500, 60000)]:
        if not spec_wellformed(spec, impl.kind_of):
            continue
        f = spec_fields(spec)
        f.options = [(n, (b"\x00" * rng.randrange(1, 3) + v) if (impl.kind_of(n) in "ucb" and rng.random() < 0.7) else v)
                     for n, v in f.options]
        alt.append(rfc.build(f))
    run_dec(env, rep, impl, alt, "oracle-built", transports=False)

    # the receive path from the socket on: datagrams around and beyond the receive buffer of the udp6 transport
    run_socket(env, rep, impl, csock + bw[:60] + socket_datagrams(impl, rng))

    # malformed stream
    exhaustive_seeds = cseeds
    others = [w for w in rw if 5 <= len(w) <= 400]
    rng.shuffle(others)
    seeds = exhaustive_seeds + others[: env.scale(400, 12000)]
    if len(exhaustive_seeds) < 3:
        raise HarnessError("corpus does not provide three seed datagrams")
    mal = mutations(env, seeds, exhaustive=len(exhaustive_seeds))
    for kind in ("trunc", "mut", "ins"):
        rep.count("malformed:" + kind, sum(1 for k, _ in mal if k == kind))
    run_dec(env, rep, impl, [d for _, d in mal], "malformed", malformed=True)
    rep.exhaustive_parts.append("every truncation, single-byte mutation and (13 byte values) insertion of %d corpus datagrams"
                                % len(exhaustive_seeds))

    n_mal = rep.hist.get("malformed-stream", 0)
    if n_mal * 2 > rep.evaluations:
        raise HarnessError("malformed stream is %d of %d cases (> 50 %%)" % (n_mal, rep.evaluations))
    need = ["socket:small", "socket:over-4096", "socket:jumbo", "dec:option-value-grid:ok",
            "dec:value-kind=s", "dec:value-kind=o", "dec:value-kind=u", "dec:value-kind=b", "dec:value-kind=c",
            "dec:malformed:err:unparsable", "dec:malformed:ok", "enc:boundary:err:ValueError",
            "enc:boundary:err:struct.error", "receive:udp6:dropped", "receive:udp6:dispatched",
            "receive:generic_udp:dropped", "receive:generic_udp:dispatched"]
    missing = [k for k in need if not rep.hist.get(k)]
    if missing:
        raise HarnessError("generator did not reach: %s" % missing)


def replay(env, case):
    impl = Impl(env)
    try:
        if case.get("kind") == "dec":
            data = bytes.fromhex(case["hex"])
            out, m = impl.decode(data)
            v, _ = oracle_decode(impl, data, out, m)
            if v:
                return v
            for name, esc, n in impl.receive(data):
                if esc:
                    return "%s receive path let %s through" % (name, esc)
                if (n == 1) != (m is not None):
                    return "%s receive path dispatched %d messages (decode: %s)" % (name, n, out[:80])
            return ""
        if case.get("kind") == "sock":
            return oracle_socket(impl, bytes.fromhex(case["hex"]))[0]
        if case.get("kind") == "enc":
            spec = case["msg"]
            out, exc = impl.encode_msg(impl.build(spec))
            return oracle_encode(impl, spec, out, exc)[0]
        if case.get("kind") == "ext-w":
            v = case["v"]
            try:
                nib, ext = impl.options_mod._write_extended_field_value(v)
            except Exception:
                return ("_write_extended_field_value(%d) raises although the 16-bit form covers 269..65804" % v
                        if v <= MAX_EXT else "")
            rv, rest = impl.options_mod._read_extended_field_value(nib, ext + b"\x99")
            return "" if (rv, rest) == (v, b"\x99") else "extended field %d reads back as %d" % (v, rv)
        return ""
    finally:
        impl.close()
