"""C05 — block-wise client transfers deliver both bodies intact or fail loudly.

Implementation under test: the real `Context.request(msg)` -> `BlockwiseRequest` ->
`Context.request(block, handle_blockwise=False)` -> `Request`/`Pipe`, with one fake
`RequestInterface` registered in the context (no sockets, no time).  Every block request that
reaches the interface is observed in its serialised form (options encoded and decoded again)
and answered by the independent RFC 7959 reference server of `harness/c05_refserver.py`
(conforming with size reductions at any block, or deviating once: violating a sequencing rule,
or ending the transfer itself with one complete response).  Requests are sent with and without
Observe:0; the server may put an Observe option into intermediate 2.31 acknowledgements.

Correspondence (model ~ code):
  R  Lean `runClient` is given the recorded responses and must reproduce the wire sequence of
     requests (Block1, Block2, Size1, payload) and the result (code, ETag, body) / the
     exception class / "pending";
  I  for conforming servers Lean `transfer` (client machine + Lean `RefServer` in closed loop)
     must reproduce requests, the Python reference server's responses, the result and the body
     the server recorded;
  B  `BlockwiseTuple.size/start/is_valid_for_payload_size/reduced_to` against `BlockOpt`.
Oracle (independent reading of the property over what the implementation did): see `oracle`.
There is no class of "tolerated" deviations: a server is conforming (both bodies intact), violates
a sequencing rule (the request ends with an aiocoap error), or ends the transfer with ONE response
that is complete in CoAP terms (the caller gets exactly that response, nothing more is uploaded).
A SUCCESSFUL response without Block1 option to a non-final block is a sequencing violation (until
round 4 it had been put into the third class: a mistake of the verification, withdrawn).
Requests are also sent with the application's size hint `block2=(0, False, szx)` (modelled:
`Cfg.hint2`) and with the deprecated `block1=(0, False, szx)` hint (modelled since round 4:
`Cfg.hint1`), the latter also with an empty body.

Round 4: the client's maximum exponent ranges over 0..7 -- 7 is a remote that does BERT (RFC 8323 section 6,
`maximum_block_size_exp` 7, what a TCP/WebSocket remote reports; `maximum_payload_size` 1124 / 2148 / 4196):
its first Block1 block is a BERT block of 1024 * (maximum_payload_size // 1024) bytes.  The reference server
understands BERT requests and answers them with its own exponents 0..6 (modelled in Lean too, closed loop), or
is a BERT peer that echoes 7 and serves BERT Block2 blocks of k KiB (compared through `runClient`, judged by the
oracle).  Two deviations go on for good instead of hitting one exchange (`hollow`: every Block2 response says
"more" and is empty; `confused`: pieces of 2x / 3x the announced size numbered as pieces), and a transfer that is
still exchanging blocks after MAX_EXCHANGES exchanges is cut off: the verdict is "the request does not terminate".
"""
import asyncio
import logging

from common import compare, load_corpus, HarnessError
import c05_refserver as ref

RULE = ("Cases = (request body length, response body length, client maximum size exponent 0..7 (7 = BERT remote), "
        "maximum payload size, per-exchange size exponents chosen by the reference server, "
        "optional deviation of the server, optional Observe:0 in the request, optional size hints block2=(0,0,szx) / "
        "block1=(0,0,szx) preset by the application). Corpus first; then the full "
        "boundary table: body lengths "
        "0,1,15,16,17,...,1023,1024,1025,1123,1124,1125,2047,2048,2049,multi-kB x client szx 0..6 "
        "x reduction schedules for uploads and x server szx 0..6 x client szx for downloads, every "
        "deviation kind (29: 19 sequencing violations incl. 2.31 without Block1, a Block2 block larger than "
        "requested, a first block larger than the application's hint, and the two that go on for good - every Block2 "
        "response 'more' and empty from the n-th on; pieces of 2x/3x/4x the announced size -, 6 single complete responses that end the "
        "transfer - a response without Block1 option being a violation when it is successful and answers a non-final "
        "block -, 3 harmless oddities incl. Observe in an "
        "intermediate 2.31, silence) at first/middle/last position; no-Block1 responses with codes "
        "2.01/2.04/2.05/4.08/4.13/5.00 to block 0 / the middle / the last block of 3 and to a one-block request "
        "with Block1 hint; Block2 hints 0..6 x first-response exponent below/equal/above the hint x one-block and "
        "multi-block representations x with/without upload; requests with Observe:0 whose upload needs "
        "several blocks x server putting Observe into the n-th / every 2.31 / the final response, "
        "BERT remotes (client maximum 7) x maximum payload size 1124/2148/4196 x body lengths around every KiB "
        "boundary x servers that answer the BERT block with exponent 6 / 5 / small / reduce again later and BERT "
        "peers that keep 7 or go down to 6 / 4 / 2 at the second or third block, BERT downloads in blocks of 1/2/4 "
        "KiB with reductions to 6 / 3, every deviation kind against a BERT client; the deprecated Block1 hint 0..6 x "
        "bodies of 0 / 1 / one block / one block + 1 bytes; "
        "BlockwiseTuple arithmetic on all "
        "(szx 0..7, max 0..7) pairs x payload sizes 0, 1, unit-1 .. 3 units; then random cases from the seeded PRNG (lengths drawn around block "
        "boundaries, random per-block reductions, <= 35 % deviating). Non-trivial: at least two "
        "block exchanges happened; distinct by the full case description.")
TRUSTED = ["harness/c05_refserver.py (independent RFC 7959 reference server) and the fake "
           "RequestInterface/EndpointAddress of harness/props/C05.py"]
ASSUMPTIONS = ["a remote that does BERT (maximum_block_size_exp 7) takes at least 1 KiB of payload "
               "(maximum_payload_size >= 1024; RFC 8323: BERT needs Max-Message-Size > 1152) and its limits do not "
               "change during a transfer (on a fresh TCP connection they do when the peer's CSM arrives: "
               "rfc8323common.py, outside the anchors)",
               "the application presets no Block options other than "
               "the size hints block2=(0, False, szx) and block1=(0, False, szx) (deprecated), both modelled "
               "- a request that asks for a particular block of the response itself is not generated",
               "requests carrying Observe:0 are run through the same correspondence and oracle (the Lean client "
               "machine has no Observe option: it claims that the option has no influence on the block requests "
               "and on the response, which is what is compared); what an observation delivers AFTER the first "
               "response is judged by the oracle-only level harness/c05_observe.py",
               "every block request gets at most one response (loss/duplication of single "
               "exchanges is the message layer's job: C03/C04)",
               "a changed representation is distinguishable by its ETag"]

# No conforming transfer of the generators needs more exchanges (bodies <= ~6 kB in 16-byte blocks, both
# directions); a transfer that is still exchanging blocks after that many is cut off and reported as
# "runaway": the oracle's verdict is that the request does not terminate.
MAX_EXCHANGES = 1200

LENGTHS = [0, 1, 15, 16, 17, 31, 32, 33, 63, 64, 65, 127, 128, 129, 255, 256, 257, 511, 512, 513,
           1023, 1024, 1025, 1123, 1124, 1125, 2047, 2048, 2049, 3000, 4113]
CODES = {"PUT": 3, "POST": 2, "FETCH": 5, "GET": 1}


# ------------------------------------------------------------------------------------------
# the world: one loop, one real Context, one fake request interface
# ------------------------------------------------------------------------------------------
class World:
    def __init__(self, env):
        self.aiocoap = env.import_repo()
        import aiocoap
        from aiocoap import interfaces, error
        from aiocoap.options import Options
        from aiocoap.numbers.codes import Code
        self.Message, self.Code, self.Options, self.error = aiocoap.Message, Code, Options, error
        __import__("common").quiet(logging.getLogger("coap"))
        self.loop = asyncio.new_event_loop()

        class Remote(interfaces.EndpointAddress):
            hostinfo = "refserver"
            hostinfo_local = "harness"
            uri_base = "coap://refserver"
            uri_base_local = "coap://harness"
            is_multicast = False
            is_multicast_locally = False
            scheme = "coap"
            blockwise_key = ("c05",)
            maximum_block_size_exp = 6
            maximum_payload_size = 1124

            def __init__(self, exp=None, mps=None):
                if exp is not None:
                    self.maximum_block_size_exp = exp
                if mps is not None:
                    self.maximum_payload_size = mps

        world = self

        class Iface(interfaces.RequestInterface):
            async def recognize_remote(self, message):
                return isinstance(message.remote, Remote)

            async def determine_remote(self, message):
                return None

            def request(self, pipe):
                world.on_request(pipe)

        self.Remote = Remote
        self.ctx = aiocoap.Context(loop=self.loop)
        self.ctx.request_interfaces.append(Iface())
        self.server = None

    def close(self):
        self.loop.close()

    # -- glue between aiocoap messages and the reference server's plain tuples --------------
    def wire_view(self, msg):
        """what is on the wire: the options are serialised and parsed again"""
        o = self.Options()
        rest = o.decode(msg.opt.encode())
        if rest:
            raise HarnessError("option serialisation left a remainder")
        b1, b2 = o.block1, o.block2
        return (None if b1 is None else (b1.block_number, bool(b1.more), b1.size_exponent),
                None if b2 is None else (b2.block_number, bool(b2.more), b2.size_exponent),
                o.size1, bytes(msg.payload), int(msg.code), tuple(o.uri_path), o.observe)

    def to_message(self, reply, remote):
        tmp = self.Message(code=self.Code(reply.code))
        if reply.block1 is not None:
            tmp.opt.block1 = reply.block1
        if reply.block2 is not None:
            tmp.opt.block2 = reply.block2
        if reply.etag is not None:
            tmp.opt.etag = reply.etag
        if reply.observe is not None:
            tmp.opt.observe = reply.observe
        msg = self.Message(code=self.Code(reply.code), payload=reply.payload)
        msg.opt.decode(tmp.opt.encode())
        msg.remote = remote
        return msg

    def on_request(self, pipe):
        req = pipe.request
        v = self.wire_view(req)
        self.reqs.append(v)
        if len(self.reqs) > MAX_EXCHANGES:
            self.runaway = True
            if not self.stalled.done():
                self.stalled.set_result(None)
            return
        reply = self.server.handle((v[0], v[1], v[3]))
        if reply is None:
            if not self.stalled.done():
                self.stalled.set_result(None)
            return
        self.replies.append(reply)
        # a response's remote is a new address object of the same transport (the transport's maximum
        # exponent: 6, or 7 on a transport that does BERT; same maximum payload size) or the very object
        # of the request
        remote = (self.Remote(7 if self.transport_bert else None,
                              self.mps_after or req.remote.maximum_payload_size)
                  if self.fresh_remote else req.remote)
        # like the token manager: a response with an Observe option to a request with one is not the last
        is_last = reply.observe is None or req.opt.observe is None
        pipe.add_response(self.to_message(reply, remote), is_last=is_last)

    # -- one transfer ------------------------------------------------------------------------
    async def _transfer(self, case):
        msg = self.Message(code=self.Code(CODES[case.get("method", "PUT")]),
                           payload=ref.pattern(case["plen"], case["pseed"]),
                           uri_path=("c05", "res"))
        if case.get("observe"):
            msg.opt.observe = 0
        if case.get("hint2") is not None:      # the application asks for blocks of at most this size
            msg.opt.block2 = (0, False, case["hint2"])
        if case.get("hint1") is not None:      # the deprecated way of choosing the Block1 size
            msg.opt.block1 = (0, False, case["hint1"])
        msg.remote = self.Remote(case["szx0"], case["mps"])
        self.stalled = self.loop.create_future()
        request = self.ctx.request(msg)
        await asyncio.wait([request.response, self.stalled], return_when=asyncio.FIRST_COMPLETED)
        fut = request.response
        if not fut.done():
            fut.cancel()
            await asyncio.sleep(0)
            return ("runaway", len(self.reqs)) if self.runaway else ("pending",)
        exc = fut.exception()
        # let the runner task finish; an observation that was established is given up
        await asyncio.sleep(0)
        if request.observation is not None and not request.observation.cancelled:
            request.observation.cancel()
        for _ in range(3):
            await asyncio.sleep(0)
        if exc is not None:
            return ("err", type(exc).__name__, isinstance(exc, self.error.Error))
        r = fut.result()
        return ("ok", int(r.code), None if r.opt.etag is None else bytes(r.opt.etag), bytes(r.payload))

    def run_case(self, case):
        etag = None if case["etag"] is None else bytes.fromhex(case["etag"])
        self.server = ref.RefServer(ref.pattern(case["rlen"], case["rseed"]), etag, case["code"],
                                    case["choices"], case["default"], case.get("limit"),
                                    case.get("mis"), case.get("obs_final"), case.get("bert"))
        self.reqs, self.replies = [], []
        self.runaway = False
        self.transport_bert = case["szx0"] == 7
        self.fresh_remote = case.get("fresh_remote", True)
        # the remote's limits as they are from the first response on (the peer's CSM arriving on a fresh connection of
        # a reliable transport raises them); such cases are judged by the oracle only
        self.mps_after = case.get("mps_after")
        outcome = self.loop.run_until_complete(self._transfer(case))
        return {"reqs": self.reqs, "replies": self.replies, "outcome": outcome,
                "server": self.server}


# ------------------------------------------------------------------------------------------
# canonical strings shared with the driver
# ------------------------------------------------------------------------------------------
def hx(b):
    return b.hex() if b else "-"


def sblock(b):
    return "-" if b is None else "%d.%d.%d" % (b[0], 1 if b[1] else 0, b[2])


def setag(e):
    return "n" if e is None else "e" + e.hex()


def sreq(v):
    return "%s:%s:%s:%s" % (sblock(v[0]), sblock(v[1]), "-" if v[2] is None else v[2], hx(v[3]))


def sreply(r):
    return "%d:%s:%s:%s:%s" % (r.code, sblock(r.block1), sblock(r.block2), setag(r.etag), hx(r.payload))


def soutcome(o):
    if o[0] == "ok":
        return "ok:%d:%s:%s" % (o[1], setag(o[2]), hx(o[3]))
    if o[0] == "err":
        return "err:" + o[1]
    return o[0]                     # "pending" / "runaway"


def shint(h):
    return "-" if h is None else "%d" % h


def r_line(case, obs):
    return "C05 R %s %d %d %s %s %s" % (hx(ref.pattern(case["plen"], case["pseed"])), case["szx0"],
                                        case["mps"], shint(case.get("hint1")), shint(case.get("hint2")),
                                        " ".join(sreply(r) for r in obs["replies"]))


def r_out(obs):
    return " ".join(sreq(v) for v in obs["reqs"]) + " | " + soutcome(obs["outcome"])


def i_line(case, obs):
    return "C05 I %s %d %d %s %s %s %s %d %s" % (
        hx(ref.pattern(case["plen"], case["pseed"])), case["szx0"], case["mps"],
        shint(case.get("hint1")), shint(case.get("hint2")),
        hx(ref.pattern(case["rlen"], case["rseed"])),
        "n" if case["etag"] is None else "e" + case["etag"], case["code"],
        " ".join("%d.%d" % (c[0], 1 if c[1] else 0) for c in obs["server"].used_choices))


def i_out(obs):
    rec = obs["server"].recorded
    return (" ".join(sreq(v) for v in obs["reqs"]) + " | " + " ".join(sreply(r) for r in obs["replies"])
            + " | " + soutcome(obs["outcome"]) + " | " + ("n" if not rec else "r" + rec[-1].hex()))


# ------------------------------------------------------------------------------------------
# the oracle: the property read directly over the observed behaviour
# ------------------------------------------------------------------------------------------
def oracle(case, obs):
    """Returns (verdict, key); verdict "" = the property holds on this observation."""
    payload = ref.pattern(case["plen"], case["pseed"])
    rep = ref.pattern(case["rlen"], case["rseed"])
    srv = obs["server"]
    out = obs["outcome"]
    kind = (case.get("mis") or {}).get("kind")
    if case.get("limit") is not None:
        kind = kind or "stall"
    method = CODES[case.get("method", "PUT")]

    # "the request ends": with a response or with an error -- whatever the server does, a request that is still
    # exchanging blocks after MAX_EXCHANGES exchanges (no body of the generators needs that many) does not
    if out[0] == "runaway":
        last = obs["reqs"][-1]
        same = sum(1 for v in obs["reqs"] if v[:2] == last[:2])
        return ("the request does not terminate (server: %s): %d requests and no end, the last one for Block1 %r / "
                "Block2 %r, which was asked for %d times" % (kind or "conforming", out[1], last[0], last[1], same)), \
            "never-terminates:" + (kind or "conforming")
    # fail loudly = with an aiocoap error, whatever the server does
    if out[0] == "err" and not out[2]:
        return ("request ended with %s, which is not an aiocoap.error.Error (server: %s)"
                % (out[1], kind or "conforming")), "foreign-exception:" + out[1]

    # --- block options on the wire (whatever the server does, the client's requests must be
    # consistent): Block1 phase
    off = 0
    hint1, hint2 = case.get("hint1"), case.get("hint2")
    last_szx = case["szx0"] if hint1 is None else hint1
    # upload phase: the requests up to the one whose response carried the first Block2 option (the first block of
    # the response body); what follows asks for the LATER blocks of the response.  (Equivalently, as long as the
    # client never asks for block 0 again: the requests without Block2 option or with the application's size
    # hint, which has block number 0.)
    b1_reqs, b2_reqs = split_phases(obs)
    if any(v[1] is not None and v[1][0] != 0 for v in b1_reqs):
        return "a request of the upload phase asks for a later block of the response", "wire:phase-order"
    want_b2 = None if hint2 is None else (0, False, hint2)
    for i, (b1, b2, size1, data, code, path, observe) in enumerate(b1_reqs):
        if code != method or path != ("c05", "res"):
            return "block request %d does not repeat method/Uri-Path" % i, "wire:method-path"
        if b2 != want_b2:
            return ("request %d of the upload phase carries Block2 %r, the application's request %r"
                    % (i, b2, want_b2)), "wire:b1-hint"
        if b1 is None:
            if len(b1_reqs) != 1 or data != payload or hint1 is not None:
                return "unfragmented request is not the whole payload", "wire:unfragmented"
            off = len(data)
            continue
        num, more, szx = b1
        # the unit the block number counts in: 2**(szx+4) bytes, 1024 for BERT (RFC 8323 section 6)
        size = ref.usize(szx)
        if szx > last_szx:
            return "Block1 size exponent grew from %d to %d at request %d" % (last_szx, szx, i), "wire:b1-szx-grows"
        last_szx = szx
        if num * size != off:
            return ("Block1 request %d: NUM %d x size %d = %d is not the offset %d reached so far"
                    % (i, num, size, num * size, off)), "wire:b1-offset"
        if szx == 7:
            # a BERT block: one or more whole KiB while more follow, never more than the remote takes
            if data != payload[off:off + len(data)] or (not data and payload):
                return "BERT Block1 request %d does not carry payload[%d:%d]" % (i, off, off + len(data)), "wire:b1-bytes"
            limit = case["mps"] if i == 0 or case.get("mps_after") is None else case["mps_after"]
            if len(data) > limit:
                return ("BERT Block1 request %d carries %d bytes, the remote's maximum payload size is %d"
                        % (i, len(data), limit)), "wire:b1-bert-too-long"
        elif data != payload[off:off + size]:
            return "Block1 request %d does not carry payload[%d:%d]" % (i, off, off + size), "wire:b1-bytes"
        if more != (off + len(data) < len(payload)):
            return "Block1 request %d: more flag %s but %d bytes remain" % (
                i, more, len(payload) - off - len(data)), "wire:b1-more"
        if more and (len(data) != size if szx < 7 else (not data or len(data) % 1024)):
            return "Block1 request %d: non-final block of %d bytes at size %d" % (i, len(data), size), "wire:b1-len"
        if not more and i != len(b1_reqs) - 1:
            return "Block1 request %d without more flag is not the last" % i, "wire:b1-final-not-last"
        off += len(data)
    # Block2 phase: each request asks for the byte offset received so far, never above the
    # client's maximum, never larger than what the server used last
    got = None
    for i, (b1, b2, size1, data, code, path, observe) in enumerate(b2_reqs):
        if b2 is None:
            return ("request %d after the first block of the response carries no Block2 option" % i), "wire:phase-order"
        num, more, szx = b2
        if code != method or path != ("c05", "res"):
            return "Block2 request %d does not repeat method/Uri-Path" % i, "wire:method-path"
        if b1 is not None or data or more:
            return "Block2 request %d carries Block1/payload/more flag" % i, "wire:b2-shape"
        if szx > case["szx0"]:
            return "Block2 request %d uses exponent %d above the client maximum %d" % (i, szx, case["szx0"]), "wire:b2-szx-max"
        # bytes delivered by the replies that preceded this request
        idx = len(b1_reqs) + i          # index of this request = number of replies before it
        prior = obs["replies"][len(b1_reqs) - 1:idx]
        got = sum(len(r.payload) for r in prior)
        if num == 0:
            return ("Block2 request %d asks for block 0 again after the first block of the response had arrived "
                    "(%d bytes received so far)" % (i, got)), "wire:b2-not-advancing"
        if num * ref.usize(szx) != got:
            return ("Block2 request %d: NUM %d x size %d = %d but %d bytes were received so far"
                    % (i, num, ref.usize(szx), num * ref.usize(szx), got)), "wire:b2-offset"
        # offsets are contiguous: the same block is never asked for twice
        if i > 0 and num * ref.usize(szx) <= b2_reqs[i - 1][1][0] * ref.usize(b2_reqs[i - 1][1][2]):
            return ("Block2 request %d asks for offset %d again (the request before it asked for %d)"
                    % (i, num * ref.usize(szx), b2_reqs[i - 1][1][0] * ref.usize(b2_reqs[i - 1][1][2]))), \
                "wire:b2-not-advancing"
        if prior[-1].block2 is not None and szx > prior[-1].block2[2]:
            return "Block2 request %d: exponent %d above the server's last %d" % (i, szx, prior[-1].block2[2]), "wire:b2-szx-above-server"
        # "the size exponent never grows", literally, along the Block2 options of ALL the client's requests: the
        # application's size hint on the request(s) of the upload phase comes first
        before = b2_reqs[i - 1][1][2] if i > 0 else hint2
        if before is not None and szx > before:
            return ("Block2 request %d: size exponent grew from %d%s to %d"
                    % (i, before, "" if i > 0 else " (the size hint of the first request)", szx)), "wire:b2-szx-grows"
        if observe is not None:
            return "Block2 request %d for a later block carries an Observe option" % i, "wire:b2-observe"
    if case.get("observe"):
        for i, v in enumerate(b1_reqs):
            if v[6] != 0:
                return "request %d of an Observe:0 request does not carry Observe:0" % i, "wire:b1-observe"

    # --- bodies
    etag = None if case["etag"] is None else bytes.fromhex(case["etag"])
    # what the deviation amounts to: for most kinds that is fixed, for `ignore_block1` it depends on the block it hit
    # and on the code (the reference server says which: c05_refserver.py)
    must_error = kind in ref.MUST_ERROR or (kind == "ignore_block1" and srv.klass == "error")
    exact = kind in ref.EXACT_REPLY and not must_error
    if kind in ref.MUST_SUCCEED or not srv.triggered:
        # a conforming server (possibly with harmless oddities): both bodies intact
        if out[0] != "ok":
            return "conforming server (%s) but the request ended with %r" % (kind, out[:2]), "conforming-failed"
        if srv.recorded != [payload]:
            return ("server reassembled %s, not the %d-byte payload handed to the API"
                    % ([len(b) for b in srv.recorded], len(payload))), "request-body-differs"
        if out[3] != rep:
            return ("returned body (%d bytes) is not the server's representation (%d bytes)"
                    % (len(out[3]), len(rep))), "response-body-differs"
        if out[1] != case["code"] or out[2] != etag:
            return "returned code/ETag %r differ from the server's" % (out[1:3],), "response-meta-differs"
        return "", None
    if must_error:
        if out[0] == "ok":
            what = "the server's body" if out[3] == rep else (
                "a strict prefix" if rep.startswith(out[3]) else
                "a fragment of the body" if out[3] and out[3] in rep else "a mixed/duplicated body")
            return ("server misbehaved (%s) but the request returned a response (code %d, %d bytes: %s) instead of an error"
                    % (kind, out[1], len(out[3]), what)), "misbehaviour-accepted:" + kind
        if out[0] == "pending":
            return "server misbehaved (%s) and the request neither failed nor finished" % kind, "misbehaviour-hangs:" + kind
        return "", None
    if exact:
        # the server ended the transfer with ONE response that is complete by itself (see c05_refserver.py for
        # what each kind is).  The caller gets exactly that response: its code, its ETag, its payload -- not the
        # representation assembled so far, not a combination; and nothing more is uploaded after it.
        if out[0] != "ok":
            return ("the server ended the transfer with a complete response (%s) but the request ended with %r"
                    % (kind, out[:2])), "single-response-lost:" + kind
        if tuple(out[1:4]) != srv.expected:
            return ("the server ended the transfer with the response (code %d, ETag %r, %d bytes) (%s) but the caller "
                    "got (code %d, ETag %r, %d bytes)" % (srv.expected[0], srv.expected[1], len(srv.expected[2]), kind,
                                                         out[1], out[2], len(out[3]))), "single-response-altered:" + kind
        if kind in ref.ENDS_UPLOAD and len(b1_reqs) > srv.trigger_index + 1:
            return "the upload went on after the server's final answer (%s)" % kind, "upload-continued:" + kind
        if kind == "ignore_block1" and srv.hit_final and is_success(srv.expected[0]) and srv.recorded != [payload]:
            # only the echo of the final block's option was missing: the body had been sent completely
            return ("server reassembled %s, not the %d-byte payload handed to the API"
                    % ([len(b) for b in srv.recorded], len(payload))), "request-body-differs"
        return "", None
    if kind == "stall":
        if out[0] != "pending":
            return "the server fell silent but the request ended with %r" % (out[:2],), "stall-resolved"
        return "", None
    raise HarnessError("oracle has no rule for server kind %r" % (kind,))


def split_phases(obs):
    """(requests of the upload phase, requests for later blocks of the response)"""
    first = next((i for i, r in enumerate(obs["replies"]) if r.block2 is not None), None)
    if first is None:
        return list(obs["reqs"]), []
    return list(obs["reqs"][:first + 1]), list(obs["reqs"][first + 1:])


def is_success(code):
    return 64 <= code < 96


# ------------------------------------------------------------------------------------------
# case generation
# ------------------------------------------------------------------------------------------
def mk(plen=0, rlen=0, szx0=6, mps=1124, choices=(), default=(6, False), etag="c0ffee", code=69,
       mis=None, limit=None, pseed=1, rseed=2, method="PUT", fresh_remote=True, observe=False,
       obs_final=None, hint1=None, hint2=None, bert=None, mps_after=None):
    c = {"plen": plen, "pseed": pseed, "rlen": rlen, "rseed": rseed, "etag": etag, "code": code,
         "szx0": szx0, "mps": mps, "choices": [list(x) for x in choices], "default": list(default),
         "method": method, "fresh_remote": fresh_remote}
    if mis is not None:
        if mis.get("kind") == "etag_change":
            # the replaced representation must differ in its ETag (a change no ETag tells of is not detectable)
            after = mis.get("etag", "ee")
            if (after == "none" and etag is None) or after == etag:
                mis = dict(mis, etag="ee" if etag != "ee" else "ef")
        c["mis"] = mis
    if limit is not None:
        c["limit"] = limit
    if bert is not None:
        c["bert"] = bert             # the server is a BERT peer: it uses exponent 7 itself, blocks of `bert` KiB
    if mps_after is not None:
        c["mps_after"] = mps_after   # the remote's maximum payload size from the first response on
    if hint2 is not None:
        c["hint2"] = hint2           # the application's request carries block2=(0, False, hint2)
    if hint1 is not None:
        c["hint1"] = hint1           # ... carries block1=(0, False, hint1) (deprecated size hint)
    if observe:
        c["observe"] = True          # the application request carries Observe:0
        if obs_final is not None:
            c["obs_final"] = obs_final   # Observe value of the server's final response (None: not observable)
    return c


def boundary_cases():
    cases = []
    # uploads: every length x every client exponent x reduction schedules
    for L in LENGTHS:
        for szx0 in range(7):
            if L > 2049 and szx0 < 2:
                continue
            scheds = [((), (6, False))]                                # no reduction
            if szx0 > 0:
                scheds.append(((), (0, False)))                        # at block 0 to the minimum
                scheds.append((((6, False), (szx0 - 1, False)), (szx0 - 1, False)))   # at block 1 by one
                scheds.append((((6, False), (6, False), (max(0, szx0 - 3), False)), (0, False)))  # two steps
            for ch, d in scheds:
                cases.append(mk(plen=L, rlen=5, szx0=szx0, choices=ch, default=d, code=68))
    # maximum payload size other than 1124 (OSCORE: 1024) at szx 6
    for L in (1023, 1024, 1025, 1124, 1125, 2049):
        for mps in (1024, 1023, 1152):
            cases.append(mk(plen=L, rlen=0, szx0=6, mps=mps, code=68))
    # downloads: every length x server exponent x client maximum
    for L in LENGTHS:
        for ssz in range(7):
            for szx0 in (0, 3, 6) if L > 1025 else range(7):
                if L > 2049 and min(ssz, szx0) < 2:
                    continue
                cases.append(mk(plen=0, rlen=L, szx0=szx0, default=(ssz, L % 2 == 0), method="GET"))
        # server reduces in the middle of the download
        for (a, b) in ((6, 2), (4, 0), (5, 4)):
            cases.append(mk(plen=0, rlen=L, szx0=6, choices=((a, False), (a, False), (b, False)),
                            default=(b, False), method="GET", etag=None))
    # both directions at once
    for L in (17, 1025, 2049):
        for R in (33, 1024, 2049):
            for szx0 in (0, 2, 6):
                cases.append(mk(plen=L, rlen=R, szx0=szx0, default=(szx0, False), method="POST"))
                cases.append(mk(plen=L, rlen=R, szx0=szx0, choices=((6, False), (1, False)),
                                default=(1, True), method="FETCH", fresh_remote=False))
    # misbehaviour: every kind at the first / a middle / the last possible position
    for kind in ref.KINDS:
        for szx0, ssz in ((0, 0), (2, 6), (6, 3), (6, 6)):
            for n in (0, 1, 2, 5):
                for (L, R) in ((100, 100), (16, 16), (2049, 3000), (1125, 1025)):
                    if kind == "stall":
                        cases.append(mk(plen=L, rlen=R, szx0=szx0, default=(ssz, False), limit=n))
                    else:
                        cases.append(mk(plen=L, rlen=R, szx0=szx0, default=(ssz, False),
                                        choices=((6, False), (6, False), (ssz, False)),
                                        mis={"kind": kind, "n": n}))
    # a wrong Block1 number in both directions, a wrong first Block2 number, cuts of every size
    for delta in (-1, 1, 2, 100):
        for n in (1, 2, 3):
            cases.append(mk(plen=100, rlen=10, szx0=0, default=(0, False),
                            mis={"kind": "wrongnum1", "n": n, "delta": delta}))
            cases.append(mk(plen=3000, rlen=10, szx0=6, default=(5, False),
                            mis={"kind": "wrongnum1", "n": n, "delta": delta}))
    for delta in (0, 1, 5):
        cases.append(mk(plen=0, rlen=100, szx0=2, default=(1, False), method="GET",
                        mis={"kind": "first_nonzero", "n": 0, "delta": delta}))
        cases.append(mk(plen=10, rlen=100, szx0=2, default=(1, False),
                        mis={"kind": "b1_unfrag_wrongnum", "n": 0, "delta": delta}))
    # the first answer labelled as a later, LAST block (tail of a body), after a plain request and
    # after an upload; a continuation block with another response code (error response carrying a
    # Block2 option and a diagnostic payload, or an honest slice under another success code)
    for delta in (0, 1, 2):
        for (L, R, szx0, ssz) in ((0, 4000, 6, 6), (0, 100, 6, 0), (100, 40, 0, 0), (1125, 10, 6, 6), (0, 5, 3, 3)):
            cases.append(mk(plen=L, rlen=R, szx0=szx0, default=(ssz, False), method="GET" if L == 0 else "POST",
                            etag=None if delta == 2 else "c0ffee",
                            mis={"kind": "first_late_final", "n": 0, "delta": delta}))
    for code in (132, 128, 160, 67, 65):
        for diag in (True, False):
            for n in (0, 1, 4):
                cases.append(mk(plen=0, rlen=2560, szx0=6, default=(6, False), method="GET",
                                etag=None if diag else "01",
                                mis={"kind": "code_change", "n": n % 2, "code": code, "diag": diag}))
                cases.append(mk(plen=40, rlen=100, szx0=1, default=(0, False), method="POST",
                                mis={"kind": "code_change", "n": n, "code": code, "diag": diag}))
    # 2.31 Continue without Block1 option: after every block of a 3-block upload (incl. the final one), to an
    # unfragmented request; a final code without the option after every non-final block (the server ignores Block1)
    for (L, szx0) in ((48, 0), (3072, 6), (100, 2), (10, 6), (16, 0)):
        for n in (0, 1, 2, 3):
            cases.append(mk(plen=L, rlen=7, szx0=szx0, default=(szx0, False), code=68,
                            mis={"kind": "continue_no_block1", "n": n}))
            for code in (68, 65, 69):
                cases.append(mk(plen=L, rlen=7 if code != 69 else 100, szx0=szx0, default=(szx0, False), code=code,
                                mis={"kind": "ignore_block1", "n": n}))
            for code in (136, 141, 128, 160):
                cases.append(mk(plen=L, rlen=7, szx0=szx0, default=(szx0, False), code=68,
                                mis={"kind": "fail_mid_noopt", "n": n, "code": code, "diag": n * 5}))
    # a response WITHOUT Block1 option to block 0 of 3 (or more) / a middle block / the last block, and to a request
    # of one block that carries the deprecated Block1 size hint (it goes out as Block1 (0, M=0, szx)); codes
    # 2.01 / 2.04 / 2.05 / 4.08 / 4.13 / 5.00: an error for a successful code before the end of the body, otherwise
    # exactly that response
    for code in (65, 68, 69, 136, 141, 160):
        for (L, szx0, h1) in ((48, 0, None), (3072, 6, None), (2049, 5, None), (33, 1, None), (40, 6, 0), (1124, 6, 6),
                              (1125, 6, 5), (10, 6, 2), (16, 3, 0), (1024, 2, 6)):
            one_block = h1 is not None and L <= (16 << h1)
            for n in ((0,) if one_block else (0, 1, 2)):
                cases.append(mk(plen=L, rlen=100 if code == 69 else 7, szx0=szx0, default=(6, False), code=68,
                                hint1=h1, mis={"kind": "ignore_block1", "n": n, "code": code, "diag": n * 3}))
    # the application's size hint block2=(0, 0, h), h = 0..6: a conforming server whose own preference lies below /
    # at / above the hint (it uses the smaller of the two); a server whose FIRST block comes at hint+1 / at 6,
    # with the more flag (large representation) and without (a one-block representation labelled explicitly);
    # without upload, with a block-wise upload (every block request carries the hint), with a one-message body
    for h in range(7):
        for (L, R, szx0, method) in ((0, 100, 6, "GET"), (0, 5, 6, "GET"), (0, 3000, 6, "GET"), (0, 1025, 2, "GET"),
                                     (100, 100, 0, "POST"), (3072, 1500, 6, "PUT"), (10, 40, 6, "FETCH")):
            if R // (16 << min(h, szx0)) > 70:
                continue
            for ssz in sorted({max(0, h - 1), h, min(6, h + 1), 6}):
                for explicit in (False, True):
                    cases.append(mk(plen=L, rlen=R, szx0=szx0, default=(ssz, explicit), method=method, hint2=h,
                                    code=69 if method in ("GET", "FETCH") else 68))
            if h < 6:
                for by in (1, 6):
                    for explicit in (False, True):
                        cases.append(mk(plen=L, rlen=R, szx0=szx0, default=(6, explicit), method=method, hint2=h,
                                        mis={"kind": "first_above_hint", "n": 0, "by": by}))
        # the hint and a later reduction / a block larger than requested later on / Observe:0
        cases.append(mk(plen=0, rlen=700, szx0=6, choices=((6, False), (6, False), (0, False)), default=(0, False),
                        method="GET", hint2=h))
        if h < 6:
            cases.append(mk(plen=0, rlen=700, szx0=6, default=(h, False), method="GET", hint2=h,
                            mis={"kind": "b2_szx_grows", "n": 1, "by": 1}))
        cases.append(mk(plen=100, rlen=200, szx0=2, default=(6, False), method="FETCH", hint2=h, observe=True,
                        obs_final=3))
    # a Block2 block larger than requested, wherever the offset allows it (the audit's input first: 400 bytes,
    # requests at szx 0, the block at offset 64 comes as a 64-byte block)
    for by in (1, 2, 3, 6):
        for n in (0, 1, 2):
            for (R, szx0, ssz) in ((400, 6, 0), (400, 0, 0), (3000, 2, 6), (3000, 6, 3), (5000, 5, 5)):
                cases.append(mk(plen=0, rlen=R, szx0=szx0, default=(ssz, False), method="GET",
                                mis={"kind": "b2_szx_grows", "n": n, "by": by}))
                cases.append(mk(plen=40, rlen=R, szx0=szx0, default=(ssz, False), method="POST", etag=None,
                                mis={"kind": "b2_szx_grows", "n": n, "by": by}))
    # a follow-up block answered by a complete response of its own: at every block
    for n in (0, 1, 2, 3):
        for (R, szx0, ssz) in ((3000, 6, 6), (100, 6, 0), (100, 1, 4)):
            for kind in ("drop_block2", "mid_404"):
                cases.append(mk(plen=0, rlen=R, szx0=szx0, default=(ssz, False), method="GET",
                                mis={"kind": kind, "n": n}))
    # requests with Observe:0 whose upload needs several blocks (FETCH) / none (GET); the server puts an Observe
    # option into the n-th / every intermediate 2.31 / none, and accepts the observation in the end or not
    for (L, R, szx0, ssz) in ((3072, 6, 6, 6), (48, 100, 0, 0), (100, 2049, 2, 6), (2049, 33, 6, 3), (0, 100, 6, 1),
                              (10, 10, 6, 6)):
        for obs_final in (None, 5):
            cases.append(mk(plen=L, rlen=R, szx0=szx0, default=(ssz, False), method="FETCH" if L else "GET",
                            observe=True, obs_final=obs_final))
            for m in ({"n": 0}, {"n": 1}, {"all": True}, {"n": 0, "oval": 0}, {"all": True, "oval": 1 << 23}):
                cases.append(mk(plen=L, rlen=R, szx0=szx0, default=(ssz, False), method="FETCH" if L else "GET",
                                observe=True, obs_final=obs_final, mis=dict(kind="observe_continue", **m)))
            # ... and sequencing violations / single responses in an observing request
            for kind in ("continue_no_block1", "wrongnum1", "ignore_block1", "etag_change", "drop_block2"):
                cases.append(mk(plen=L, rlen=R, szx0=szx0, default=(ssz, False), method="FETCH" if L else "GET",
                                observe=True, obs_final=obs_final, mis={"kind": kind, "n": 1}))
    # the server puts Observe into a 2.31 although the request did not ask for it
    for n in (0, 1):
        cases.append(mk(plen=3072, rlen=6, szx0=6, method="FETCH", mis={"kind": "observe_continue", "n": n}))
    # the representation changes in mid-transfer: ETag -> other ETag, ETag -> no ETag, no ETag -> ETag, at the
    # second, a middle and the last block
    for before, after in (("c0ffee", "ee"), ("c0ffee", "none"), (None, "ee"), ("01", "0100"), ("01", "none")):
        for n in (0, 1, 5):
            for szx in (0, 3):
                cases.append(mk(plen=0, rlen=100 if szx == 0 else 900, szx0=6, default=(szx, False), method="GET",
                                etag=before, mis={"kind": "etag_change", "n": n, "etag": after}))
    cases += bert_cases() + persistent_cases()
    for cut in (0, 1, 14, 15):
        for n in (0, 1, 2):
            cases.append(mk(plen=0, rlen=100, szx0=6, default=(0, False), method="GET",
                            mis={"kind": "short_block", "n": n, "cut": cut}))
    for extra in (0, 1, 15, 16, 17):
        for n in (0, 1, 6):
            cases.append(mk(plen=0, rlen=100, szx0=6, default=(0, False), method="GET",
                            mis={"kind": "long_block", "n": n, "extra": extra}))
    return cases


BERT_LENGTHS = [0, 1, 1023, 1024, 1025, 1124, 1125, 2047, 2048, 2049, 2148, 2149, 3000, 4096, 4097, 4196, 4197,
                5121]


def bert_cases():
    """A remote with maximum_block_size_exp 7 (a reliable transport, RFC 8323): the client's first Block1 block
    is a BERT block of 1024 * (maximum_payload_size // 1024) bytes.  Servers: size exponents 0..6 (they understand
    the BERT request and ask for / use their own size at the first or a later block), and BERT peers (exponent 7
    echoed, Block2 blocks of k KiB) that reduce in mid-transfer."""
    cases = []
    for mps in (1124, 2148, 4196):
        for L in BERT_LENGTHS:
            # the server's exponent in its first acknowledgement: 6 / one below / small; a second reduction later
            for ch, d in ((((6, False),), (6, False)), (((5, False),), (5, False)), (((6, False), (6, False), (3, False)), (3, False)),
                          (((2, False),), (2, False)) if L <= 3000 else (((4, False),), (4, False))):
                cases.append(mk(plen=L, rlen=5, szx0=7, mps=mps, choices=ch, default=d, code=68))
            # a BERT peer: keeps 7, or reduces at the second / third block to 6 / 4 (7 -> 6 keeps the unit)
            for ch, d in (((), (7, False)), (((7, False), (6, False)), (6, False)),
                          (((7, False), (7, False), (4, False)), (4, False)), (((7, False), (2, False)), (2, False))):
                cases.append(mk(plen=L, rlen=5, szx0=7, mps=mps, choices=ch, default=d, code=68, bert=2))
    # the remote's limits grow after the first exchange (a fresh connection: the peer's CSM arrives): a transfer that
    # has begun in blocks goes on in blocks (oracle only)
    for L in (1125, 2048, 2049, 3000, 4196, 5000):
        for after in (2148, 4196, 1152 + 65536):
            for ch, d, bert in (((), (7, False), 4), (((6, False),), (6, False), None)):
                cases.append(mk(plen=L, rlen=5, szx0=7, mps=1124, mps_after=after, choices=ch, default=d, code=68,
                                bert=bert))
    # downloads to a BERT client: from servers with exponents 0..6, from BERT peers (blocks of 1, 2, 4 KiB) that
    # keep 7 or go down to 6 / 3 in mid-transfer
    for L in BERT_LENGTHS:
        for ssz in (0, 4, 6) if L <= 3000 else (3, 6):
            cases.append(mk(plen=0, rlen=L, szx0=7, default=(ssz, L % 2 == 0), method="GET"))
        for kib in (1, 2, 4):
            cases.append(mk(plen=0, rlen=L, szx0=7, mps=4196, default=(7, L % 2 == 1), method="GET", bert=kib))
            cases.append(mk(plen=0, rlen=L, szx0=7, mps=4196, choices=((7, False), (7, False), (6, False)),
                            default=(6, False), method="GET", bert=kib, etag=None))
            cases.append(mk(plen=0, rlen=L, szx0=7, mps=4196, choices=((7, False), (3, False)),
                            default=(3, False), method="GET", bert=kib))
    # both directions, with the application's size hint (also 7)
    for (L, R) in ((1125, 2049), (4197, 4097), (10, 5000)):
        for h in (None, 7, 6, 2):
            cases.append(mk(plen=L, rlen=R, szx0=7, mps=2148, default=(6, False), method="POST", hint2=h))
            cases.append(mk(plen=L, rlen=R, szx0=7, mps=2148, default=(7, False), method="FETCH", hint2=h, bert=1,
                            choices=((7, False), (7, False), (5, False)), fresh_remote=False))
    # a BERT client limited by the deprecated Block1 hint / a UDP-sized client against a BERT-labelled first block
    for h1 in (7, 6, 0):
        cases.append(mk(plen=3000, rlen=5, szx0=7, mps=2148, default=(6, False), hint1=h1, code=68))
        if h1 < 7:
            cases.append(mk(plen=3000, rlen=5, szx0=6, mps=2148, default=(6, False), hint1=h1, code=68))
    for szx0 in (6, 3):
        cases.append(mk(plen=0, rlen=5000, szx0=szx0, default=(7, False), method="GET", bert=2))
    # the deprecated Block1 size hint with bodies of 0, 1, one block, one block + 1 bytes (body length 0 is a
    # body length like every other)
    for h1 in range(7):
        for L in (0, 1, 16 << h1, (16 << h1) + 1):
            for method in ("PUT", "FETCH"):
                cases.append(mk(plen=L, rlen=40 if method == "FETCH" else 0, szx0=6, default=(6, False), hint1=h1,
                                method=method, code=69 if method == "FETCH" else 68))
    # every deviation kind against a BERT client: server with exponents 0..6 and BERT peer
    for kind in ref.KINDS:
        for bert, ssz in ((None, 6), (2, 7)):
            for n in (0, 1, 2):
                for (L, R) in ((2100, 3000), (1125, 2049)):
                    if kind == "stall":
                        cases.append(mk(plen=L, rlen=R, szx0=7, mps=2148, default=(ssz, False), limit=n, bert=bert))
                    else:
                        cases.append(mk(plen=L, rlen=R, szx0=7, mps=2148, default=(ssz, False), bert=bert,
                                        choices=((7, False), (7, False), (ssz, False)),
                                        mis={"kind": kind, "n": n}))
    return cases


def persistent_cases():
    """servers that go on violating a rule: `hollow` (from the n-th Block2 response on every block says "more" and
    is empty) and `confused` (pieces of 2x / 3x the announced size, numbered as pieces) -- a client that accepts
    them never ends, or returns a body with holes"""
    cases = []
    for n in (0, 1, 2, 3):
        for (szx0, ssz, bert, mps) in ((6, 6, None, 1124), (6, 0, None, 1124), (2, 6, None, 1124), (0, 0, None, 1124),
                                       (7, 6, None, 2148), (7, 2, None, 1124), (7, 7, 1, 1124), (7, 7, 2, 4196)):
            for (L, R, method) in ((0, 5000, "GET"), (0, 700, "GET"), (1125, 3000, "POST"), (0, 10, "GET")):
                cases.append(mk(plen=L, rlen=R, szx0=szx0, mps=mps, default=(ssz, R < 100), method=method, bert=bert,
                                mis={"kind": "hollow", "n": n}))
    for mult in (2, 3, 4):
        for (szx0, ssz) in ((6, 2), (6, 6), (2, 6), (0, 0), (7, 6), (7, 0), (5, 3)):
            for (L, R, method) in ((0, 700, "GET"), (0, 5000, "GET"), (40, 4096, "POST"), (0, 128, "GET"), (0, 129, "GET")):
                if R // (16 << min(szx0, ssz)) > 120:
                    continue
                cases.append(mk(plen=L, rlen=R, szx0=szx0, default=(ssz, False), method=method,
                                mis={"kind": "confused", "mult": mult}, etag=None if mult == 3 else "c0ffee"))
    return cases


def near_boundary(rng):
    r = rng.random()
    if r < 0.15:
        return rng.randrange(0, 40)
    if r < 0.75:
        base = 16 << rng.randrange(0, 8)
        return max(0, base * rng.randrange(1, 4) + rng.randrange(-2, 3))
    if r < 0.85:
        return rng.choice([1123, 1124, 1125, 1126])
    return rng.randrange(0, 5000)


def random_case(rng):
    szx0 = rng.randrange(8)
    bert = rng.choice([None, 1, 2, 4]) if szx0 == 7 else None
    plen, rlen = near_boundary(rng), near_boundary(rng)
    if rng.random() < 0.3:
        plen = 0
    elif rng.random() < 0.2:
        rlen = rng.randrange(0, 20)
    # keep the number of exchanges bounded
    while plen // (16 << szx0) > 160:
        plen //= 2
    ssz = rng.randrange(8 if bert else 7)
    while rlen // (16 << min(ssz, szx0)) > 160:
        rlen //= 2
    # random walk of the server's exponent: stays, steps down, occasionally jumps up again (the
    # request's exponent caps it)
    choices = []
    top = 8 if bert else 7
    cur = min(rng.choice([6, 6, ssz, szx0]), top - 1)
    for _ in range(rng.randrange(0, 12)):
        r = rng.random()
        if r < 0.25 and cur > 0:
            cur -= rng.randrange(1, cur + 1)
        elif r < 0.3:
            cur = rng.randrange(top)
        choices.append((cur, rng.random() < 0.3))
    mis = None
    limit = None
    if rng.random() < 0.35:
        kind = rng.choice(ref.KINDS)
        if kind == "stall":
            limit = rng.randrange(0, 6)
        else:
            mis = {"kind": kind, "n": rng.choice([0, 0, 1, 2, 3, rng.randrange(0, 20)])}
            if kind in ("wrongnum1", "b1_unfrag_wrongnum", "first_nonzero"):
                mis["delta"] = rng.choice([1, 1, 2, 7, -1]) if kind == "wrongnum1" else rng.randrange(0, 3)
            if kind == "short_block":
                mis["cut"] = rng.randrange(0, 1024)
            if kind == "long_block":
                mis["extra"] = rng.choice([0, 0, 1, 15, 16])
            if kind == "first_late_final":
                mis["n"] = 0
                mis["delta"] = rng.randrange(0, 4)
            if kind == "code_change":
                mis["code"] = rng.choice([132, 132, 128, 160, 163, 67, 65, 68])
                mis["diag"] = rng.random() < 0.5
            if kind == "b2_szx_grows":
                mis["by"] = rng.choice([1, 1, 2, 3, 6])
            if kind == "etag_change":
                mis["etag"] = rng.choice(["ee", "ee", "none", "01", "c0ffee00"])
            if kind == "fail_mid_noopt":
                mis["code"] = rng.choice([136, 141, 128, 160])
                mis["diag"] = rng.randrange(0, 11)
            if kind == "ignore_block1" and rng.random() < 0.7:
                mis["code"] = rng.choice([65, 68, 69, 67, 136, 141, 160, 128])
                mis["diag"] = rng.randrange(0, 8)
            if kind == "first_above_hint":
                mis["by"] = rng.choice([1, 1, 2, 6])
            if kind == "confused":
                mis["mult"] = rng.choice([2, 2, 3, 5])
                mis.pop("n")
            if kind == "observe_continue":
                mis["oval"] = rng.choice([0, 1, 7, 1 << 23])
                if rng.random() < 0.4:
                    mis["all"] = True
    observe = rng.random() < (0.8 if mis and mis["kind"] == "observe_continue" else 0.15)
    method = rng.choice(["PUT", "POST", "FETCH", "GET"])
    if observe:
        method = "FETCH" if plen else "GET"
    # size hints preset by the application
    hint1 = hint2 = None
    if mis and mis["kind"] == "first_above_hint":
        hint2 = rng.randrange(6)
    elif rng.random() < 0.15:
        hint2 = rng.randrange(8 if szx0 == 7 else 7)
    if hint2 is not None:
        while rlen // (16 << min(hint2, ssz, szx0)) > 160:
            rlen //= 2
    if rng.random() < 0.04:
        hint1 = rng.randrange(8 if szx0 == 7 else 7)
        while plen // (16 << hint1) > 160:
            plen //= 2
    return mk(observe=observe, hint1=hint1, hint2=hint2, obs_final=rng.choice([None, None, 1, 77]),
              plen=plen, rlen=rlen, szx0=szx0, bert=bert,
              mps=rng.choice([1124, 1124, 2148, 4196, 1200, 1024]) if szx0 == 7 else
              rng.choice([1124, 1124, 1124, 1024, 1200]),
              choices=choices, default=(min(cur, ssz), rng.random() < 0.3),
              etag=rng.choice([None, "01", "c0ffee", "0102030405060708"]),
              code=rng.choice([69, 68, 65, 67, 69]), mis=mis, limit=limit,
              pseed=rng.randrange(1 << 30), rseed=rng.randrange(1 << 30),
              method=method, fresh_remote=rng.random() < 0.7)


# ------------------------------------------------------------------------------------------
def blockopt_lines(world, rng, n):
    """B: BlockwiseTuple arithmetic against the model (all exponent pairs + random numbers)"""
    from aiocoap.optiontypes import BlockOption
    T = BlockOption.BlockwiseTuple
    cases = []
    for szx in range(8):
        unit = 16 << min(szx, 6)
        for mx in range(8):
            for num in (0, 1, 2, 3, 40, 1000):
                for more in (0, 1):
                    for ps in (0, 1, unit - 1, unit, unit + 1, 2 * unit - 1, 2 * unit, 2 * unit + 1, 3 * unit, 5000):
                        cases.append((num, more, szx, mx, ps))
    for _ in range(n):
        szx = rng.randrange(8)
        unit = 16 << min(szx, 6)
        cases.append((rng.randrange(1 << 20), rng.randrange(2), szx, rng.randrange(8),
                      max(0, unit * rng.randrange(0, 4) + rng.choice([0, 0, 0, rng.randrange(-20, 20)]))))
    lines, outs = [], []
    for (num, more, szx, mx, ps) in cases:
        t = T(num, bool(more), szx)
        r = t.reduced_to(mx)
        lines.append("C05 B %d %d %d %d %d" % (num, more, szx, mx, ps))
        outs.append("%d %d %d %s" % (t.size, t.start, 1 if t.is_valid_for_payload_size(ps) else 0,
                                     sblock(tuple(r))))
    return cases, lines, outs


def run(env, rep):
    world = World(env)
    try:
        cases = [c for _, c in load_corpus("C05")]
        ncorpus = len(cases)
        cases += boundary_cases()
        nboundary = len(cases) - ncorpus
        cases += [random_case(env.rng) for _ in range(env.scale(1000, 40000))]
        rep.exhaustive_parts.append("boundary table: %d cases enumerated in full" % nboundary)

        rl, ro, rc, il, io, ic = [], [], [], [], [], []
        malformed = 0
        for case in cases:
            obs = world.run_case(case)
            kind = (case.get("mis") or {}).get("kind") or ("stall" if case.get("limit") is not None else None)
            nex = len(obs["replies"])
            rep.case(case, nontrivial=nex >= 2, sample_every=700)
            rep.count("server=" + (kind or "conforming"))
            if kind is not None:
                malformed += 1
                rep.count("misbehaviour-triggered=%s" % obs["server"].triggered)
                if obs["server"].triggered:
                    rep.count("triggered:" + kind)
            rep.count("outcome=" + (obs["outcome"][0] if obs["outcome"][0] != "err" else "err:" + obs["outcome"][1]))
            rep.count("client-szx=%d" % case["szx0"])
            if case["szx0"] == 7:
                rep.count("bert-client:server=" + ("bert-peer" if case.get("bert") else "szx0..6"))
                if any(v[0] is not None and v[0][2] == 7 for v in obs["reqs"]) and \
                        any(v[0] is not None and v[0][2] < 7 for v in obs["reqs"]):
                    rep.count("bert-upload-reduced-to-%s" % ("6" if any(v[0] is not None and v[0][2] == 6 for v in obs["reqs"]) else "below-6"))
                if any(r.block2 is not None and r.block2[2] == 7 and r.block2[1] for r in obs["replies"]):
                    rep.count("bert-download")
            if case.get("hint1") is not None and case["plen"] == 0:
                rep.count("block1-hint:empty-body")
            if case.get("hint2") is not None:
                first = next((r.block2[2] for r in obs["replies"] if r.block2 is not None and r.block2[0] == 0), None)
                rep.count("block2-hint:first-block=" + ("none" if first is None else "below" if first < case["hint2"]
                                                        else "equal" if first == case["hint2"] else "above"))
            if case.get("hint1") is not None:
                rep.count("block1-hint")
            if kind == "ignore_block1" and obs["server"].triggered:
                rep.count("no-block1-response:%s:%s->%s" % (
                    "final" if obs["server"].hit_final else "non-final",
                    "success" if is_success(obs["server"].mis.get("code", case["code"])) else "failure",
                    obs["server"].klass))
            if case.get("observe"):
                rep.count("request-with-observe:final=" + ("observable" if case.get("obs_final") is not None else "plain"))
                if any(r.observe is not None and r.code == ref.CONTINUE for r in obs["replies"]):
                    rep.count("observe-in-intermediate-2.31")
            rep.count("exchanges=" + ("0-1" if nex < 2 else "2-8" if nex <= 8 else "9-64" if nex <= 64 else "65+"))
            b1n = sum(1 for v in obs["reqs"] if v[0] is not None)
            b2n = sum(1 for v in obs["reqs"] if v[1] is not None)
            rep.count("upload=" + ("unfragmented" if b1n == 0 else "blockwise"))
            rep.count("download=" + ("single" if b2n == 0 else "blockwise"))
            szxs = [v[0][2] for v in obs["reqs"] if v[0] is not None]
            if len(set(szxs)) > 1:
                rep.count("upload-size-reduced-midway")
            szx2 = [r.block2[2] for r in obs["replies"] if r.block2 is not None]
            if len(set(szx2)) > 1:
                rep.count("download-size-reduced-midway")
            verdict, key = oracle(case, obs)
            if verdict:
                rep.oracle_fail(case, verdict, key=key)
            if case.get("mps_after") is not None:
                rep.count("limits-grow-after-first-exchange")
                continue                  # (the model's remote has constant limits)
            rl.append(r_line(case, obs)); ro.append(r_out(obs)); rc.append(case)
            if (kind is None or kind == "stall") and case.get("bert") is None:
                # (the Lean reference server's own exponents are 0..6; BERT peers are judged by the oracle and
                # compared through `runClient`)
                il.append(i_line(case, obs)); io.append(i_out(obs)); ic.append(case)
        if malformed * 2 > len(cases):
            raise HarnessError("misbehaving stream exceeds 50 % of the cases")
        compare(env, rep, rc, rl, ro, what="runClient")
        compare(env, rep, ic, il, io, what="transfer-with-RefServer")
        bc, bl, bo = blockopt_lines(world, env.rng, env.scale(2000, 20000))
        for c in bc:
            rep.case({"blockopt": c}, nontrivial=False)
        rep.count("blockopt-cases", len(bc))
        compare(env, rep, bc, bl, bo, what="BlockwiseTuple")
        # coverage gate on what the generator/reference server did (never on what the
        # implementation answered)
        for need in (["server=conforming", "upload-size-reduced-midway", "download-size-reduced-midway",
                      "upload=unfragmented", "upload=blockwise", "download=single", "download=blockwise",
                      "request-with-observe:final=observable", "request-with-observe:final=plain",
                      "observe-in-intermediate-2.31", "block2-hint:first-block=below", "block2-hint:first-block=equal",
                      "block2-hint:first-block=above", "block1-hint", "block1-hint:empty-body",
                      "client-szx=7", "bert-client:server=bert-peer", "bert-client:server=szx0..6",
                      "bert-upload-reduced-to-6", "bert-upload-reduced-to-below-6", "bert-download",
                      "no-block1-response:non-final:success->error", "no-block1-response:non-final:failure->exact",
                      "no-block1-response:final:success->exact", "no-block1-response:final:failure->exact"]
                     + ["triggered:" + k for k in ref.KINDS]):
            if not rep.hist.get(need):
                raise HarnessError("generator never produced " + need)
        run_observed_bodies(env, rep, world)
    finally:
        world.close()


def run_observed_bodies(env, rep, world):
    """block-wise bodies of notifications (harness/c05_observe.py): oracle only -- the Lean client machine has no
    observations"""
    import c05_observe as O
    import sys
    loop = asyncio.new_event_loop()
    # ClientObservation._Iterator.__del__ re-raises an error nobody fetched so that it shows up "in the finalizer
    # output" -- by design, and not the property's business
    old_hook, sys.unraisablehook = sys.unraisablehook, lambda *a: None
    try:
        for sc in O.scenarios(env.rng, env.scale(150, 3000)):
            res = loop.run_until_complete(O.run_scenario(world.aiocoap, sc))
            case = {"kind": "observed-body", "sc": sc}
            rep.case(case, nontrivial=any(s[0] > 1 for s in sc["reps"][1:]), sample_every=300)
            rep.count("observed-body:reps=%d" % len(sc["reps"]))
            for s_ in sc["reps"][1:]:
                rep.count("observed-body:server=" + (s_[2] or "conforming"))
            for x in res["seen"]:
                rep.count("observed-body:seen=" + (x[0] if x[0] != "item" else "item:%d" % x[1]))
            v, key = O.oracle(sc, res)
            if v:
                rep.oracle_fail(case, v, key=key)
    finally:
        loop.close()
        import gc
        gc.collect()
        sys.unraisablehook = old_hook


def replay(env, case):
    if case.get("kind") == "observed-body":
        import c05_observe as O
        aiocoap = env.import_repo()
        loop = asyncio.new_event_loop()
        try:
            res = loop.run_until_complete(O.run_scenario(aiocoap, case["sc"]))
        finally:
            loop.close()
        return O.oracle(case["sc"], res)[0]
    world = World(env)
    try:
        if "blockopt" in case:
            return ""
        obs = world.run_case(case)
        return oracle(case, obs)[0]
    finally:
        world.close()
