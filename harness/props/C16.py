"""C16 — CoAP URIs and Uri-* options convert into each other without loss.

Correspondence (Lean model ≈ code), every stream through the public entry points
`Message.set_request_uri`, `Message.get_request_uri`, `UndecidedRemote`, `util.hostportjoin`,
`util.hostportsplit`:
  G  option sets (scheme, host kind, port, path, query) -> Lean `getRequestUri` text vs the real
     `get_request_uri()` of a message carrying those options;
  S  the URI text *produced by Lean* (and structured denormal / defective URI texts, and
     arbitrary strings) -> Lean `setRequestUri`+`getRequestUri` vs the real
     `set_request_uri()` / `get_request_uri()`: outcome kind, remote, Uri-Host, Uri-Path,
     Uri-Query, recomposed URI; the implementation's recomposed URI is fed back once more;
  P  Lean `urlsplit` vs `urllib.parse.urlsplit` on the same texts;
  Q/U Lean `quote`/`unquote`/`utf8Valid` vs the implementation's quote closures,
     `urllib.parse.quote`, `unquote_to_bytes`, `unquote(errors="strict")`;
  J/H Lean hostportjoin/hostportsplit vs `aiocoap.util`;  N  Lean IPv6 normaliser vs `ipaddress`.
Oracle (independent reading of RFC 7252 §6.4/§6.5 and RFC 3986 §3.2.2 over what the implementation
did; own percent-decoder, own host/port splitter, own IPv4address / IP-literal recognisers, libc
`inet_pton` for address identity):
  options -> URI -> options is the identity on non-degenerate option sets and two different
  option sets never yield the same URI; an accepted URI recomposes to a pure-ASCII URI that is
  accepted again, decomposes to the same (scheme, host, port, path, query) and recomposes to
  itself; every composed URI consists of URI characters only — the authority and its bracketed
  literal included; a structurally generated URI decomposes as §6.4 says (Uri-Host omitted exactly
  for RFC 3986 IPv4address / IP-literal hosts); a URI with a listed defect — among them text next
  to a bracketed literal and a zone identifier that is not unreserved — is rejected with the
  documented error class; any string is either accepted or rejected with exactly
  MalformedUrlError / IncompleteUrlError; the three ways of handing a text to a message
  (`set_request_uri`, the constructor's `uri=`, `copy(uri=)`) agree.
Raw non-ASCII text is generated for every component on which the code (or urllib / ipaddress
below it) applies a `str` method: characters that Unicode-wide predicates and mappings
(`isdigit`, `isalpha`, `isalnum`, `isspace`/`strip`/`split`, `lower`/`upper`/`casefold`, `int()`,
NFKC) treat like the ASCII character they resemble (table `CONFUSABLE`) are put where the ASCII
character would mean something: digits of a dotted quad, of a port, of an IPv6 literal; letters of
scheme and host; dots, colons, brackets, `%`, `@`, blanks.  RFC 3986 gives none of them a meaning:
such a host is a registered name whose Uri-Host is the text with only A-Z lower-cased.
"""
import re
import socket
import unicodedata
import urllib.parse

from common import compare, load_corpus, HarnessError

RULE = ("G/S: option sets built from host kinds (lower-case names over the full Unicode range incl. "
        "IPv6 texts with hostile zone identifiers ? # ] [ @ / % LF blank non-ASCII, which are names, "
        "and Uri-Host values that do spell IP literals; IPv4; canonical IPv6 with unreserved zones), ports {none,0,1,80,443,5683,5684,65535,random}, path "
        "and query segment lists over weighted alphabets (reserved / ? & = % #, unreserved, "
        "controls, BMP, astral; empty segments; the degenerate [''] lists); S: structured URI "
        "texts with denormal features (mixed case, escapes of every kind, empty/zero-padded/"
        "out-of-range/non-numeric ports, user info, fragments, missing scheme/host, dotted quads around "
        "the dec-octet boundaries 0 00 01 9 10 099 100 255 256 0255, bracketed hosts valid and invalid, "
        "with text before/after the brackets and with hostile zone identifiers, leading controls, "
        "TAB/CR/LF; raw non-ASCII look-alikes of digits, letters, dots, colons, brackets, %, @ and blanks "
        "(table CONFUSABLE: decimal digits of other scripts, superscript/circled/fraction numerals, KELVIN SIGN, "
        "dotted I, long s, ligatures, fullwidth forms, NFKC-expanding signs, Unicode white space) substituted "
        "into scheme, quad, name, port, bracketed literal, zone, escapes: every look-alike at every slot in the "
        "boundary table, random substitutions in the structured stream) and arbitrary strings "
        "(random over a delimiter-heavy alphabet, mutations of valid URIs). Non-trivial: an option "
        "set with a reserved/non-ASCII/empty segment or non-name host; a text that is accepted "
        "and differs from its normal form, or is rejected. Distinct by full input.")
TRUSTED = ["CPython's urllib.parse and ipaddress are restated in the model (Uri/Split.lean, "
           "Uri/HostPort.lean, Uri/Ip6.lean), not verified; they are compared on every run (urlsplit's "
           "NFKC check as a table of 19 code points, Unicode 15.0)",
           "libc inet_pton as the oracle's notion of IPv6 address identity"]
ASSUMPTIONS = ["strings are Unicode text (no lone surrogates): str <-> UTF-8 is a bijection",
               "requests on the client side without Proxy-Uri/Proxy-Scheme/Uri-Path-Abbrev; "
               "set_uri_host=True, no Uri-Port option (set_request_uri never sets one; the "
               "Uri-Port branch of get_request_uri re-escapes the remote's host: "
               "audits/audit-A/C16_uriport_reescape.py)",
               "the remote of an option set is what set_request_uri / UndecidedRemote make of a URI "
               "authority (an application that builds a remote with delimiters in the zone "
               "identifier of its literal by hand gets them back verbatim)",
               "util.hostportsplit called directly with raw non-ASCII text is outside the model (urllib's "
               ".hostname lower-cases with str.lower()): oracle only (split-join round trip of names that "
               "str.lower() leaves alone); set_request_uri does not show that lower-casing any more",
               "str.lower() never turns a non-ASCII character into nothing, an ASCII digit or a dot, and the "
               "characters whose NFKC form holds / ? # @ : are those of Uri/Split.lean's table: both checked "
               "against this interpreter's unicodedata over all code points on every run"]

COAP_SCHEMES = ["coap", "coaps", "coap+tcp", "coaps+tcp", "coap+ws", "coaps+ws"]
DEFAULT_PORT = {"coap": 5683, "coaps": 5684, "coap+tcp": 5683, "coaps+tcp": 5684,
                "coap+ws": 80, "coaps+ws": 443}
UNRESERVED = "abcdefghijklmnopqrstuvwxyzABCDEFGHIJKLMNOPQRSTUVWXYZ0123456789-._~"
SUB_DELIMS = "!$&'()*+,;="
DOCUMENTED = ("MalformedUrlError", "IncompleteUrlError")
# Uri/Split.lean `nfkcDelims` (Unicode 15.0)
NFKC_DELIMS = {0x2047, 0x2048, 0x2049, 0x2100, 0x2101, 0x2105, 0x2106, 0x2A74, 0xFE13, 0xFE16, 0xFE55, 0xFE56,
               0xFE5F, 0xFE6B, 0xFF03, 0xFF0F, 0xFF1A, 0xFF1F, 0xFF20}


# ---------------------------------------------------------------------------- line protocol

def hx(b):
    if isinstance(b, str):
        b = b.encode("utf-8")
    return b.hex() if b else "-"


def hl(items):
    return ",".join(hx(i) for i in items) if items else "."


def ho(x):
    return "~" if x is None else hx(x)


def encodable(s):
    try:
        s.encode("utf-8")
        return True
    except UnicodeEncodeError:
        return False


# ---------------------------------------------------------------------------- implementation

class Impl:
    def __init__(self, aiocoap):
        self.aiocoap = aiocoap
        import aiocoap.message as message
        import aiocoap.util as util
        self.message = message
        self.util = util
        self.error = aiocoap.error

    def new(self):
        return self.aiocoap.Message(code=self.aiocoap.GET)

    def set_uri(self, text):
        """-> (kind, msg): kind in ok / proxy / err:<class name>"""
        m = self.new()
        try:
            m.set_request_uri(text)
        except Exception as e:            # the class is the observation
            return "err:" + type(e).__name__, None
        if m.opt.proxy_uri is not None:
            return "proxy", m
        return "ok", m

    def set_uri_by(self, how, text):
        """the same through the constructor's `uri=` argument / through `copy(uri=)` of a fresh message"""
        try:
            if how == "ctor":
                m = self.aiocoap.Message(code=self.aiocoap.GET, uri=text)
            else:
                m = self.new().copy(uri=text)
        except Exception as e:
            return "err:" + type(e).__name__, None
        if m.opt.proxy_uri is not None:
            return "proxy", m
        if m.remote is None or getattr(m.remote, "hostinfo", None) is None:
            return "ignored", m               # no destination, no error: the text was not looked at
        return "ok", m

    def get_uri(self, m):
        try:
            return m.get_request_uri()
        except Exception as e:
            return None

    def observe(self, m):
        return {"scheme": m.remote.scheme, "hostinfo": m.remote.hostinfo,
                "uri_host": m.opt.uri_host, "uri_port": m.opt.uri_port,
                "path": list(m.opt.uri_path), "query": list(m.opt.uri_query)}

    def outcome_line(self, text):
        """canonical string compared with the driver's `S` answer, plus observations"""
        kind, m = self.set_uri(text)
        if kind == "proxy":
            return "proxy", kind, None, None
        if kind.startswith("err:"):
            name = kind[4:]
            canon = {"MalformedUrlError": "err:malformed",
                     "IncompleteUrlError": "err:incomplete"}.get(name, "err:other:" + name)
            return canon, kind, None, None
        o = self.observe(m)
        back = self.get_uri(m)
        line = "ok %s %s %s %s %s | %s" % (hx(o["scheme"]), hx(o["hostinfo"]), ho(o["uri_host"]),
                                           hl(o["path"]), hl(o["query"]),
                                           "!" if back is None else hx(back))
        return line, kind, o, back

    def message_from_opts(self, scheme, hostinfo, uri_host, uri_port, path, query):
        m = self.new()
        m.remote = self.message.UndecidedRemote(scheme, hostinfo)
        if uri_host is not None:
            m.opt.uri_host = uri_host
        if uri_port is not None:
            m.opt.uri_port = uri_port
        m.opt.uri_path = tuple(path)
        m.opt.uri_query = tuple(query)
        return m


# ---------------------------------------------------------------------------- oracle helpers
# (nothing below uses urllib, ipaddress, aiocoap or the Lean model)

_PCT = re.compile(rb"%([0-9A-Fa-f]{2})")


def o_pct_decode(text):
    """RFC 3986 percent-decoding of a str; None if the result is not UTF-8"""
    raw = _PCT.sub(lambda mo: bytes([int(mo.group(1), 16)]), text.encode("utf-8"))
    try:
        return raw.decode("utf-8")
    except UnicodeDecodeError:
        return None


def o_split_hostinfo(hostinfo):
    """authority without userinfo -> (host without brackets, port int or None)"""
    if "@" in hostinfo:
        hostinfo = hostinfo.rsplit("@", 1)[1]
    if hostinfo.startswith("["):
        host, _, rest = hostinfo[1:].partition("]")
        port = rest[1:] if rest.startswith(":") else ""
    elif ":" in hostinfo:
        host, port = hostinfo.split(":", 1)
    else:
        host, port = hostinfo, ""
    return host, (int(port) if port else None)


_DEC_OCTET = r"(?:25[0-5]|2[0-4][0-9]|1[0-9][0-9]|[1-9][0-9]|[0-9])"      # RFC 3986 §3.2.2
_IPV4ADDRESS = re.compile(r"%s\.%s\.%s\.%s" % ((_DEC_OCTET,) * 4))


def o_is_ipv4address(host):
    """RFC 3986 IPv4address = dec-octet "." dec-octet "." dec-octet "." dec-octet"""
    return _IPV4ADDRESS.fullmatch(host) is not None


def o_zone_ok(zone):
    """RFC 6874 ZoneID without pct-encoded: unreserved characters only, at least one"""
    return zone != "" and all(c in UNRESERVED for c in zone)


def o_host_key(host):
    """identity of a host: packed IPv6 address + zone if it is an IPv6 address text (optionally in
    a pair of brackets) whose zone identifier, if any, can stand in a URI; else the text"""
    inner = host[1:-1] if host.startswith("[") and host.endswith("]") else host
    addr, pct, zone = inner.partition("%")
    if ":" in addr and (not pct or o_zone_ok(zone)):
        try:
            return ("ip6", socket.inet_pton(socket.AF_INET6, addr), zone if pct else None)
        except (OSError, ValueError):
            pass
    return ("text", host)


def o_effective(o):
    """(scheme, host identity, effective port, path, query) of an observed option state"""
    host, port = o_split_hostinfo(o["hostinfo"])
    if o["uri_host"] is not None:
        host = o["uri_host"]
    if o.get("uri_port"):
        port = o["uri_port"]
    if port is None:
        port = DEFAULT_PORT.get(o["scheme"])
    return (o["scheme"], o_host_key(host), port, tuple(o["path"]), tuple(o["query"]))


_URI_CHARS = set(UNRESERVED + SUB_DELIMS + ":/?#[]@%")


_AUTHORITY = re.compile(r"[a-z][a-z0-9+.-]*://([^/?#]*)")
_HOST_CHARS = set(UNRESERVED + SUB_DELIMS + "%")


def o_uri_shape(uri):
    """a composed URI must consist of URI characters only (RFC 3986 §2), and its authority must be
    host [":" port] with host = "[" literal "]" or reg-name characters (RFC 3986 §3.2)"""
    bad = sorted(set(uri) - _URI_CHARS)
    if bad:
        return "composed URI %r contains non-URI characters %r" % (uri, "".join(bad))
    mo = _AUTHORITY.match(uri)
    if mo is None:
        return "composed URI %r contains non-URI characters: no scheme://authority" % (uri,)
    auth = mo.group(1)
    if auth.startswith("["):
        lit, closing, rest = auth[1:].partition("]")
        ok = closing and not (set(lit) - set(UNRESERVED + SUB_DELIMS + ":%")) and \
            re.fullmatch(r"(:[0-9]*)?", rest) is not None
    else:
        host, colon, port = auth.partition(":")
        ok = not (set(host) - _HOST_CHARS) and re.fullmatch(r"[0-9]*", port) is not None
    if not ok:
        return "composed URI %r contains non-URI characters in its authority %r" % (uri, auth)
    return ""


def oracle_text(impl, text, expect=None):
    """Everything the property says about one URI text.  `expect`: for structurally generated
    texts, either ("reject", class name) or ("accept", scheme, host-or-None, port, path, query)
    computed by the generator from the components it assembled (RFC 7252 §6.4)."""
    kind, m = impl.set_uri(text)
    if kind.startswith("err:"):
        if kind[4:] not in DOCUMENTED:
            return "set_request_uri(%r) raised %s, not a documented URL error" % (text, kind[4:])
        if expect and expect[0] == "accept":
            return "set_request_uri(%r) rejected a well-formed CoAP URI (%s)" % (text, kind[4:])
        if expect and expect[0] == "reject" and expect[1] not in (None, kind[4:]):
            return "set_request_uri(%r) raised %s, expected %s" % (text, kind[4:], expect[1])
        return ""
    if expect and expect[0] == "reject":
        return "set_request_uri(%r) accepted a URI that must be rejected (%s)" % (text, expect[2])
    if kind == "proxy":
        return ""
    o1 = impl.observe(m)
    if expect and expect[0] == "accept":
        _, scheme, host, port, path, query = expect
        h_eff, p_eff = o_split_hostinfo(o1["hostinfo"])
        if o1["scheme"] != scheme:
            return "%r: scheme %r, expected %r" % (text, o1["scheme"], scheme)
        if host is not None and o1["uri_host"] != host:
            return "%r: Uri-Host %r, expected %r" % (text, o1["uri_host"], host)
        if host is None and o1["uri_host"] is not None:
            return "%r: Uri-Host %r set for an IP literal" % (text, o1["uri_host"])
        if p_eff != port:
            return "%r: port %r, expected %r" % (text, p_eff, port)
        if o1["path"] != path:
            return "%r: Uri-Path %r, expected %r" % (text, o1["path"], path)
        if o1["query"] != query:
            return "%r: Uri-Query %r, expected %r" % (text, o1["query"], query)
    try:
        u1 = m.get_request_uri()
    except Exception as e:
        return "get_request_uri() after set_request_uri(%r) raised %s" % (text, type(e).__name__)
    v = o_uri_shape(u1)
    if v:
        return "from %r: %s" % (text, v)
    kind2, m2 = impl.set_uri(u1)
    if kind2 != "ok":
        return "URI %r composed from %r is not accepted again (%s)" % (u1, text, kind2)
    o2 = impl.observe(m2)
    if o_effective(o1) != o_effective(o2):
        return ("URI %r composed from %r decomposes to different options: %r vs %r"
                % (u1, text, o_effective(o1), o_effective(o2)))
    u2 = impl.get_uri(m2)
    if u2 != u1:
        # RFC 7252 §6.5 step 4 / §6.4 step 5: a Uri-Host value that spells an IP literal (only
        # reachable through escapes, "coap://%3A%3A01/") is composed as that literal and comes back
        # as the destination address, where its text is normalised; the destination was compared
        # above, and one more round must be the fixed point.  Nothing else may move.
        if not (o1["uri_host"] is not None and o_host_key(o1["uri_host"])[0] == "ip6"):
            return "normal form %r of %r is not stable: recomposes to %r" % (u1, text, u2)
        kind3, m3 = impl.set_uri(u2) if u2 is not None else ("err:compose", None)
        u3 = impl.get_uri(m3) if kind3 == "ok" else None
        if u3 != u2 or o_effective(impl.observe(m3)) != o_effective(o2):
            return "normal form %r of %r is not stable: recomposes to %r and then %r" % (u1, text, u2, u3)
    return ""


def oracle_entry_points(impl, text):
    """`Message(uri=text)` and `copy(uri=text)` are the documented short-hands for
    `set_request_uri(text)`: same acceptance, same error class, same options"""
    kind, m = impl.set_uri(text)
    for how in ("ctor", "copy"):
        kind2, m2 = impl.set_uri_by(how, text)
        if kind2 != kind:
            return "entry points differ on %r: set_request_uri %s, %s %s" % (text, kind, how, kind2)
        if kind == "ok" and impl.observe(m) != impl.observe(m2):
            return "entry points differ on %r: set_request_uri %r, %s %r" % (
                text, impl.observe(m), how, impl.observe(m2))
        if kind == "proxy" and m.opt.proxy_uri != m2.opt.proxy_uri:
            return "entry points differ on %r: Proxy-Uri %r, %s %r" % (
                text, m.opt.proxy_uri, how, m2.opt.proxy_uri)
    # `set_uri_host=False` only says where the host goes (into the remote alone): what is a malformed or incomplete
    # URI does not depend on it, and the remote, path and query are the same
    m3 = impl.new()
    try:
        m3.set_request_uri(text, set_uri_host=False)
        kind3 = "proxy" if m3.opt.proxy_uri is not None else "ok"
    except Exception as e:
        kind3 = "err:" + type(e).__name__
    if kind3 != kind:
        return "entry points differ on %r: set_request_uri %s, with set_uri_host=False %s" % (text, kind, kind3)
    if kind == "ok":
        a, b = impl.observe(m), impl.observe(m3)
        a.pop("uri_host"); b.pop("uri_host")
        if a != b:
            return "entry points differ on %r: set_request_uri %r, with set_uri_host=False %r" % (text, a, b)
    return ""


def oracle_resource(impl, res, seen=None):
    """options -> URI -> options for one option set (dict); `seen` maps URI -> option set"""
    m = impl.message_from_opts(res["scheme"], res["hostinfo"], res["uri_host"], None,
                               res["path"], res["query"])
    try:
        u = m.get_request_uri()
    except Exception as e:
        return "get_request_uri() raised %s for options %r" % (type(e).__name__, res)
    if res["path"] == [""] or res["query"] == [""]:
        return ""                      # degenerate lists are outside this clause
    v = o_uri_shape(u)
    if v:
        return v
    kind, m2 = impl.set_uri(u)
    if kind != "ok":
        return "URI %r composed from options %r is not accepted (%s)" % (u, res, kind)
    o2 = impl.observe(m2)
    want = dict(res)
    want["uri_port"] = None
    if o_effective(want) != o_effective(o2):
        return ("options %r compose to %r which decomposes to different options %r"
                % (o_effective(want), u, o_effective(o2)))
    spells_ip = res["uri_host"] is not None and (
        o_host_key(res["uri_host"])[0] == "ip6" or o_is_ipv4address(res["uri_host"]))
    # (a Uri-Host value that spells an IP literal of RFC 3986 / RFC 6874 comes back as the remote
    # (RFC 7252 §6.4 step 5): same destination, compared above.  Anything else -- also an IPv6
    # text with delimiters in its zone identifier, or a dotted quad with leading zeros -- must come
    # back as the same Uri-Host option)
    if res["uri_host"] is not None and o2["uri_host"] != res["uri_host"] and not spells_ip:
        return "Uri-Host %r comes back as %r via %r" % (res["uri_host"], o2["uri_host"], u)
    if seen is not None:
        key = o_effective(want)
        if u in seen and seen[u] != key:
            return "distinct resources %r and %r collapse into %r" % (seen[u], key, u)
        seen[u] = key
    return ""


# ---------------------------------------------------------------------------- generators

ALPH_RESERVED = "/?&=%#:@[]+;,!$'()* "
ALPH_ODD = "\x00\x01\t\n\r\x1f\x7f\"<>\\^`{|}"
ALPH_BMP = ("åæøßЖ中文\u00a0\u2100\u212a\u0130\ufb01\ud7ff\ue000\ufffd"
            "\u0085\u2028\u3000\u0661\u0967\uff11\u00b2\u2460\uff0f\uff1f\uff03\uff06\uff1d\uff05\uff1a\u017f\u03a3e\u0301")
ALPH_ASTRAL = "\U0001f600\U00010000\U0010ffff"


def gen_segment(rng, allow_empty=True):
    k = rng.random()
    if allow_empty and k < 0.08:
        return ""
    if k < 0.14:
        return rng.choice([".", "..", "%", "%2", "%41", "%2F", "%zz", "a%", "%25", "~", "a=b",
                           "a&b", "a/b", "a?b", "a#b", "=", "&", "/", "?", "#", " ", "+"])
    n = rng.choice([1, 1, 2, 3, 5, 9])
    out = []
    for _ in range(n):
        c = rng.random()
        if c < 0.40:
            out.append(rng.choice(UNRESERVED))
        elif c < 0.65:
            out.append(rng.choice(ALPH_RESERVED))
        elif c < 0.72:
            out.append(rng.choice(ALPH_ODD))
        elif c < 0.85:
            out.append(rng.choice(ALPH_BMP))
        elif c < 0.90:
            out.append(rng.choice(ALPH_ASTRAL))
        elif c < 0.95:
            out.append(chr(rng.randrange(0x80, 0x800)))
        else:
            cp = rng.randrange(0x800, 0x110000)
            if 0xD800 <= cp <= 0xDFFF:
                cp = 0xE000
            out.append(chr(cp))
    return "".join(out)


def gen_seglist(rng):
    k = rng.random()
    if k < 0.2:
        return []
    if k < 0.24:
        return [""]                        # degenerate
    if k < 0.30:
        return ["", ""]
    return [gen_segment(rng) for _ in range(rng.choice([1, 1, 2, 3, 4]))]


def gen_name(rng, decoded=True):
    """a lower-case host name; `decoded`: any characters (as Uri-Host may carry after §6.4)"""
    k = rng.random()
    if k < 0.3:
        return rng.choice(["h", "localhost", "example.com", "a.b-c.d_e~f", "xn--nxasmq6b", "1.2.3",
                           "1.2.3.4.5", "256.1.1.1", "1..2.3", "...", "1.2.3.256", "a1.2.3.4",
                           "01.2.3.4", "1.2.3.0255", "1.02.3.4", "1.2.3.00", "0000001.2.3.4"])
    if decoded and k < 0.42:
        # IPv6 address texts whose zone identifier cannot stand in a URI: names, not addresses
        a = rng.choice(IP6_CANON)
        z = rng.choice(HOSTILE_ZONES_OPT)
        return rng.choice(["%s%%%s", "[%s%%%s]"]) % (a, z)
    n = rng.choice([1, 2, 3, 6, 12])
    out = []
    for _ in range(n):
        c = rng.random()
        if c < 0.6 or not decoded:
            out.append(rng.choice("abcdefghijklmnopqrstuvwxyz0123456789-._~"))
        elif c < 0.7:
            out.append(rng.choice(SUB_DELIMS))
        elif c < 0.85:
            out.append(rng.choice("/?#@%:[] \x00\t\x7f\"\\"))
        elif c < 0.93:
            out.append(rng.choice("åæøßж中\u00a0\U0001f600"))
        else:
            out.append(rng.choice(ALL_CONFUSABLES))      # also non-ASCII capitals: only A-Z are lower-cased
    return "".join(out)


IP6_CANON = ["::", "::1", "1::", "2001:db8::1", "fe80::1", "2001:db8:0:1:1:1:1:1",
             "1:2:3:4:5:6:7:8", "::ffff:102:304", "ff02::fd", "1:0:0:2::3", "0:1::"]
# zone identifiers that can stand in a URI (RFC 6874 ZoneID, unreserved) ...
ZONES = [None, None, "eth0", "1", "ETH0", "25eth0", "a-b.c", "z~", "0", "a_b", "wlan0.100", "~", "-"]
# ... and those that cannot: delimiters, brackets, blanks, controls, sub-delims, non-ASCII.
# (`ipaddress` takes every one of them that has no "%" or "/" in it)
HOSTILE_ZONES = ["a?b", "a#b", "a/b", "a]b", "a[b", "a@b", "a%b", "a b", "a\nb", "a\tb", "a\rb", "a\x00b",
                 "a\x7fb", "a\"b", "a<b", "a>b", "a\\b", "a^b", "a`b", "a{b", "a|b", "a}b", "a;b", "a:b",
                 "a=b", "a&b", "a+b", "a,b", "a!b", "a$b", "a'b", "a(b", "a)b", "a*b", "?", "#", "]", "[",
                 "@", " ", "\n", "a\u00e9", "\u4e2d", "\U0001f600", "eth0]", "]x", "x]:7"]
# (for Uri-Host values only: in a URI text the authority would end at the slash)
HOSTILE_ZONES_OPT = HOSTILE_ZONES + ["a]/p", "a]?q", "a]#f", "a]:7/p"]


def gen_ip4(rng):
    if rng.random() < 0.5:
        return rng.choice(["1.2.3.4", "0.0.0.0", "255.255.255.255", "127.0.0.1", "10.0.0.255"])
    return ".".join(str(rng.choice([0, 1, 9, 10, 99, 100, 199, 200, 249, 250, 255]))
                    for _ in range(4))


DEC_OCTET_EDGES = ["0", "00", "01", "9", "10", "099", "100", "199", "200", "249", "250", "255", "256",
                   "0255", "000", "260", "300", "999", "1000", "0000001", ""]


def gen_quad(rng):
    """a dotted quad around the boundaries of RFC 3986's dec-octet"""
    parts = [rng.choice(["1", "22", "133", "255", "0"]) for _ in range(4)]
    for _ in range(rng.choice([1, 1, 2])):
        parts[rng.randrange(4)] = rng.choice(DEC_OCTET_EDGES)
    return ".".join(parts)


def gen_port(rng):
    return rng.choice([None, None, None, 0, 1, 80, 443, 5683, 5684, 5685, 65535,
                       rng.randrange(65536)])


def o_join(host, port):
    """authority text of a host and port (oracle's own, RFC 3986 §3.2)"""
    if ":" in host:
        host = "[" + host + "]"
    return host if port is None else "%s:%d" % (host, port)


def o_port_text(hostport):
    """the text after the colon that follows the host of a well-shaped `host[:port]` / `[literal][:port]`
    (None for anything else: user info, stray or unbalanced brackets)"""
    mo = re.fullmatch(r"(?:\[[^\[\]@]*\]|[^\[\]@:]*)(?::([^\[\]@]*))?", hostport)
    return mo.group(1) if mo else None


def o_reg_name(host):
    """percent-encode everything but unreserved / sub-delims (RFC 3986 reg-name)"""
    keep = set((UNRESERVED + SUB_DELIMS).encode())
    return "".join(chr(b) if b in keep else "%%%02X" % b for b in host.encode("utf-8"))


def gen_resource(rng):
    scheme = rng.choice(COAP_SCHEMES)
    port = gen_port(rng)
    k = rng.random()
    if k < 0.6:
        name = gen_name(rng)
        hostinfo = o_join(o_reg_name(name), port) if ":" not in o_reg_name(name) else None
        host_kind, uri_host = "name", name
        if hostinfo is None:               # cannot happen: reg-name encoding escapes ':'
            raise HarnessError("reg-name with ':'")
    elif k < 0.8:
        t = gen_ip4(rng)
        host_kind, uri_host, hostinfo = "ip4", None, o_join(t, port)
    else:
        t = rng.choice(IP6_CANON)
        z = rng.choice(ZONES)
        if z is not None:
            t = t + "%" + z
        host_kind, uri_host, hostinfo = "ip6", None, o_join(t, port)
    return {"kind": "R", "host_kind": host_kind, "scheme": scheme, "hostinfo": hostinfo,
            "uri_host": uri_host, "path": gen_seglist(rng), "query": gen_seglist(rng)}


RES_BOUNDARY_SEGS = ([[c] for c in "/?&=%#:@+ ~"] + [["%41"], ["%2F"], ["%"], ["a%zz"], [""], ["", ""],
                     ["", "a"], ["a", ""], [".", ".."], ["å"], ["\U0001f600"], ["\x00"], ["\x7f"],
                     ["\u0080"], ["\u07ff"], ["\u0800"], ["\uffff"], ["\U00010000"],
                     ["\U0010ffff"], ["a/b", "c"], ["a", "b/c"], ["a&b"], ["a", "b"]])


def boundary_resources():
    out = []
    for segs in RES_BOUNDARY_SEGS:
        for where in ("path", "query"):
            r = {"kind": "R", "host_kind": "name", "scheme": "coap", "hostinfo": "h",
                 "uri_host": "h", "path": [], "query": []}
            r[where] = list(segs)
            out.append(r)
    for scheme in COAP_SCHEMES:
        for port in (None, 0, 1, 80, 443, 5683, 5684, 65535):
            for host_kind, uh, txt in (("name", "h", "h"), ("ip4", None, "1.2.3.4"),
                                       ("ip6", None, "2001:db8::1"), ("ip6", None, "fe80::1%eth0")):
                out.append({"kind": "R", "host_kind": host_kind, "scheme": scheme,
                            "hostinfo": o_join(txt, port), "uri_host": uh,
                            "path": ["p"], "query": ["q"]})
    for name in ["a/b", "a?b", "a#b", "a@b", "a%41", "a%", "a:b", "[a", "a]", "a b", "a\x00b", "a\tb",
                 "é", "a.b", "~", "a!$&'()*+,;=b", "::x", "[::x]", "1.2.3.256", "1..2.3",
                 "[::1", "::1]", "[::1]]", "[[::1]", "[fe80::1%eth0",
                 "01.2.3.4", "1.2.3.0255", "0000001.2.3.4", "1.2.3.00", "1.2.3.099", "1.2.3.256",
                 "\u0661.\u0662.\u0663.\u0664", "1.2.3.\u0664", "\uff11.2.3.4", "1.2.3.\u00b2", "\u2460.2.3.4",
                 "\u212a", "\u212a.example", "\u0130", "\u00df", "\ufb01", "a\u00a0b", "\u2100", "a\uff1ab", "a\uff0fb",
                 "\uff3b::1\uff3d", "::\u0661", "fe80::1%eth\u0660", "e\u0301", "\u00e9", "\u03a3\u0391\u03a3", "\u00c4",
                 "h\uff0e", "\u2028", "\U00010400"] + \
            ["fe80::1%" + z for z in HOSTILE_ZONES_OPT] + ["[::1%" + z + "]" for z in HOSTILE_ZONES_OPT]:
        out.append({"kind": "R", "host_kind": "name", "scheme": "coap",
                    "hostinfo": o_join(o_reg_name(name), 7), "uri_host": name,
                    "path": ["x"], "query": []})
    # Uri-Host values that do spell an IP literal (RFC 7252 §6.5 step 4: composed as that literal;
    # the same destination comes back as the remote)
    for name in ["::1", "[::1]", "fe80::1%eth0", "[fe80::1%eth0]", "FE80::1%ETH0", "::01", "::1%0",
                 "fe80::1%a-b.c_d~e", "1.2.3.4", "0.0.0.0", "255.255.255.255", "::ffff:1.2.3.4"]:
        out.append({"kind": "R", "host_kind": "iptext", "scheme": "coap", "hostinfo": "h:7",
                    "uri_host": name, "path": ["x"], "query": []})
    for z in ZONES:
        if z is not None:
            out.append({"kind": "R", "host_kind": "ip6", "scheme": "coap",
                        "hostinfo": o_join("fe80::1%" + z, 7), "uri_host": None,
                        "path": ["x"], "query": []})
    return out


# --- raw non-ASCII look-alikes -----------------------------------------------------------------
# Characters that a Unicode-wide `str` method treats like an ASCII character with a meaning in a
# URI.  RFC 3986 knows ASCII only: in a host every one of them is part of a registered name (and
# stays as it is: §6.4 lower-cases A-Z), anywhere else it is data or makes the text no URI.

def _digit_family(base):
    return [chr(base + d) for d in range(10)]


# str.isdigit() / isdecimal() / int() accept these as the digit in the key ...
DECIMAL_FAMILIES = {"arabic-indic": 0x0660, "ext-arabic": 0x06F0, "devanagari": 0x0966, "thai": 0x0E50,
                    "fullwidth": 0xFF10, "math-bold": 0x1D7CE, "adlam": 0x1E950}
CONFUSABLE = {str(d): [chr(b + d) for b in DECIMAL_FAMILIES.values()] for d in range(10)}
# ... and these satisfy isdigit() or isnumeric() although int() refuses them
for _d, _chars in {"0": "\u2070\u2080\u24ea\u3007", "1": "\u00b9\u2081\u2460\u2776\u2160\u4e00", "2": "\u00b2\u2082\u2461\u00bd",
                   "3": "\u00b3\u2083\u2462", "4": "\u2074\u2084\u2463\u56db", "5": "\u2075\u2464\u2164", "9": "\u2079\u2468"}.items():
    CONFUSABLE[_d] += list(_chars)
# letters: str.lower() / casefold() / NFKC map them to (or from) ASCII letters, or change their length
CONFUSABLE.update({
    "k": ["\u212a"], "K": ["\u212a"], "a": ["\uff41", "\u24d0", "\u00aa"], "A": ["\uff21", "\u24b6", "\u212b", "\u00c5"],
    "i": ["\u0130", "\u0131", "\u2170"], "I": ["\u0130", "\u2160"], "s": ["\u017f", "\u00df", "\u1e9e"], "S": ["\u1e9e", "\u03a3"],
    "f": ["\ufb01", "\ufb00"], "c": ["\uff43", "\u2102", "\u0441"], "o": ["\uff4f", "\u03bf", "\u2134"], "p": ["\uff50", "\u2119", "\u0440"],
    "e": ["\uff45", "\u212f", "\u00e9", "e\u0301"], "h": ["\uff48", "\u210e"], "t": ["\uff54"], "w": ["\uff57", "\u02b7"],
    "d": ["\u01c4", "\u01c5", "\u2146"], "x": ["\u00d7", "\uff58", "\u2179"], "m": ["\u2133", "\uff4d"], "l": ["\u2113", "\uff4c"],
    "Z": ["\U00010400", "\u13a0", "\u1c90", "\u0416"],
    # structure: NFKC turns them into the ASCII character (or a text holding it)
    ".": ["\uff0e", "\u3002", "\u2024", "\uff61", "\u0701"], ":": ["\uff1a", "\ufe55", "\ufe13", "\u2a74", "\u02d0", "\ua789"],
    "/": ["\uff0f", "\u2100", "\u2105", "\u2044", "\u2215"], "?": ["\uff1f", "\ufe56", "\u2047", "\u2049"], "#": ["\uff03", "\ufe5f"],
    "@": ["\uff20", "\ufe6b"], "[": ["\uff3b", "\u301a"], "]": ["\uff3d", "\u301b"], "%": ["\uff05", "\ufe6a", "\u066a"],
    "+": ["\uff0b", "\u207a"], "-": ["\uff0d", "\u2010", "\u2212", "\u00ad"], "&": ["\uff06", "\ufe60"], "=": ["\uff1d", "\u207c"],
    # white space for str.strip() / split() / isspace() (and format characters that are not)
    " ": ["\u0085", "\u00a0", "\u1680", "\u2000", "\u2003", "\u2009", "\u200a", "\u2028", "\u2029", "\u202f", "\u205f", "\u3000",
          "\u001c", "\u001f", "\u200b", "\ufeff", "\u180e"],
})
ALL_CONFUSABLES = sorted({c for v in CONFUSABLE.values() for c in v})
UNI_DIGITS = sorted({c for d in "0123456789" for c in CONFUSABLE[d]})
UNI_SPACES = CONFUSABLE[" "]


def confuse(rng, text, n=1, keep=""):
    """`text` with up to `n` of its characters that have look-alikes replaced by one of them"""
    idx = [i for i, c in enumerate(text) if c in CONFUSABLE and c not in keep]
    out = list(text)
    for i in rng.sample(idx, min(n, len(idx))):
        out[i] = rng.choice(CONFUSABLE[out[i]])
    return "".join(out)


def o_ascii_lower(text):
    return "".join(chr(ord(c) + 32) if "A" <= c <= "Z" else c for c in text)


def nfkc_hits_delimiter(text):
    """urllib refuses an authority whose NFKC form holds a delimiter the text did not have; the property
    allows a text to be accepted or rejected with a documented error, so nothing is expected there"""
    return any(c in unicodedata.normalize("NFKC", ch) for ch in text if ord(ch) > 127 for c in "/?#@:")


def name_expectation(host_txt, port=None, path=(), query=()):
    """what §6.4 makes of `coap://<host_txt>…` when host_txt is a registered name"""
    if nfkc_hits_delimiter(host_txt):
        return None
    dec = o_pct_decode(host_txt)
    if dec is None:
        return ("reject", "MalformedUrlError", "non-UTF-8 escape in host")
    return ("accept", "coap", o_ascii_lower(dec), port, list(path), list(query))


def boundary_confusables():
    """every look-alike at every slot where its ASCII original means something"""
    out = []
    rej = lambda why: ("reject", "MalformedUrlError", why)
    quad = ["1", "2", "3", "4"]
    for ch in UNI_DIGITS + ["\u00bd", "\u2163", "\u56db", "\u0bf0", "\u0f33"]:
        # one digit of a dotted quad, alone / next to ASCII digits / all four parts
        for pos in range(4):
            for part in (ch, "1" + ch, ch + "0"):
                parts = list(quad)
                parts[pos] = part
                h = ".".join(parts)
                out.append(("coap://%s/" % h, name_expectation(h)))
        h = ".".join([ch] * 4)
        out.append(("coap://%s:61616/a?b" % h, name_expectation(h, 61616, ["a"], ["b"])))
        # the port, an IPv6 literal, the IPv4 tail of one, a zone identifier
        for port_txt in (ch, "568" + ch, ch + "683"):
            out.append(("coap://h:%s/" % port_txt, rej("port not a number in 0..65535")))
            out.append(("coap://[::1]:%s/" % port_txt, rej("port not a number in 0..65535")))
        for lit in ("::%s", "2001:db8::%s", "::ffff:1.2.3.%s", "%s::1", "fe80::1%%eth%s"):
            out.append(("coap://[%s]/" % (lit % ch), rej("invalid IP literal / zone")))
    for fam, base in DECIMAL_FAMILIES.items():
        d = _digit_family(base)
        for h in ("%s.%s.%s.%s" % (d[1], d[2], d[3], d[4]), "%s%s.%s.%s.%s" % (d[1], d[0], d[0], d[0], d[1]),
                  "%s%s%s.%s.%s.%s" % (d[2], d[5], d[5], d[0], d[0], d[0]), "10.0.0." + d[1], d[1] + "0.0.0.1",
                  "192.168." + d[1] + ".1"):
            out.append(("coap://%s/" % h, name_expectation(h)))
            e = name_expectation(h, 5684, ["x"])
            out.append(("coaps://%s:5684/x" % h, e and ("accept", "coaps") + e[2:]))
    # letters: the host keeps them (only A-Z are lower-cased), raw or escaped, alone or among ASCII
    for asc, chars in CONFUSABLE.items():
        for ch in chars:
            if asc.isalnum() or asc in ".-+&=%":
                for h in (ch, "a" + ch + "b", "EX" + ch + ".Example", ch + "%41", "%e2%84%aa" + ch):
                    out.append(("coap://%s/" % h, name_expectation(h)))
                    out.append(("coap://%s:7/x" % h, name_expectation(h, 7, ["x"])))
                esc_ch = "".join("%%%02X" % b for b in ch.encode("utf-8"))
                out.append(("coap://A%sZ/" % esc_ch, name_expectation("A%sZ" % esc_ch)))
                # the same character in path and query: kept as it is
                out.append(("coap://h/%s/x%s?%s=%s" % (ch, ch, ch, ch),
                            ("accept", "coap", "h", None, [ch, "x" + ch], ["%s=%s" % (ch, ch)])))
            if asc.isalpha():
                # a scheme is ASCII letters: with a look-alike there is none (or another one)
                for t in ("%soap://h/" % ch, "c%sap://h/" % ch, "coap%s://h/" % ch, "coap+%scp://h/" % ch):
                    out.append((t, ("reject", None, "no (CoAP) scheme")))
            if asc in ":@[]/?#":
                # structure look-alikes in the authority: no expectation on acceptance (NFKC check), but
                # they never act as the delimiter
                for t in ("coap://h%s7/" % ch, "coap://u%sh/" % ch, "coap://%s::1]/" % ch, "coap://[::1%s/" % ch,
                          "coap://h%sp" % ch, "coap://[::1%s:7/" % ch, "coap://[fe80::1%%25eth0%s/" % ch):
                    out.append((t, None))
                out.append(("coap://h/a%sb?c%sd" % (ch, ch), ("accept", "coap", "h", None, ["a%sb" % ch], ["c%sd" % ch])))
            if asc == " ":
                # Unicode white space is not stripped: in front there is no scheme, inside it is data
                out.append((ch + "coap://h/", ("reject", None, "no scheme") if ord(ch) > 32 else None))
                out.append(("coap://h/" + ch, ("accept", "coap", "h", None, [ch], [])))
                out.append(("coap://h/a?" + ch + "b" + ch, ("accept", "coap", "h", None, ["a"], [ch + "b" + ch])))
                out.append(("coap://h" + ch + "/", name_expectation("h" + ch)))
                out.append(("coap://" + ch + "h/", name_expectation(ch + "h")))
                for port_txt in (ch + "1", "1" + ch, ch):
                    out.append(("coap://h:%s/" % port_txt, rej("port not a number in 0..65535")))
                out.append(("coap://[::1" + ch + "]/", rej("invalid IP literal")))
                out.append(("coap://[" + ch + "::1]/", rej("invalid IP literal")))
    # characters whose lower-/upper-/case-folded or NFKC form has another length or is ASCII
    for h in ["\u0130", "\u0130stanbul", "\u03a3\u0391\u03a3", "\u00df", "stra\u00dfe", "\ufb01sh", "\u212a.example",
              "\u212b", "\u00c4", "%C3%84", "%E2%84%AA.example", "\u1e9e", "\u01c5", "\u2126", "\U00010400", "e\u0301", "\u00e9",
              "\u1100\u1161", "\uac00", "\u2460", "\u3392", "\ufdfa", "xn--\u00e9", "\u0587"]:
        out.append(("coap://%s/p" % h, name_expectation(h, None, ["p"])))
        out.append(("COAP://%s:5683/" % h.upper(), name_expectation(h.upper(), 5683)))
    return out


# --- structured URI texts -------------------------------------------------------------------

def rand_case(rng, s):
    return "".join(c.upper() if rng.random() < 0.4 else c for c in s)


def esc(rng, ch):
    h = "%%%02X" % ord(ch) if ord(ch) < 128 else "".join("%%%02X" % b for b in ch.encode())
    return h.lower() if rng.random() < 0.3 else h


def gen_raw_segment(rng, delims):
    """raw text of one path/query segment (no raw delimiter of its own level) and nothing else;
    the oracle decodes it with its own decoder"""
    k = rng.random()
    if k < 0.1:
        return ""
    if k < 0.2:
        return rng.choice(["%", "%2", "%zz", "a%", "%4g", "%%41", "%25", "%2F", "%2f", "%3F", "%26",
                           "%23", "%00", "%7E", "%41", "%C3%A5", "%c3%a5", ".", "..", "a=b", "a;b"])
    if k < 0.27:                           # not UTF-8
        return rng.choice(["%ff", "%C3", "%C3%28", "%E0%80%80", "%ED%A0%80", "%F4%90%80%80",
                           "%80", "a%C3b", "%C0%AF", "%F8%88%80%80%80"])
    out = []
    for _ in range(rng.choice([1, 2, 3, 6])):
        c = rng.random()
        if c < 0.5:
            out.append(rng.choice(UNRESERVED))
        elif c < 0.65:
            out.append(rng.choice([x for x in SUB_DELIMS + ":@/?" if x not in delims]))
        elif c < 0.8:
            out.append(esc(rng, rng.choice("/?&=%#:@[] aZ~\x00\x7f" + ALPH_BMP[:6] + ALPH_ASTRAL[:1])))
        elif c < 0.9:
            out.append(rng.choice(ALPH_BMP + ALPH_ASTRAL))
        else:
            out.append(rng.choice(" \"<>\\^`{|}[]"))
    return "".join(out)


IP6_FORMS = ["::1", "::", "2001:DB8::1", "2001:db8:0:0:0:0:0:1", "0:0:0:0:0:0:0:1", "::0001",
             "fe80::1", "1:2:3:4:5:6:7:8", "::ffff:1.2.3.4", "64:ff9b::192.0.2.33", "1::2:0:0:3",
             "0:0:1::", "1:0:0:2:0:0:0:3", "FF02::FD"]
IP6_BAD = [":::", "1::2::3", "12345::", "g::1", "1:2:3:4:5:6:7", "1:2:3:4:5:6:7:8:9", "::1.2.3",
           "::01.2.3.4", "::256.1.1.1", ":1::", "1::2:", "", "1.2.3.4", "v1.fe", "v1.", "vg.x", "v.x",
           "V1.fe", "::1%", "::1%a%b", "a", "1::/64"]


def gen_structured_text(rng):
    """-> (text, expect) where expect is what RFC 7252 §6.4 + the property's rejection list say"""
    defects = []
    scheme = rng.choice(COAP_SCHEMES)
    scheme_txt = rand_case(rng, scheme)
    # host
    k = rng.random()
    uri_host = None
    host_ok = True
    unmodelled = False
    if k < 0.55:
        parts = []
        for _ in range(rng.choice([1, 1, 2, 4, 8])):
            c = rng.random()
            if c < 0.7:
                parts.append(rng.choice(UNRESERVED))
            elif c < 0.8:
                parts.append(rng.choice(SUB_DELIMS))
            elif c < 0.95:
                parts.append(esc(rng, rng.choice("aZ/?#@%:[] ~\x00é中")))
            else:
                parts.append(rng.choice(["%ff", "%C3", "%", "%4", "%zz"]))
        host_txt = "".join(parts)
        if rng.random() < 0.08:
            # a registered name whose decoded value looks like an IP literal, with or without a
            # zone identifier that could stand in a URI
            a = rng.choice(IP6_CANON + IP6_FORMS[:6] + ["1.2.3.4", "01.2.3.4"])
            if ":" in a and rng.random() < 0.6:
                a += "%" + rng.choice(HOSTILE_ZONES + [z for z in ZONES if z])
            if rng.random() < 0.3:
                a = "[" + a + "]"
            host_txt = "".join(ch if ch in UNRESERVED and (ch != "1" or rng.random() < 0.7)
                               else esc(rng, ch) for ch in a)
            if o_is_ipv4address(host_txt):
                host_txt = "%3" + host_txt[0] + host_txt[1:]
        if rng.random() < 0.12:
            host_txt = confuse(rng, host_txt, rng.choice([1, 1, 2, 4]))
        elif rng.random() < 0.04:
            host_txt += rng.choice(ALL_CONFUSABLES)
        if nfkc_hits_delimiter(host_txt):
            unmodelled = True
        dec = o_pct_decode(host_txt)
        if dec is None:
            defects.append(("MalformedUrlError", "non-UTF-8 escape in host"))
        else:
            uri_host = o_ascii_lower(dec)
    elif k < 0.7:
        host_txt = rng.choice(["1.2.3.4", "255.255.255.255", "0.0.0.0", "256.1.1.1", "1.2.3",
                               "1.2.3.4.5", "1..2.3", "...", "01.2.3.4", "1.2.3.0255", "1.2.3.1000",
                               "1.2.3.4x", "1.2.3.%34", "999999999999.1.1.1", "0000001.2.3.4",
                               gen_ip4(rng), gen_quad(rng), gen_quad(rng)])
        if rng.random() < 0.25:
            # digits, dots of other scripts and shapes: never an IPv4address
            host_txt = confuse(rng, host_txt, rng.choice([1, 1, 2, 7]), keep="%")
            if nfkc_hits_delimiter(host_txt):
                unmodelled = True
        # RFC 7252 §6.4 step 5: no Uri-Host only for an IPv4address of RFC 3986 (dec-octets)
        if o_is_ipv4address(host_txt):
            uri_host = None
        else:
            dec = o_pct_decode(host_txt)
            uri_host = o_ascii_lower(dec)
    elif k < 0.93:
        good = rng.random() < 0.7
        inner = rng.choice(IP6_FORMS) if good else rng.choice(IP6_BAD)
        k2 = rng.random()
        if good and k2 < 0.4:
            inner += "%" + rng.choice([z for z in ZONES if z])
        elif good and k2 < 0.55:
            # (with "/", "?", "#" the authority ends inside the brackets; "@" makes user info;
            # TAB/CR/LF are dropped by the URI splitter before anything else looks: no expectation)
            z = rng.choice(HOSTILE_ZONES)
            inner += "%" + z
            if any(c in z for c in "\t\r\n"):
                unmodelled = True
            defects.append(("MalformedUrlError", "zone identifier %r cannot stand in a URI" % z))
        if rng.random() < 0.12:
            inner2 = confuse(rng, inner, rng.choice([1, 1, 2]), keep="%")
            if inner2 != inner:
                inner = inner2
                defects.append(("MalformedUrlError", "look-alike character in the IP literal"))
        host_txt = "[" + inner + "]"
        if not good:
            defects.append(("MalformedUrlError", "invalid IP literal"))
        k3 = rng.random()
        if k3 < 0.08:
            host_txt = rng.choice(["a", "evil.example", "1.2.3.4", "[", "]", "x:", "[::2]", "%41"]) + host_txt
            defects.append(("MalformedUrlError", "text before the bracketed literal"))
        elif k3 < 0.16:
            host_txt = host_txt + rng.choice(["a", "evil.example", "x:7", "]", "[", "[::2]", "%41", ".", "-"])
            defects.append(("MalformedUrlError", "text after the bracketed literal"))
    else:
        host_txt = ""
        defects.append(("MalformedUrlError", "no host"))
    # port
    k = rng.random()
    port = None
    if k < 0.4:
        port_txt = ""
    elif k < 0.8:
        port = rng.choice([0, 1, 80, 5683, 5684, 65535, rng.randrange(65536)])
        port_txt = ":" + ("0" * rng.choice([0, 0, 0, 1, 3])) + str(port)
        if rng.random() < 0.06:
            port_txt = ":" + rng.choice([confuse(rng, port_txt[1:], rng.choice([1, 1, 5])),
                                         rng.choice(UNI_SPACES) + port_txt[1:], port_txt[1:] + rng.choice(UNI_SPACES)])
            defects.append(("MalformedUrlError", "port not a number in 0..65535"))
    elif k < 0.86:
        port_txt = ":"
    else:
        port_txt = ":" + rng.choice(["abc", "-1", "+1", "65536", "99999999999", "1 ", " 1", "8a", "1:2",
                                     "\u0663", "1_0", "0x10"])
        defects.append(("MalformedUrlError", "port not a number in 0..65535"))
    # user info
    k = rng.random()
    ui_txt = ""
    if k < 0.06:
        ui_txt = rng.choice(["u@", "u:p@", ":p@", "u:@", "a@b@"])
        defects.append(("MalformedUrlError", "user info"))
    elif k < 0.09:
        ui_txt = rng.choice(["@", ":@"])      # empty user info is user info
        defects.append(("MalformedUrlError", "user info"))
    # path
    k = rng.random()
    path = []
    if k < 0.15:
        path_txt = ""
    elif k < 0.3:
        path_txt = "/"
    else:
        raws = [gen_raw_segment(rng, "/?#") for _ in range(rng.choice([1, 1, 2, 3, 5]))]
        path_txt = "/" + "/".join(raws)
        if path_txt == "/":
            path = []
        else:
            for r in raws:
                d = o_pct_decode(r)
                if d is None:
                    defects.append(("MalformedUrlError", "non-UTF-8 escape in path"))
                    break
                path.append(d)
    # query
    k = rng.random()
    query = []
    if k < 0.4:
        query_txt = ""
    elif k < 0.5:
        query_txt = "?"
    else:
        raws = [gen_raw_segment(rng, "&#") for _ in range(rng.choice([1, 1, 2, 3]))]
        query_txt = "?" + "&".join(raws)
        if query_txt != "?":
            for r in raws:
                d = o_pct_decode(r)
                if d is None:
                    defects.append(("MalformedUrlError", "non-UTF-8 escape in query"))
                    break
                query.append(d)
    # fragment
    k = rng.random()
    frag_txt = ""
    if k < 0.06:
        frag_txt = "#" + rng.choice(["f", "frag/x?y", "%41"])
        defects.append(("MalformedUrlError", "fragment"))
    elif k < 0.09:
        frag_txt = "#"                     # the empty fragment identifier is one (RFC 3986 §3.5)
        defects.append(("MalformedUrlError", "fragment"))
    # scheme defects
    k = rng.random()
    prefix = scheme_txt + "://"
    scheme_confused = False
    if k < 0.05:
        prefix = "//"
        defects = [d for d in defects if d[1] == "fragment"]
        # (an invalid bracketed host already fails in the URI splitter: either class; so does an authority
        # that fails its NFKC check)
        cls = None if "[" in host_txt or "]" in host_txt or nfkc_hits_delimiter(host_txt + port_txt) \
            else "IncompleteUrlError"
        defects.append((cls, "no scheme") if not frag_txt
                       else ("MalformedUrlError", "fragment"))
        defects = defects[-1:]
    elif k < 0.08:
        prefix = scheme_txt + ":"
        defects = [("MalformedUrlError", "no host")] if not frag_txt else \
            [("MalformedUrlError", "fragment")]
    elif k < 0.11:
        c2 = confuse(rng, scheme_txt, rng.choice([1, 1, 2]), keep="+")
        if c2 != scheme_txt:
            prefix = c2 + "://"
            scheme_confused = True
    text = prefix + ui_txt + host_txt + port_txt + path_txt + query_txt + frag_txt
    if not prefix.endswith("//") and (ui_txt + host_txt + port_txt + path_txt).startswith("//"):
        unmodelled = True                  # the path's empty first segment is read as "//authority"
        prefix = prefix + "//"
    lead_uni = False
    k = rng.random()
    if k < 0.04:
        text = rng.choice([" ", "\x00 ", "\x1f"]) + text
    elif k < 0.055:
        # Unicode white space / format characters are not stripped (urlsplit strips C0 and space only)
        text = rng.choice([c for c in UNI_SPACES if ord(c) > 32]) + text
        lead_uni = True
    if any(ord(c) < 0x21 for c in text):
        unmodelled = True                  # sanitising: no structural expectation
    if scheme_confused or lead_uni:
        # a scheme is ASCII (RFC 3986 §3.1): this text has none, or it is not a URI at all
        expect = ("reject", None, "look-alike character in / non-ASCII character ahead of the scheme")
    elif prefix in ("//",) or prefix.endswith(":") and not prefix.endswith("//"):
        expect = ("reject", defects[0][0], defects[0][1])
    elif unmodelled:
        expect = None
    elif defects:
        classes = {d[0] for d in defects}
        expect = ("reject", classes.pop(), "; ".join(d[1] for d in defects)) if len(classes) == 1 else None
    else:
        expect = ("accept", scheme, uri_host, port, path, query)
    return text, expect


ARB_ALPHABET = (":/?#[]@%&=+.-~ \t\n" + "coapstcws" + "0123456789" + "AZaz" + "é中\U0001f600" + "\x00\x7f%%%::://"
                + "\u0661\u0664\uff11\u00b2\uff1a\uff0f\uff0e\u2100\u212a\u0130\u00a0\u2028\uff3b\uff3d\uff20\uff03\uff05")
VALID_SEEDS = ["coap://h/", "coap://example.com:5683/a/b?c=d&e", "coaps://[2001:db8::1]:5684/x",
               "coap+tcp://1.2.3.4/%C3%A5?%26", "coap://[fe80::1%25eth0]/", "coaps+ws://h.example/.well-known/core?rt=x",
               "http://example.com/x", "urn:x:y", "coap://h:1/a//b/?&"]


def gen_arbitrary(rng):
    if rng.random() < 0.5:
        return "".join(rng.choice(ARB_ALPHABET) for _ in range(rng.choice([0, 1, 2, 5, 9, 14, 22, 30])))
    s = list(rng.choice(VALID_SEEDS))
    for _ in range(rng.choice([1, 1, 2, 3])):
        op = rng.randrange(3)
        pos = rng.randrange(len(s) + 1)
        if op == 0 and s:
            del s[min(pos, len(s) - 1)]
        elif op == 1:
            s.insert(pos, rng.choice(ARB_ALPHABET))
        elif s:
            s[min(pos, len(s) - 1)] = rng.choice(ARB_ALPHABET)
    return "".join(s)


BOUNDARY_TEXTS = [
    # the confirmed defects (also in the corpus) and their neighbours
    "coap://[::1]:abc/", "coap://[v1.fe]/", "coap://1..2.3/", "coap://.../", "coap://1.2.3./",
    "coap://a%2Fb/x", "coap://a/b/x", "coap://a%2541/", "coap://a%41/", "coap://%00/", "coap://a%20b/",
    "coap://a%3Ab/", "coap://%3A%3A1/", "coap://%5B%3A%3A1%5D/", "coap://%31.2.3.4/",
    # ports
    "coap://h:0/", "coap://h:/", "coap://h:00080/", "coap://h:65535/", "coap://h:65536/",
    "coap://h:5683/", "coaps://h:5683/", "coaps://h:5684/", "coap+ws://h:80/", "coaps+ws://h:443/",
    "coap://1.2.3.4:/", "coap://[::1]:/", "coap://[::1]:5683/", "coap://h:+1/", "coap://h:1:2/",
    # IPv4-looking
    "coap://1.2.3.4/", "coap://255.255.255.255/", "coap://256.1.1.1/", "coap://1.2.3.255/",
    "coap://1.2.3.256/", "coap://1.2.3.0255/", "coap://1.2.3.1000/", "coap://01.2.3.4/",
    "coap://1.2.3/", "coap://1.2.3.4.5/", "coap://1.2.3.4x/",
    "coap://1.2.3." + "9" * 5000 + "/", "coap://1.2.3." + "0" * 5000 + "7/",
    # IPv6
    "coap://[::1]/", "coap://[FE80::1%ETH0]:5683/a", "coap://[::ffff:1.2.3.4]/", "coap://[1.2.3.4]/",
    "coap://[::1/", "coap://::1]/", "coap://::1/", "coap://[]/", "coap://[::1]x/", "coap://[::1]x:7/",
    "coap://a[::1]/", "coap://@[::1]/", "coap://[::1%25eth0]/", "coap://[::1%]/", "coap://[:::]/",
    # degenerate path / query
    "coap://h", "coap://h/", "coap://h//", "coap://h///", "coap://h?", "coap://h/?", "coap://h?a",
    "coap://h/?&", "coap://h/?a&", "coap://h/?=", "coap://h/a?b#", "coap://h/a#f", "coap://h/#",
    # escapes
    "coap://h/%", "coap://h/%2", "coap://h/%zz", "coap://h/%41", "coap://h/%7e", "coap://h/%2F",
    "coap://h/%2f%3f%26%23", "coap://h/?%26%3D%23%2F%3F", "coap://h/%ff", "coap://h/%C3%A5",
    "coap://h/%C3", "coap://h/%ED%A0%80", "coap://h/%F4%8F%BF%BF", "coap://h/%F4%90%80%80",
    "coap://h/%E0%9F%BF", "coap://h/%E0%A0%80", "coap://h/%C2%80", "coap://h/%C1%BF", "coap://h/%7F",
    "coap://h/å%C3%A5", "coap://h/%C3å", "coap://%ff/", "coap://%C3%A9/", "coap://h/?%ff",
    # scheme / authority shapes
    "", ":", "/", "//", "//h/x", "/hello", "h", "coap:", "coap:/", "coap://", "coap:///x", "coap:x",
    "coap:like:urn", "COAP://H/", "CoAp://HoStNaMe/", "c\u00f6ap://h/", "1coap://h/", "coap+x://h/",
    "http://example.com/test", "urn:uuid:6e8bc430-9c3a-11d9-9669-0800200c9a66",
    "coap://u@h/", "coap://u:p@h/", "coap://@h/", "coap://:@h/", "coap://:p@h/", "coap://a@b@h/",
    "coap://EXAMPLE%41.COM/", "coap://a%zzb/", "coap://%/", "coap://h%/",
    " coap://h/a b", "coap://h/a\tb", "co\nap://h/", "\x00coap://h/", "coap://h/ ", "coap://h /",
    "coap://h/;p?q;r", "coap://h/./../a", "coap://h/a%2Fb%3F%26?c%26d%3D=e%23",
    "coap://host/blåbærsyltetøy", "coap://h/\U0001f600?\U0001f600",
]


# texts on which a constructor that tests its argument for truth, strips it, or compares it with a default
# would go another way than set_request_uri
ENTRY_POINT_TEXTS = ["", " ", "\x00", "\t", "\n", "0", "None", "False", "\u00a0", "\u3000", "\ufeff", "coap://h", "coap://h/ ",
                     " coap://h/", "coap://h/\u00a0", "\u2028coap://h/", "http://h/", "urn:x", ":", "#", "//", "?"]


def boundary_expectations():
    """texts with the expectation the property text and RFC 3986 §3.2.2 give, enumerated in full"""
    out = []
    acc = lambda host, port=None, path=(), query=(): ("accept", "coap", host, port, list(path), list(query))
    rej = lambda why: ("reject", "MalformedUrlError", why)
    # a "#" is a fragment identifier also when nothing follows it (RFC 3986 §3.5: *( pchar / "/" / "?" ))
    for t in ["coap://h/a#", "coap://h/#", "coap://h#", "coap://h/a?b#", "coap://h?#", "coap://[::1]#",
              "coap://h:7#", "coap://h/a#b", "coap://h/a##", "coaps+ws://h/a/#", "coap://1.2.3.4/#",
              "http://example.com/x#", "http://example.com/x#f", "coap:#", "coap://#", "//h/a#"]:
        out.append((t, rej("fragment")))
    for t in ["#", "#f", "h#", "/a#"]:
        out.append((t, ("reject", None, "fragment / no scheme")))
    out.append(("coap://h/a%23", acc("h", None, ["a#"])))
    out.append(("coap://h/?%23", acc("h", None, [], ["#"])))
    # dec-octet boundaries, at every position of the quad
    for v in DEC_OCTET_EDGES:
        for pos in range(4):
            parts = ["1", "2", "3", "4"]
            parts[pos] = v
            h = ".".join(parts)
            out.append(("coap://%s/" % h, acc(None if o_is_ipv4address(h) else h)))
            out.append(("coap://%s:7/x" % h, acc(None if o_is_ipv4address(h) else h, 7, ["x"])))
    # text next to a bracketed literal
    for t in ["coap://a[::1]/", "coap://evil.example[::1]:7/x", "coap://[::1]x/", "coap://[::1]x:7/",
              "coap://[::1]evil.example/", "coap://a[fe80::1%25eth0]/", "coap://[::1]]/", "coap://[[::1]/",
              "coap://[::1][::2]/", "coap://[::1]:7]/", "coap://[::1]:[/", "coap://1.2.3.4[::1]/",
              "coap://[::1].example/", "coap://%41[::1]/", "coap://[::1]%41/", "coap://x:[::1]/",
              "coap://[::1]:7x/", "coap://[::1]::7/", "coap://[[::1]]/", "coap://[]:7/"]:
        out.append((t, rej("text next to the bracketed literal")))
    for t, port in [("coap://[::1]/p", None), ("coap://[::1]:/p", None), ("coap://[::1]:7/p", 7),
                    ("coap://[::1]:0/p", 0), ("coap://[::1]:65535/p", 65535)]:
        out.append((t, acc(None, port, ["p"])))
    # zone identifiers
    for z in HOSTILE_ZONES:
        if any(c in z for c in "\t\r\n"):
            out.append(("coap://[fe80::1%%%s]/p" % z, None))       # dropped by the URI splitter
        else:
            out.append(("coap://[fe80::1%%%s]/p" % z, rej("zone identifier %r" % z)))
            out.append(("coap://[fe80::1%%%s]:7/p" % z, rej("zone identifier %r" % z)))
    for z in ZONES:
        if z is not None:
            out.append(("coap://[fe80::1%%%s]/p" % z, acc(None, None, ["p"])))
            out.append(("coap://[FE80::1%%%s]:7/p" % z, acc(None, 7, ["p"])))
    # registered names that decode to something looking like an IP literal
    for t, h in [("coap://%3A%3A1/", "::1"), ("coap://%5B%3A%3A1%5D/", "[::1]"), ("coap://%3A%3A01/", "::01"),
                 ("coap://fe80%3A%3A1%25eth0/", "fe80::1%eth0"), ("coap://fe80%3A%3A1%25a%3Fb/", "fe80::1%a?b"),
                 ("coap://%3A%3A1%25a%5Db/", "::1%a]b"), ("coap://%3A%3A1%25a%0Ab/", "::1%a\nb"),
                 ("coap://%3A%3A1%25a%20b/", "::1%a b"), ("coap://%3A%3A1%25a%40b/", "::1%a@b"),
                 ("coap://%5B%3A%3A1%25x%5Dy%5D/", "[::1%x]y]"), ("coap://%31.2.3.4/", "1.2.3.4"),
                 ("coap://%30%31.2.3.4/", "01.2.3.4"), ("coap://FE80%3A%3A1%25ETH0/", "fe80::1%eth0")]:
        out.append((t, acc(h)))
    return out


# ---------------------------------------------------------------------------- run

def nontrivial_resource(r):
    txt = "".join(r["path"] + r["query"])
    return (r["host_kind"] != "name" or "" in r["path"] or "" in r["query"]
            or any(c in ALPH_RESERVED or ord(c) > 127 or ord(c) < 33 for c in txt)
            or any(c not in UNRESERVED for c in r["uri_host"] or ""))


def run_resources(env, rep, impl, resources):
    """G then S on the Lean-composed text; returns the implementation's URIs for feedback"""
    seen = {}
    lines, outs, cases = [], [], []
    for r in resources:
        m = impl.message_from_opts(r["scheme"], r["hostinfo"], r["uri_host"], None,
                                   r["path"], r["query"])
        o = impl.observe(m)
        lines.append("C16 G %s %s %s ~ %s %s" % (hx(o["scheme"]), hx(o["hostinfo"]),
                                                 ho(o["uri_host"]), hl(o["path"]), hl(o["query"])))
        u = impl.get_uri(m)
        outs.append("!" if u is None else hx(u))
        cases.append(r)
        rep.case(r, nontrivial=nontrivial_resource(r), sample_every=2000)
        rep.count("G:host=" + r["host_kind"])
        rep.count("G:path_len=%d" % min(len(r["path"]), 4))
        rep.count("G:query_len=%d" % min(len(r["query"]), 4))
        if r["path"] == [""] or r["query"] == [""]:
            rep.count("G:degenerate")
        v = oracle_resource(impl, r, seen)
        if v:
            rep.oracle_fail(r, v, key=oracle_key(v))
    model = compare(env, rep, cases, lines, outs, what="get_request_uri")
    # the text Lean composed goes into the real set_request_uri
    texts = []
    for r, mo in zip(cases, model):
        if mo not in ("!", "out-of-model"):
            texts.append(bytes.fromhex(mo if mo != "-" else "").decode("utf-8"))
    return texts


def run_texts(env, rep, impl, items, stream, feedback=True, entry_points="sample"):
    """items: (text, expect).  S and P lines, oracle; the implementation's recomposed URI is
    fed back once (normal forms must be fixed points)."""
    lines, outs, cases = [], [], []
    plines, pouts, pcases = [], [], []
    backs = []
    for text, expect in items:
        if not encodable(text):
            continue
        case = {"kind": "T", "text": text, "expect": expect}
        line, kind, o, back = impl.outcome_line(text)
        lines.append("C16 S " + hx(text))
        outs.append(line)
        cases.append(case)
        rep.count("%s:outcome=%s" % (stream, kind))
        nt = kind != "ok" or back != text
        rep.case(case, nontrivial=nt, sample_every=3000)
        v = oracle_text(impl, text, expect)
        if v:
            rep.oracle_fail(case, v, key=oracle_key(v))
        if entry_points == "all" or len(cases) % 5 == 0:
            v = oracle_entry_points(impl, text)
            rep.count("entry-points:" + kind.split(":")[0])
            if v:
                rep.oracle_fail(case, v, key=oracle_key(v))
        if any(ord(c) > 127 for c in text.partition("://")[2].partition("/")[0]):
            rep.count("%s:raw-non-ascii-authority:%s" % (stream, kind.split(":")[0]))
        if back is not None and back != text:
            backs.append((back, None))
        # urlsplit correspondence
        try:
            sp = urllib.parse.urlsplit(text)
            pout = " ".join(hx(x) for x in sp)
        except ValueError:
            pout = "err"
        plines.append("C16 P " + hx(text))
        pouts.append(pout)
        pcases.append(case)
    compare(env, rep, cases, lines, outs, what="set_request_uri/" + stream)
    compare(env, rep, pcases, plines, pouts, what="urlsplit/" + stream)
    if feedback and backs:
        run_texts(env, rep, impl, backs, stream + "-normalform", feedback=False)


def oracle_key(v):
    """short stable identifier of a verdict: the clause, not the input"""
    if "not a documented URL error" in v:
        return "undocumented-exception:" + v.split(" raised ")[1].split(",")[0]
    for marker, key in (("which decomposes to different options", "opts-uri-opts-differs"),
                        ("composed from options", "composed-uri-rejected"),
                        ("collapse into", "resources-collapse"),
                        ("comes back as", "opts-uri-opts-differs"),
                        ("for options", "compose-raises"),
                        ("decomposes to different options", "uri-opts-uri-differs"),
                        ("is not accepted again", "normal-form-rejected"),
                        ("is not stable", "normal-form-unstable"),
                        ("non-URI characters", "non-uri-characters"),
                        ("must be rejected", "defect-accepted"),
                        ("rejected a well-formed", "wellformed-rejected"),
                        ("expected", "decompose-differs-from-rfc"),
                        ("set for an IP literal", "decompose-differs-from-rfc"),
                        ("entry points differ", "entry-points-differ"),
                        ("get_request_uri() after", "compose-raises")):
        if marker in v:
            return key
    return v.split(" ")[0]


def lib_correspondence(env, rep, impl):
    rng = env.rng
    # --- quote / unquote
    samples = [bytes([b]) for b in range(256)] + [b"", b"%", b"%%", b"%4", b"%41", b"%4G", b"%g1",
                                                  b"%aF", b"%Af%", b"%%41", b"%4%41", b"a%2", b"%2"]
    edge_utf8 = [b"\xc2\x80", b"\xc1\xbf", b"\xdf\xbf", b"\xe0\xa0\x80", b"\xe0\x9f\xbf",
                 b"\xed\x9f\xbf", b"\xed\xa0\x80", b"\xee\x80\x80", b"\xef\xbf\xbf", b"\xf0\x90\x80\x80",
                 b"\xf0\x8f\xbf\xbf", b"\xf4\x8f\xbf\xbf", b"\xf4\x90\x80\x80", b"\xf5\x80\x80\x80",
                 b"\xc3", b"\xe2\x82", b"\xf0\x9f\x98", b"\x80", b"\xbf", b"a\xc3\xa5b", b"\xc3\xa5\xc3"]
    samples += edge_utf8 + [b"%" + e.hex().upper().encode()[:2] + e[1:] for e in edge_utf8]
    for _ in range(env.scale(6000, 60000)):
        n = rng.choice([1, 2, 3, 4, 6, 10])
        k = rng.random()
        if k < 0.4:
            samples.append(bytes(rng.randrange(256) for _ in range(n)))
        elif k < 0.7:
            samples.append("".join(rng.choice("%%%0123456789abcdefABCDEFgz/ ") for _ in range(n * 2)).encode())
        else:
            samples.append(gen_segment(rng).encode("utf-8"))
    lines, outs, cases = [], [], []
    safe_p = SUB_DELIMS + ":@"
    safe_q = SUB_DELIMS.replace("&", "") + ":@/?"
    qp = getattr(impl.message, "_quote_for_path", None)
    qq = getattr(impl.message, "_quote_for_query", None)
    for b in samples:
        # unquote
        lines.append("C16 U " + hx(b))
        ub = urllib.parse.unquote_to_bytes(b)
        try:
            ub.decode("utf-8")
            valid = True
        except UnicodeDecodeError:
            valid = False
        try:
            s = b.decode("utf-8")
            try:
                strict = urllib.parse.unquote(s, errors="strict")
                if (strict.encode("utf-8") != ub) or not valid:
                    raise HarnessError("urllib unquote/unquote_to_bytes disagree on %r" % b)
            except UnicodeDecodeError:
                if valid:
                    raise HarnessError("per-run strict decoding differs from whole-string on %r" % b)
        except UnicodeDecodeError:
            s = None
        outs.append(hx(ub) + (" 1" if valid else " 0"))
        cases.append({"kind": "U", "bytes": b.hex()})
        rep.count("U:valid=%d" % valid)
        # quote (only text can be quoted by the implementation)
        if s is not None:
            for tag, safe, fn in (("p", safe_p, qp), ("q", safe_q, qq)):
                lines.append("C16 Q %s %s" % (tag, hx(b)))
                lib = urllib.parse.quote(s, safe=safe)
                got = fn(s) if fn else lib
                outs.append(hx(got))
                cases.append({"kind": "Q", "set": tag, "bytes": b.hex()})
                rep.count("Q:" + tag)
                if got != lib:
                    rep.oracle_fail({"kind": "Q", "set": tag, "bytes": b.hex()},
                                    "quote for %s of %r is %r, RFC 3986 safe set gives %r" % (tag, s, got, lib),
                                    key="quote-safe-set:" + tag)
                if o_pct_decode(got) != s:
                    rep.oracle_fail({"kind": "Q", "set": tag, "bytes": b.hex()},
                                    "quote for %s of %r = %r does not decode back" % (tag, s, got),
                                    key="quote-not-invertible:" + tag)
        rep.case({"kind": "U", "bytes": b.hex()}, nontrivial=b"%" in b or any(x > 127 for x in b))
    compare(env, rep, cases, lines, outs, what="quote/unquote")
    # --- hostportjoin / hostportsplit
    lines, outs, cases = [], [], []
    hosts = ["h", "example.com", "EXAMPLE.com", "1.2.3.4", "::1", "[::1]", "2001:db8::1", "fe80::1%eth0",
             "[fe80::1%ETH0]", "a%41", "ex%41MPLE", "", "[", "]", "[]", "a:b", "[a", "a]",
             # raw non-ASCII names (the model's H line abstains; the oracle's round trip does not: a name that
             # str.lower() leaves alone comes back as it was)
             "\u00e9", "stra\u00dfe", "\ufb01sh", "\u0661.\u0662.\u0663.\u0664", "1.2.3.\u0664", "\u0131", "\u03c3\u03c2",
             "a\u00a0b", "\uff11\uff12", "\u00b2", "\u2460", "\u017f", "e\u0301", "\u4e2d\u6587", "\U0001f600", "\u212a", "\u0130"]
    ports = [None, 0, 1, 80, 5683, 65535, 65536, 100000]
    for h in hosts:
        for p in ports:
            lines.append("C16 J %s %s" % (hx(h), "~" if p is None else p))
            j = impl.util.hostportjoin(h, p)
            outs.append(hx(j))
            c = {"kind": "J", "host": h, "port": p}
            cases.append(c)
            rep.case(c, nontrivial=":" in h or p is not None)
            rep.count("J")
            # oracle: names without special characters, IPv4 and IPv6 (+zone) survive join/split
            plain = h and h == h.lower() and not any(x in h for x in "[]@%") or \
                (":" in h and "[" not in h and h.partition("%")[0] == h.partition("%")[0].lower())
            if plain and (p is None or p <= 65535) and not (":" in h and h.count(":") < 2):
                try:
                    back = impl.util.hostportsplit(j)
                except ValueError as e:
                    back = "ValueError"
                if back != (h, p):
                    rep.oracle_fail(c, "hostportsplit(hostportjoin(%r, %r)) = %r" % (h, p, back),
                                    key="hostport-roundtrip")
    splits = [impl.util.hostportjoin(h, p) for h in hosts for p in ports] + [
        "h:", "h:abc", "h:1:2", ":80", "[::1]:", "[::1]:x", "[::1]x:7", "u@h:1", "@h", "a@b@[::1]:9",
        "[::1", "::1", "h:065535", "h:65536", "H:1", "[FE80::1%ETH0]:1", "ex%41MPLE:1", "h: 1", "h:+1"]
    # ports written with look-alikes of digits / with Unicode white space around them: no port is a number but
    # one of ASCII digits (int() and str.isdigit() think otherwise)
    splits += [t % ch for ch in UNI_DIGITS + UNI_SPACES for t in ("h:%s", "h:1%s", "h:%s1", "[::1]:%s", "1.2.3.4:8%s")]
    for _ in range(env.scale(1500, 20000)):
        splits.append("".join(rng.choice("ah.:[]@%0159Z") for _ in range(rng.choice([1, 3, 6, 10]))))
    for hp in splits:
        lines.append("C16 H " + hx(hp))
        try:
            h, p = impl.util.hostportsplit(hp)
            outs.append("%s %s" % (ho(h), "~" if p is None else p))
        except ValueError:
            outs.append("err")
        c = {"kind": "H", "hostport": hp}
        cases.append(c)
        rep.case(c, nontrivial=True)
        rep.count("H")
        # oracle: whatever follows the colon after the host must be ASCII digits (or nothing)
        if outs[-1] != "err":
            port_txt = o_port_text(hp)
            if port_txt and not re.fullmatch("[0-9]+", port_txt):
                rep.oracle_fail(c, "hostportsplit(%r) = %s: the port %r is not a number" % (hp, outs[-1], port_txt),
                                key="hostport-bad-port-accepted")
    compare(env, rep, cases, lines, outs, what="hostport")
    # --- the two facts about this interpreter's Unicode tables that the model relies on
    delim = re.compile("[/?#@:]")
    every = "".join(map(chr, range(128, 0xD800))) + "".join(map(chr, range(0xE000, 0x110000)))
    # (a character without a decomposition mapping is its own NFKC form)
    table = {ord(ch) for ch in every if unicodedata.decomposition(ch)
             and delim.search(unicodedata.normalize("NFKC", ch))}
    if table != NFKC_DELIMS:
        raise HarnessError("unicodedata %s: code points whose NFKC form holds / ? # @ : differ from the model's "
                           "table by %r" % (unicodedata.unidata_version, sorted(table ^ NFKC_DELIMS)))
    # (lower-casing a text is lower-casing its characters, but for the shape of a final sigma)
    if re.search("[0-9.]", every.lower()) or (env.thorough and not all(ch.lower() for ch in every)):
        raise HarnessError("str.lower() turns a non-ASCII character into nothing, an ASCII digit or a dot: the "
                           "model's .hostname is not faithful")
    rep.count("unicode-tables-checked")
    # --- IPv6 normalisation (the oracle of the model) against ipaddress
    import ipaddress
    lines, outs, cases = [], [], []
    texts = IP6_FORMS + IP6_BAD + IP6_CANON + [a + "%" + z for a in IP6_CANON[:4] for z in ZONES if z] + \
        [a + "%" + z for a in ("::1", "FE80::01") for z in HOSTILE_ZONES_OPT]
    for _ in range(env.scale(3000, 40000)):
        k = rng.random()
        if k < 0.6:
            groups = [rng.choice(["0", "0", "0", "1", "a", "00", "0a0", "ffff", "FFFF", "12345", "g", ""])
                      for _ in range(rng.choice([1, 2, 3, 5, 7, 8, 8, 9]))]
            t = ":".join(groups)
            if rng.random() < 0.5 and len(groups) > 2:
                i = rng.randrange(len(groups))
                t = ":".join(groups[:i]) + "::" + ":".join(groups[i + 1:])
            if rng.random() < 0.15:
                t += ":" + rng.choice(["1.2.3.4", "255.255.255.255", "01.2.3.4", "1.2.3", "256.0.0.1"])
            if rng.random() < 0.15:
                t += "%" + rng.choice(["eth0", "", "a%b", "1"] + HOSTILE_ZONES)
        else:
            t = "".join(rng.choice("0123abF:.%/v") for _ in range(rng.choice([2, 4, 8, 14])))
        texts.append(t)
    for t in texts:
        lines.append("C16 N " + hx(t))
        try:
            y = str(ipaddress.IPv6Address(t))
            outs.append(hx(y))
            rep.count("N:valid")
            # the assumptions the theorems make about ipaddress (`IpLaws` in Proofs/Uri/NormalForm.lean):
            # canon (fixed point, colon, lower-case before the zone, no leading v or [), addr / addrIn
            # (hex digits, colons, dots before the zone, in the result and in the input), zone (copied
            # from the input), colon (input)
            head = y.partition("%")[0]
            if not (str(ipaddress.IPv6Address(y)) == y and ":" in y and ":" in t and head == head.lower()
                    and y[0] not in "v[" and all(c in "0123456789abcdef:." for c in head)
                    and all(c in "0123456789abcdefABCDEF:." for c in t.partition("%")[0])
                    and y.partition("%")[2] == t.partition("%")[2] and ("%" in y) == ("%" in t)):
                raise HarnessError("ipaddress violates the assumed IpLaws on %r -> %r" % (t, y))
        except ValueError:
            outs.append("!")
            rep.count("N:invalid")
        c = {"kind": "N", "text": t}
        cases.append(c)
        rep.case(c, nontrivial="::" in t or "%" in t or "." in t)
    compare(env, rep, cases, lines, outs, what="ipv6-normalise")


def oracle_no_uri(impl):
    """no URI at all (what OSCORE's protect() hands in for the outer message of a request that has none): a
    documented URL error like for the empty text, nothing else"""
    kind, _ = impl.set_uri(None)
    if kind != "err:IncompleteUrlError":
        return "set_request_uri(None): %s, the documented answer to a missing URI is IncompleteUrlError" % kind
    return ""


def run(env, rep):
    aiocoap = env.import_repo()
    impl = Impl(aiocoap)
    rng = env.rng
    case = {"kind": "N"}
    rep.case(case, nontrivial=False)
    v = oracle_no_uri(impl)
    if v:
        rep.oracle_fail(case, v, key="undocumented-exception:no-uri")

    corpus_texts, corpus_res = [], []
    for _, c in load_corpus("C16"):
        if c.get("kind") == "T":
            exp = c.get("expect")
            corpus_texts.append((c["text"], tuple(exp) if exp else None))
        elif c.get("kind") == "R":
            corpus_res.append(c)

    # options -> URI -> options
    resources = corpus_res + boundary_resources() + [gen_resource(rng) for _ in range(env.scale(12000, 150000))]
    lean_texts = run_resources(env, rep, impl, resources)
    run_texts(env, rep, impl, [(t, None) for t in lean_texts], "composed", feedback=False)

    # URI -> options -> URI: corpus, boundary table, structured texts
    run_texts(env, rep, impl, corpus_texts + [(t, None) for t in BOUNDARY_TEXTS] + boundary_expectations()
              + [(t, None) for t in ENTRY_POINT_TEXTS], "boundary", entry_points="all")
    run_texts(env, rep, impl, boundary_confusables(), "confusable")
    # the model's NFKC table against urlsplit, character by character: the table and its neighbours (thorough:
    # every code point of the BMP and a sample of the rest) as the only / an inner character of an authority
    cps = {cp + d for cp in NFKC_DELIMS for d in (-1, 0, 1)}
    if env.thorough:
        cps |= set(range(128, 0xD800)) | set(range(0xE000, 0x10000)) | set(rng.sample(range(0x10000, 0x110000), 20000))
    run_texts(env, rep, impl, [(t % chr(cp), None) for cp in sorted(cps)
                               for t in ("coap://%s/", "coap://a%sb:1/x", "//%s")], "nfkc", feedback=False)
    if rep.hist.get("confusable:raw-non-ascii-authority:ok", 0) < 1000:
        raise HarnessError("the look-alike table produced too few accepted raw non-ASCII hosts")
    structured = [gen_structured_text(rng) for _ in range(env.scale(20000, 250000))]
    for _, e in structured:
        rep.count("structured:expect=" + (e[0] if e else "none"))
    run_texts(env, rep, impl, structured, "structured")

    # arbitrary strings
    run_texts(env, rep, impl, [(gen_arbitrary(rng), None) for _ in range(env.scale(15000, 200000))],
              "arbitrary")

    lib_correspondence(env, rep, impl)

    for need in ("composed:outcome=ok", "structured:outcome=err:MalformedUrlError",
                 "structured:outcome=err:IncompleteUrlError", "arbitrary:outcome=proxy"):
        if rep.hist.get(need, 0) == 0:
            raise HarnessError("generator never produced " + need)
    bad = sum(v for k, v in rep.hist.items() if ":outcome=err" in k)
    tot = sum(v for k, v in rep.hist.items() if ":outcome=" in k)
    if bad * 2 > tot:
        raise HarnessError("malformed stream is more than half of the URI cases")


def replay(env, case):
    aiocoap = env.import_repo()
    impl = Impl(aiocoap)
    k = case.get("kind")
    if k == "N":
        return oracle_no_uri(impl)
    if k == "T":
        exp = case.get("expect")
        return oracle_text(impl, case["text"], tuple(exp) if exp else None) or \
            oracle_entry_points(impl, case["text"])
    if k == "R":
        return oracle_resource(impl, case)
    if k == "Q":
        s = bytes.fromhex(case["bytes"]).decode("utf-8")
        fn = getattr(impl.message, "_quote_for_path" if case["set"] == "p" else "_quote_for_query")
        safe = SUB_DELIMS + ":@" if case["set"] == "p" else SUB_DELIMS.replace("&", "") + ":@/?"
        got = fn(s)
        if got != urllib.parse.quote(s, safe=safe) or o_pct_decode(got) != s:
            return "quote for %s of %r is %r" % (case["set"], s, got)
        return ""
    if k == "H":
        hp = case["hostport"]
        try:
            got = impl.util.hostportsplit(hp)
        except ValueError:
            return ""
        port_txt = o_port_text(hp)
        if port_txt and not re.fullmatch("[0-9]+", port_txt):
            return "hostportsplit(%r) = %r: the port %r is not a number" % (hp, got, port_txt)
        return ""
    if k == "J":
        j = impl.util.hostportjoin(case["host"], case["port"])
        try:
            back = impl.util.hostportsplit(j)
        except ValueError:
            back = "ValueError"
        return "" if back == (case["host"], case["port"]) else \
            "hostportsplit(hostportjoin(%r, %r)) = %r" % (case["host"], case["port"], back)
    return ""
