"""C10 — message-layer reactions follow the RFC 7252 type rules.

Correspondence: the full table incoming type x code class x token known/unknown x
unicast/multicast local address, handler speed x No-Response values, requests to a multicast
destination, plus random sequences, on the real UDP stack vs the Lean message-layer model.
Oracle: the RFC 7252 section 4 reaction table written independently (harness/msglayer_props.py).
"""
import msglayer
import msglayer_gen as G
import msglayer_props as P
from common import load_corpus
from props._msgl import replay_with

RULE = ("exhaustive table: 4 types x 10 code values (all classes and their edges) x token known/unknown x "
        "unicast/multicast = 160 scripts; 2 x 2 x 5 x 3 handler-speed/No-Response scripts; multicast "
        "destinations; then random sequences. Non-trivial: the stack sent or delivered something.")
TRUSTED = ["virtual-clock event loop and fake-socket UDP stack of the harness (vloop.py, netsim.py)"]
ASSUMPTIONS = ["asyncio timer order as on the virtual clock"]


def scripts(env):
    cfg = msglayer.default_cfg()
    out = [c["script"] for _, c in load_corpus("C10") if "script" in c]
    out += G.c10_table()
    out += [G.c10_random(env.rng, cfg) for _ in range(env.scale(100, 4000))]
    return out


def run(env, rep):
    env.import_repo()
    P.check_scripts(env, rep, "C10", scripts(env), P.oracle_c10,
                    lambda res: bool(res["wire"]) or bool(P.deliveries(res)))
    rep.exhaustive_parts.append("type x code-class x token x multicast table (160 scripts)")


def replay(env, case):
    return replay_with(env, case, P.oracle_c10)
