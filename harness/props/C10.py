"""C10 — message-layer reactions follow the RFC 7252 type rules.

Correspondence: the full table incoming type x code class x token known/unknown x
unicast/multicast local address, handler speed x No-Response values, requests to a multicast
destination, plus random sequences, on the real UDP stack vs the Lean message-layer model.
Oracle: the RFC 7252 section 4 reaction table written independently (harness/msglayer_props.py).
"""
import msglayer
import msglayer_gen as G
import msglayer_props as P
from common import load_corpus
from props._msgl import replay_with

RULE = ("exhaustive table: 4 types x 10 code values (all classes and their edges) x token known/unknown x "
        "unicast/multicast = 160 scripts; 2 x 2 x 5 x 3 handler-speed/No-Response scripts; multicast "
        "destinations; then random sequences. Non-trivial: the stack sent or delivered something.")
TRUSTED = ["virtual-clock event loop and fake-socket UDP stack of the harness (vloop.py, netsim.py)"]
ASSUMPTIONS = ["asyncio timer order as on the virtual clock"]


def scripts(env):
    cfg = msglayer.default_cfg()
    out = [c["script"] for _, c in load_corpus("C10") if "script" in c]
    out += G.c10_table(cfg) + G.c10_shared_response(cfg)
    out += [G.c10_random(env.rng, cfg) for _ in range(env.scale(100, 4000))]
    return out


def observable(res):
    """what the peers and the applications see of a run"""
    return {"wire": [tuple(w) for w in res["wire"]],
            "deliveries": [(d["tick"], d["srv"]) for d in P.deliveries(res)],
            "responses": sorted((r, tuple(map(tuple, v))) for r, v in P.responses(res).items()),
            "fails": sorted((r, tuple(map(tuple, v))) for r, v in P.fails(res).items())}


def check_misfits_inert(env, rep, all_scripts):
    """"messages whose code and type do not fit are ignored": a run must be the same with and without them"""
    pairs = []
    for sc in all_scripts:
        mis = [e for e in sc["events"] if e[0] == "R" and G.is_misfit(e[4], e[5])]
        if not mis or any(e[0] == "N" for e in sc["events"]):
            continue
        twin = dict(sc, events=[e for e in sc["events"] if e not in mis], tag=sc.get("tag", "") + ":without-misfits")
        pairs.append((sc, twin))
    results = P.run_scripts(env, [x for p in pairs for x in p])
    for k, (sc, twin) in enumerate(pairs):
        a, b = results[2 * k], results[2 * k + 1]
        for r in (a, b):
            if "crash" in r:
                raise P.HarnessError(f"scenario crashed: {r['crash']}\n{r.get('tb')}")
        rep.count("misfit-twin")
        oa, ob = observable(a), observable(b)
        if oa != ob:
            what = [k2 for k2 in oa if oa[k2] != ob[k2]]
            mis = [e for e in sc["events"] if e[0] == "R" and G.is_misfit(e[4], e[5])]
            rep.oracle_fail({"script": sc, "twin": twin},
                            f"misfit-not-ignored: the run differs ({', '.join(what)}) from the same run without the "
                            f"message(s) whose code and type do not fit {[(e[4], e[5], e[6]) for e in mis]}",
                            key="C10:misfit-not-ignored")


def run(env, rep):
    env.import_repo()
    all_scripts = scripts(env)
    P.check_scripts(env, rep, "C10", all_scripts, P.oracle_c10,
                    lambda res: bool(res["wire"]) or bool(P.deliveries(res)))
    check_misfits_inert(env, rep, all_scripts)
    rep.exhaustive_parts.append("type x code-class x token x multicast table (160 scripts)")
    rep.exhaustive_parts.append("type x code-class x token aimed at the message ID of an exchange in flight, alone and "
                                "followed by a genuine request under that ID (160 scripts, each also run without "
                                "its misfit)")
    rep.exhaustive_parts.append("second request (CON/NON) on the token of an unacknowledged CON request x gap "
                                "around EMPTY_ACK_DELAY x handler speed x same/other endpoint (36 scripts)")


def replay(env, case):
    if "twin" in case:
        env.import_repo()
        a, b = P.run_scripts(env, [case["script"], case["twin"]])
        oa, ob = observable(a), observable(b)
        return "" if oa == ob else "misfit-not-ignored: " + ", ".join(k for k in oa if oa[k] != ob[k])
    return replay_with(env, case, P.oracle_c10)
