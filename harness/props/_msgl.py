"""common replay for the message-layer properties"""
import msglayer
import msglayer_props as P


def replay_with(env, case, oracle):
    env.import_repo()
    res = msglayer.run_script(case["script"])
    res["wire"] = [(t, d, b.hex()) for (t, d, b) in res["wire"]]
    res["script"] = case["script"]
    bad = res["errors"] + res["loop_exceptions"]
    return (bad[0] if bad else "") or oracle(res)
