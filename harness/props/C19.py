"""C19 — the file server never touches anything outside its root directory.

Correspondence (model ≈ code), all through the Lean driver:
  J  the Lean restatement of pathlib (`posixpath.join` + `_parse_path` + `__str__`) vs the real
     `PurePosixPath(a, b)` on boundary and random strings;
  P  `FileServer.request_to_localpath` (and the key `add_observation` stores) vs
     `requestToLocalPath` for several root forms;
  A  what the program's own start-up (`FileServerProgram()` on a fake `sys.argv`: build_parser, parse_args,
     extract_server_arguments, start_with_options; only the creation of the network context is stubbed) makes
     of a command line -- write flag, ETag length, root -- vs `parseArgv`;
  H  histories: `FileServer.render` / `needs_blockwise_assembly` / `add_observation` / GET with Observe: 0
     through `render_to_pipe` / rounds of `check_files_for_refreshes` (virtual clock) on wire-decoded requests in
     a scratch tree vs `Server.run`: response code, Block2, payload and the exact sequence of file-system calls
     of every step (as seen by the jail of harness/c19_jail.py), with the operating system's answers (stat kind,
     directory entries, file bytes, ETag hits, files gone at a refresh round) measured by the harness beforehand
     and given to the model as its `World`; what the observation table holds is the model's own state.
Oracle (independent reading of the property over the jail's log and the tree):
  every call names a path inside the root (nothing was refused by the jail) -- requests and refresh rounds;
  without write permission (constructor flag; or no `--write` on the command line; or the constructor's
  defaults) the tree (names, types, sizes, contents, mtimes, inodes) is unchanged, no modifying call was made
  and PUT/DELETE are refused; a request whose naive path leaves the root is answered with an error and
  changes nothing; every successful answer to a GET of a regular file is the slice of the file's PRESENT bytes
  at the offset its Block2 names (full-sized if it announces more, reaching the end if not), and a block-wise
  fetch, for every szx, equals the file's content -- also right after the file was replaced (PUT / behind the
  server's back) while it is or was observed, before and after refresh rounds.
Nothing outside the scratch directory is read or modified: the jail refuses such calls.
"""
import asyncio
import contextlib
import errno
import functools
import hashlib
import logging
import mimetypes
import os
import posixpath
import shutil
import stat as statmod
import sys
import tempfile
from pathlib import Path, PurePosixPath

from common import compare, load_corpus, HarnessError, VERIF
from c19_jail import Jail, Refused, inside, lexical_abs, entry_modifies
from vloop import VirtualLoop

RULE = ("J: pairs over a table of path-significant strings (all pairs) + random concatenations. "
        "P: Uri-Path lists = all lists of length <= 2 over a 15-symbol alphabet ('', '.', '..', 'a/b', "
        "'/', '/etc', '//', NUL, 255/256-char, Unicode, plain names), all length-3 lists over 6 symbols, "
        "plus random lists, for absolute/relative/'/'/'//' roots. H: requests decoded from wire bytes and "
        "rendered by the real FileServer in a scratch tree (files of 0/1/15/16/17/1023/1024/1025/2500/5000 "
        "bytes, nested dirs, a non-regular node): full table targets x methods x write x etag config x "
        "If-None-Match x If-Match x ETag; every block of every file for szx 0..7 (+ blocks past the end); "
        "S: the server built by the program's own start-up for a table of command lines (16 option groups "
        "without --write x {alone, --write before/after, root argument first/last/absent = working directory}, "
        "abbreviated and repeated --write, pairs of groups) and by the bare constructor defaults, each with a "
        "battery of PUT/DELETE/GET (new file, replacement, conditional, subdirectory, hostile path); "
        "M: a file of size s1, never/still/once observed (GET Observe:0 through render_to_pipe, or "
        "add_observation alone), replaced by s2 bytes via PUT / in place / by rename, with a refresh round "
        "before/after/between two changes or none, then every block for a given szx (quick: full cross of "
        "how x observation x szx for 100->600 and 600->100, all tick modes with rotating szx, 9 boundary "
        "pairs up to 5000 bytes; thorough: the full cross); random histories of 1-6 requests (55% paths into "
        "the tree, 45% hostile mutations/random lists; 25% on a server started from a random command line) with "
        "observations, local changes and refresh rounds mixed in; random histories of 3-9 steps on ONE file "
        "(block requests around its present end, size changes, observations, refresh rounds). "
        "A case is non-trivial when the request reached the file system or was rejected by the path check "
        "(J/P: a non-empty right operand / component list); distinct by the full case.")
TRUSTED = ["interception of file-system access at the os/io/builtins/shutil module attributes "
           "(harness/c19_jail.py); C-level access that bypasses them would not be seen",
           "mimetypes' one-time database load is done before the jail is active",
           "virtual-clock event loop (harness/vloop.py); the stub that replaces the creation of the network "
           "context when the program is started from a command line"]
ASSUMPTIONS = ["no symbolic links inside the root and no concurrent modification (TOCTOU) -- OS behaviour "
               "outside the lexical model; the property quantifies over trees of directories and files",
               "directory entry names returned by the OS and names chosen by tempfile are single proper "
               "components (hypothesis World.wf of C19_ops_confined)",
               "the file does not change between the block requests of one fetch (it may change between any "
               "two other steps)",
               "command lines outside the modelled tokens (abbreviated options, --opt=value, --register) are "
               "judged by the oracle only; re-renders set off by a refresh round for a live observer are judged "
               "by the oracle only"]

SIZES = [0, 1, 15, 16, 17, 1023, 1024, 1025, 2500, 5000]
LONG255 = "L" * 255
LONG256 = "y" * 256
METHODS = ["GET", "PUT", "DELETE", "POST", "FETCH", "PATCH", "iPATCH"]
MLETTER = {"GET": "G", "PUT": "P", "DELETE": "D"}

# ------------------------------------------------------------------ tokens -------------


def hx(s):
    return s.encode("utf-8").hex() or "-"


SCRATCH = "\u0001scratch\u0001"      # stands for the components of the scratch directory's absolute path
ROOTARG = "\u0001root\u0001"         # stands for the scratch root on a command line


def expand(comps, sc):
    out = []
    for c in comps:
        out += sc.dir.strip("/").split("/") if c == SCRATCH else [c]
    return out


def comps_tok(comps):
    return "~" if not comps else ",".join(hx(c) for c in comps)


def path_tok(raw):
    """anchor + parts of an absolute or relative path string, as asked (no normalisation
    beyond dropping empty pieces)"""
    n = len(raw) - len(raw.lstrip("/"))
    anchor = 0 if n == 0 else (2 if n == 2 else 1)
    return f"{anchor}:" + ",".join(hx(p) for p in raw.split("/") if p)


def pure_tok(p):
    anchor = {"": 0, "/": 1, "//": 2}[p.root]
    parts = p.parts[1:] if p.root else p.parts
    return f"{anchor}:" + ",".join(hx(x) for x in parts)


def tok_to_str(tok):
    a, parts = tok.split(":")
    parts = [bytes.fromhex(x).decode("utf-8") for x in parts.split(",") if x]
    s = "/" * int(a) + "/".join(parts)
    return s or "."


@functools.lru_cache(maxsize=256)
def content_of(n):
    return bytes((i * 37 + (i >> 8) * 11 + n) & 0xFF for i in range(n))


# ------------------------------------------------------------------ scratch tree -------


def scratch_dir(prefix):
    """a fresh directory outside /repo and /verif; on the memory file system when there is one (the histories
    create and remove some ten thousand files)"""
    base = "/dev/shm" if os.path.isdir("/dev/shm") and os.access("/dev/shm", os.W_OK | os.X_OK) else None
    return os.path.realpath(tempfile.mkdtemp(prefix=prefix, dir=base))


class Scratch:
    """A directory outside /repo and /verif: `<scratch>/srv` is the server's root,
    `<scratch>/outside.txt` a neighbour that must never be touched."""

    def __init__(self, env):
        d = scratch_dir("c19-")
        for forbidden in ("/repo", "/verif", VERIF, env.repo):
            if inside(d, os.path.realpath(forbidden)):
                shutil.rmtree(d)
                raise HarnessError(f"scratch directory {d} is inside {forbidden}")
        self.dir = d
        self.root = d + "/srv"
        self.jail = Jail(d)
        self._hcache = {}
        self.build()

    def build(self):
        if os.path.exists(self.root):
            shutil.rmtree(self.root)
        os.mkdir(self.root)
        with open(self.dir + "/outside.txt", "wb") as f:
            f.write(b"secret outside the root")
        # neighbours whose absolute path EXTENDS the root's path as a string (a containment test on strings instead
        # of path components takes them for part of the root)
        for sib in ("srv-private", "srv2"):
            os.makedirs(f"{self.dir}/{sib}", exist_ok=True)
            with open(f"{self.dir}/{sib}/secret.txt", "wb") as f:
                f.write(b"secret in a sibling directory")
        with open(self.dir + "/srv.bak", "wb") as f:
            f.write(b"secret backup beside the root")
        for n in SIZES:
            with open(f"{self.root}/f{n}", "wb") as f:
                f.write(content_of(n))
        os.makedirs(self.root + "/d/e")
        os.makedirs(self.root + "/d/sub")
        for name, n in (("d/x.txt", 33), ("d/sub/deep.txt", 100), ("é.txt", 5), (LONG255, 3)):
            with open(f"{self.root}/{name}", "wb") as f:
                f.write(content_of(n))
        try:
            os.mknod(self.root + "/sock", 0o600 | statmod.S_IFSOCK)
        except OSError:
            os.mkfifo(self.root + "/sock")
        self.pristine = self.tree_hash()

    def spec(self):
        """what build() puts below the scratch directory: {relative path: bytes | "dir" | "node"}"""
        out = {"outside.txt": b"secret outside the root", "srv.bak": b"secret backup beside the root",
               "srv": "dir", "srv/d": "dir", "srv/d/e": "dir", "srv/d/sub": "dir", "srv/sock": "node"}
        for sib in ("srv-private", "srv2"):
            out[sib] = "dir"
            out[sib + "/secret.txt"] = b"secret in a sibling directory"
        for n in SIZES:
            out[f"srv/f{n}"] = content_of(n)
        for name, n in (("d/x.txt", 33), ("d/sub/deep.txt", 100), ("é.txt", 5), (LONG255, 3)):
            out["srv/" + name] = content_of(n)
        return out

    def restore(self):
        """Bring the tree back to what build() made, touching only what differs (a full rebuild costs some
        hundred unlink/rmdir calls); any surprise falls back to build()."""
        try:
            spec = self.spec()
            seen = set()
            for dirpath, dirnames, filenames in os.walk(self.dir, topdown=False):
                for name in filenames + dirnames:
                    p = os.path.join(dirpath, name)
                    rel = os.path.relpath(p, self.dir)
                    want = spec.get(rel)
                    st = os.lstat(p)
                    if want is None or (want == "dir") != statmod.S_ISDIR(st.st_mode) or \
                            (want == "node") != (not statmod.S_ISDIR(st.st_mode) and not statmod.S_ISREG(st.st_mode)):
                        if statmod.S_ISDIR(st.st_mode):
                            shutil.rmtree(p)
                        else:
                            os.unlink(p)
                        continue
                    if isinstance(want, bytes):
                        with open(p, "rb") as f:
                            if f.read() != want:
                                with open(p, "wb") as g:
                                    g.write(want)
                    seen.add(rel)
            for rel in sorted(set(spec) - seen):
                want = spec[rel]
                p = os.path.join(self.dir, rel)
                if want == "dir":
                    os.makedirs(p, exist_ok=True)
                elif want == "node":
                    raise OSError("special node missing")
                else:
                    with open(p, "wb") as f:
                        f.write(want)
            self.pristine = self.tree_hash()
        except OSError:
            self.build()

    def tree_hash(self):
        """names, types, and for files size/mtime/inode/content (directory mtimes excluded: a
        temp file created and removed again is not a change of the tree)"""
        out = []
        stack = [self.dir]
        while stack:
            d = stack.pop()
            for name in sorted(os.listdir(d)):
                p = d + "/" + name
                st = os.lstat(p)
                if statmod.S_ISDIR(st.st_mode):
                    out.append(("d", p))
                    stack.append(p)
                elif statmod.S_ISREG(st.st_mode):
                    k = (st.st_ino, st.st_mtime_ns, st.st_size)
                    h = self._hcache.get(k)
                    if h is None:
                        with open(p, "rb") as f:
                            h = hashlib.blake2b(f.read(), digest_size=8).hexdigest()
                        if len(self._hcache) > 5000:
                            self._hcache.clear()
                        self._hcache[k] = h
                    out.append(("f", p, k, h))
                else:
                    out.append(("x", p, statmod.S_IFMT(st.st_mode)))
        return hashlib.blake2b(repr(out).encode(), digest_size=12).hexdigest()

    def close(self):
        shutil.rmtree(self.dir, ignore_errors=True)

    # what the operating system would answer for `p` (a path string inside the scratch dir)
    def inspect(self, p):
        w = {"stat": "a", "content": b"", "children": [], "pdir": False, "st": None}
        if not inside(lexical_abs("/", p), self.dir):
            return w
        try:
            st = os.stat(p)
        except FileNotFoundError:
            st = None
        except ValueError:
            w["stat"] = "s"
            st = None
        except OSError as e:
            w["stat"] = "s" if e.errno in (errno.ENOTDIR, errno.ELOOP, errno.EBADF) else "h"
            st = None
        if st is not None:
            w["st"] = st
            if statmod.S_ISDIR(st.st_mode):
                w["stat"] = "d"
                for name in os.listdir(p):
                    try:
                        isd = statmod.S_ISDIR(os.stat(p + "/" + name).st_mode)
                    except OSError:
                        isd = False
                    w["children"].append((name, isd))
            elif statmod.S_ISREG(st.st_mode):
                w["stat"] = "f"
                with open(p, "rb") as f:
                    w["content"] = f.read()
            else:
                w["stat"] = "x"
        parent = posixpath.dirname(p.rstrip("/")) or "/"
        w["pdir"] = inside(lexical_abs("/", parent), self.dir) and os.path.isdir(parent)
        return w


# ------------------------------------------------------------------ driving the code ---


def run_coro(c):
    try:
        c.send(None)
    except StopIteration as e:
        return e.value
    c.close()
    raise HarnessError("FileServer coroutine suspended (the harness has no event loop)")


class FakeObservation:
    def __init__(self):
        self.cancel = None

    def trigger(self, *a, **k):
        pass

    def accept(self, cb):
        self.cancel = cb


class Impl:
    def __init__(self, env):
        self.aiocoap = env.import_repo()
        import aiocoap.cli.fileserver as fsmod
        import aiocoap.error
        self.fsmod = fsmod
        self.error = aiocoap.error
        self.log = logging.getLogger("c19-fileserver")
        __import__("common").quiet(self.log)
        mimetypes.init()
        self.codes = {m: getattr(self.aiocoap.Code, m.upper() if m != "iPATCH" else "iPATCH")
                      for m in METHODS}

    def server(self, root, write, etags):
        return self.fsmod.FileServer(Path(root), self.log, write=write, etag_length=8 if etags else 0)

    def request(self, method, comps, payload=b"", inm=False, if_match=(), etags=(), b2=None, observe=None):
        A = self.aiocoap
        m = A.Message(code=self.codes[method], payload=payload)
        m.opt.uri_path = tuple(comps)
        if inm:
            m.opt.if_none_match = True
        if if_match:
            m.opt.if_match = list(if_match)
        if etags:
            m.opt.etags = list(etags)
        if b2 is not None:
            m.opt.block2 = (b2[0], False, b2[1])
        if observe is not None:
            m.opt.observe = observe
        m.mid = 1
        m.mtype = A.CON
        m.token = b"\x01"
        return A.Message.decode(m.encode())          # INCOMING, options as parsed from the wire


def canon_ops(cwd, log, relroot=False):
    """The logged calls in the model's op alphabet (+ W/X for anything the model never does).  Paths as the
    code named them (made absolute with the working directory, unless the server's root is the relative `.`:
    the model's paths are relative then, too)."""
    ops, tmp = [], None
    for e in log:
        fn = e["fn"]
        if not e["raw"]:
            continue
        if relroot:
            # relative to the working directory, as the model's paths are: `str(Path("."))` is ".", and tempfile
            # makes the directory it is given absolute (an absolute path below the working directory names the
            # same object as the relative one; anything else stays absolute and differs from the model)
            raws = [("" if r in (".", cwd) else r[len(cwd) + 1:] if r.startswith(cwd + "/") else r) for r in e["raw"]]
            t = [path_tok(r) for r in raws]
        else:
            t = [path_tok(posixpath.join(cwd, r)) for r in e["raw"]]
        if fn in ("stat", "lstat"):
            ops.append("S" + t[0])
        elif fn in ("listdir", "scandir"):
            ops.append("L" + t[0])
        elif fn in ("unlink", "remove"):
            ops.append("U" + t[0])
        elif fn in ("mkdir", "makedirs"):
            ops.append("M" + t[0])
        elif fn == "rmdir":
            ops.append("D" + t[0])
        elif fn in ("rename", "replace") and len(t) == 2:
            ops.append("R" + t[0] + ">" + t[1])
        elif fn == "open":
            fl = e["flags"] or 0
            full = raws[0] if relroot else posixpath.join(cwd, e["raw"][0])
            if fl & os.O_CREAT and fl & os.O_EXCL:
                ops.append("T" + path_tok(posixpath.dirname(full)))
                tmp = posixpath.basename(full)
            elif entry_modifies(e):
                ops.append("W" + t[0])
            else:
                ops.append("O" + t[0])
        elif fn in ("io.open", "builtins.open"):
            if e["opener"]:
                continue
            ops.append(("W" if entry_modifies(e) else "O") + t[0])
        else:
            ops.append("X" + fn + ":" + t[0])
    return ops, tmp


def naive_escapes(root, comps):
    """Independent reading of 'a request that would lead anywhere else': joining the components
    to the root -- by plain concatenation or with an absolute operand replacing the left side --
    names something outside the root."""
    j = "/".join(comps)
    a = posixpath.normpath(root + "/" + j)
    b = posixpath.normpath(posixpath.join(root, j))
    return not (inside(a, root) and inside(b, root))


def if_match_values(tags, etag):
    out = []
    for t in tags:
        if t == "match":
            out.append(etag if etag is not None else b"nomatch!")
        elif t == "syn":
            out.append(b"synthetc")
        elif t == "empty":
            out.append(b"")
    return out


class FakeRemote:
    """just enough of an endpoint address for the library's block-wise helpers (requests that go
    through `render_to_pipe`)"""
    scheme = "coap"
    hostinfo = "client.invalid"
    hostinfo_local = "server.invalid"
    uri_base = "coap://client.invalid"
    uri_base_local = "coap://server.invalid"
    is_multicast = False
    is_multicast_locally = False
    maximum_block_size_exp = 6
    maximum_payload_size = 1024
    authenticated_claims = ()
    blockwise_key = ("c19-client",)


def cli_grants_write(argv):
    """Independent reading of 'write permission' for a server started from the command line: the operator
    gave `--write` (or a prefix of it that no other option shares, which argparse accepts as that option)."""
    return any(len(a) >= 3 and "--write".startswith(a) for a in argv)


def block_rule(step, resp, disk):
    """Independent reading of 'a file fetched block by block is byte-identical to the file's content', per
    response: a successful answer to a GET of a regular file carries exactly the bytes of the file at the offset
    it names (Block2 number x size; no Block2 = the whole body), full-sized when it announces more, reaching the
    end of the file when it does not, and at the offset that was asked for.  A client that follows the M flag
    from block 0 then assembles exactly the file, whatever happened to the file or the server before."""
    rb = step.get("b2")
    b = resp.opt.block2
    pl = resp.payload
    if b is None:
        if rb is not None and rb[0] != 0:
            return f"block {rb[0]} was asked for, the answer carries no Block2 option"
        if pl != disk:
            return (f"answered without Block2 (complete body) with {len(pl)} bytes, the file has {len(disk)} bytes"
                    if len(pl) != len(disk) else "answered a complete body that differs from the file")
        return ""
    size = 1024 if b.size_exponent == 7 else 2 ** (b.size_exponent + 4)
    off = b.block_number * size
    want_off = 0 if rb is None else rb[0] * (1024 if rb[1] == 7 else 2 ** (rb[1] + 4))
    if off != want_off:
        return f"the answer is block {b.block_number} of size {size}, not the bytes at offset {want_off} asked for"
    if len(pl) > size:
        return f"block {b.block_number} carries {len(pl)} bytes, more than its size {size}"
    if pl != disk[off:off + len(pl)]:
        return (f"block {b.block_number} (size {size}) is not the file's bytes {off}..{off + len(pl)} "
                f"(file has {len(disk)} bytes)")
    if b.more and len(pl) != size:
        return f"block {b.block_number} announces more but carries {len(pl)} of {size} bytes"
    if not b.more and off + len(pl) < len(disk):
        return (f"block {b.block_number} (size {size}) ends the transfer at byte {off + len(pl)}, the file has "
                f"{len(disk)} bytes")
    return ""


class Runner:
    """Executes histories against the real FileServer inside the scratch tree.  The server's coroutines run
    on a virtual-clock event loop (the 10 s refresh loop of `check_files_for_refreshes` is started the way
    `FileServerProgram.start_with_options` starts it and advanced by TICK steps)."""

    def __init__(self, env, rep=None):
        self.env = env
        self.rep = rep
        self.impl = Impl(env)
        self.sc = Scratch(env)
        self.root_tok = path_tok(self.sc.root)
        self.loop = VirtualLoop()
        asyncio.set_event_loop(self.loop)
        self.live = []            # tasks belonging to the server under test
        self.observers = []       # ... those of them that render for an open observation
        self.last_hash = None     # the tree's hash after the last step of the previous history, when known
        self.last_cli = None
        self.prog = None
        self.mtime = 1_700_000_000_000_000_000
        self.home = os.getcwd()

    def close(self):
        try:
            self.end_server()
        finally:
            asyncio.set_event_loop(None)
            self.loop.close()
            self.sc.close()

    def await_(self, coro):
        return self.loop.run_until_complete(coro)

    # ---- starting and stopping the server under test -------------------------------------

    def start_server(self, case):
        sc, impl = self.sc, self.impl
        argv = case.get("argv")
        if argv is None:
            rootform = sc.root + ("/" if case.get("rootform") == "slash" else "")
            if case.get("defaults"):
                # the resource as an application builds it that passes nothing but root and logger
                if case["write"] or not case["etags"]:
                    raise HarnessError("a 'defaults' case states the documented defaults: read-only, ETags on")
                fs = impl.fsmod.FileServer(Path(rootform), impl.log)
            else:
                fs = impl.server(rootform, case["write"], case["etags"])
            # what FileServerProgram.start_with_options does beside constructing the resource
            self.live.append(self.loop.create_task(fs.check_files_for_refreshes()))
            return fs
        return self.start_program(argv)

    def start_program(self, argv):
        """The server as the command line `aiocoap-fileserver <argv>` builds it: FileServerProgram's own start()
        (parser, option extraction, start_with_options); only the creation of the network context is replaced.
        The token ROOTARG stands for the scratch root; without it the program serves its working directory, which
        is the scratch root then."""
        sc, impl = self.sc, self.impl
        fsmod, A = impl.fsmod, impl.aiocoap
        captured = []

        class StubContext:
            async def shutdown(self):
                pass

        async def stub_from_arguments(site, namespace, **kw):
            captured.append(site)
            return StubContext()

        async def stub_create(site, *a, **kw):
            captured.append(site)
            return StubContext()

        async def go():
            prog = fsmod.FileServerProgram()
            await prog.initializing
            return prog

        saved_sca = fsmod.server_context_from_arguments
        saved_csc = A.Context.__dict__["create_server_context"]
        saved_argv = sys.argv
        saved_handlers = logging.root.handlers[:]
        levels = {n: logging.getLogger(n).level for n in ("fileserver", "coap-server", "coap")}
        self.saved_levels = levels
        fsmod.server_context_from_arguments = stub_from_arguments
        A.Context.create_server_context = staticmethod(stub_create)
        sys.argv = ["aiocoap-fileserver"] + [sc.root if a == ROOTARG else a for a in argv]
        if ROOTARG not in argv:
            os.chdir(sc.root)
            sc.jail.cwd = sc.root
        prog = None
        try:
            with open(os.devnull, "w") as dn, contextlib.redirect_stderr(dn), contextlib.redirect_stdout(dn):
                try:
                    prog = self.await_(go())
                except SystemExit:
                    prog = None              # the parser refused the command line: no server
        finally:
            fsmod.server_context_from_arguments = saved_sca
            A.Context.create_server_context = saved_csc
            sys.argv = saved_argv
            logging.root.handlers[:] = saved_handlers
        self.last_cli = "usage"
        if prog is None:
            self.end_server()
            return None
        if len(captured) != 1:
            raise HarnessError(f"FileServerProgram created {len(captured)} server contexts")
        site = captured[0]
        self.last_cli = f"ok write={int(bool(site.write))} etag={site.etag_length} root={pure_tok(site.root)}"
        self.prog = prog
        __import__("common").quiet(logging.getLogger("fileserver"))
        return captured[0]

    def end_server(self):
        if self.prog is not None:
            prog, self.prog = self.prog, None
            if getattr(prog, "refreshes", None) is not None:
                self.live.append(prog.refreshes)
            try:
                self.await_(prog.shutdown())
            except Exception:
                pass
        live, self.live = self.live, []
        self.observers = []
        for t in live:
            t.cancel()
        if live:
            self.await_(asyncio.gather(*live, return_exceptions=True))
        for n, lv in getattr(self, "saved_levels", {}).items():
            logging.getLogger(n).setLevel(lv)
        self.saved_levels = {}
        if os.getcwd() != self.home:
            os.chdir(self.home)
        self.sc.jail.cwd = self.home

    # ---- steps that are not requests -------------------------------------------------------

    def local_write(self, step):
        """The operator (or another process) changes a file inside the root behind the server's back."""
        sc = self.sc
        comps = step["comps"]
        if not comps or any(c in ("", ".", "..") or "/" in c or "\0" in c for c in comps):
            raise HarnessError(f"local write to {comps!r}")
        p = sc.root + "/" + "/".join(comps)
        how = step.get("how", "replace")
        if os.path.isdir(p) or not os.path.isdir(os.path.dirname(p)) or \
                (os.path.lexists(p) and not os.path.isfile(p)):
            return "skipped"
        if how == "remove":
            if os.path.lexists(p):
                os.unlink(p)
            return "removed"
        data = content_of(step["size"] + 7)[7:][::-1] if step.get("salt") else content_of(step["size"])
        if how == "inplace":
            with open(p, "wb") as f:
                f.write(data)
        else:
            with open(p + ".c19new", "wb") as f:
                f.write(data)
            os.replace(p + ".c19new", p)
        self.mtime += 1_000_000_000       # the coarse file-system clock must not hide the change
        os.utime(p, ns=(self.mtime, self.mtime))
        return how

    def read_file(self, naive):
        if "\0" in naive or not inside(lexical_abs("/", naive), self.sc.root) or naive.endswith("/"):
            return None
        try:
            if not statmod.S_ISREG(os.stat(naive).st_mode):
                return None
            with open(naive, "rb") as f:
                return f.read()
        except (OSError, ValueError):
            return None

    def observed_get(self, fs, req, end):
        """GET with Observe: 0 the way the library hands it to a resource: `render_to_pipe` on a Pipe, which
        registers the observation (`add_observation`) and renders the first response.  Returns (response or
        None, exception or None)."""
        from aiocoap.pipe import Pipe
        req.remote = FakeRemote()
        pipe = Pipe(req, self.impl.log)
        events = []

        def on_event(ev):
            events.append(ev)
            return not ev.is_last
        pipe.on_event(on_event)
        task = self.loop.create_task(fs.render_to_pipe(pipe))

        async def first():
            for _ in range(100):
                if events or task.done():
                    return
                await asyncio.sleep(0)
        self.await_(first())
        resp = exc = None
        if events and events[0].message is not None:
            resp = events[0].message
        elif events and events[0].exception is not None:
            exc = events[0].exception
        if task.done():
            if not task.cancelled() and task.exception() is not None:
                exc = exc or task.exception()
        elif end or (events and events[0].is_last):
            task.cancel()
            self.await_(asyncio.gather(task, return_exceptions=True))
        else:
            self.live.append(task)          # the observation stays open until the history ends
            self.observers.append(task)
        if resp is None and exc is None:
            raise HarnessError("observed GET produced neither response nor exception")
        return resp, exc

    # ---- one history ------------------------------------------------------------------------

    def run_history(self, case, model_paths=None):
        """Returns a list of per-step dicts {line, impl, verdicts[(text,key)], ...}, or None when the
        command line of the case was refused by the program's parser (no server)."""
        sc = self.sc
        if self.last_hash != sc.pristine and sc.tree_hash() != sc.pristine:
            sc.restore()
        self.last_hash = None
        try:
            fs = self.start_server(case)
            if fs is None:
                return None
            return self._run_steps(case, fs, model_paths)
        finally:
            self.end_server()

    def _run_steps(self, case, fs, model_paths):
        sc, impl = self.sc, self.impl
        argv = case.get("argv")
        if argv is None:
            write, etags = case["write"], case["etags"]
        else:
            write = cli_grants_write(argv)
            etags = case["etags"]
        relroot = argv is not None and ROOTARG not in argv
        mpaths = model_paths or {}
        hist_paths = sorted({mpaths[tuple(expand(s["comps"], sc))] for s in case["steps"]
                             if "comps" in s and mpaths.get(tuple(expand(s["comps"], sc)))})
        nroot = len(self.root_tok.split(":")[1].split(","))

        def model_form(mp):
            """the path as the model of THIS server names it (relative when the root is `.`)"""
            return "0:" + ",".join(mp.split(":")[1].split(",")[nroot:]) if relroot else mp
        before = sc.pristine
        results = []
        last_content = b""         # content field of the previous R event (`=` stands for it)
        for step in case["steps"]:
            method = step["m"]
            jail = sc.jail
            if method == "LW":
                how = self.local_write(step)
                before = sc.tree_hash()
                results.append({"events": [], "verdicts": [], "outcome": "local:" + how, "ops": [],
                                "resp": None, "stat": "-", "payload": None, "more": False, "disk": None})
                continue
            comps = expand(step.get("comps", []), sc)
            verdicts = []
            events = []
            resp = None
            disk = None
            outcome, b2s, pl, nba = "crash", "-", "-", "?"
            w = {"stat": "-"}
            if method == "TICK":
                # ten seconds pass: one round of check_files_for_refreshes (and whatever it sets off)
                gone = []
                for mp in hist_paths:
                    try:
                        os.stat(tok_to_str(mp))
                    except (OSError, ValueError):
                        gone.append(model_form(mp))
                watchers = any(not t.done() for t in self.observers)
                jail.log, jail.refused = [], []
                with jail:
                    try:
                        self.await_(asyncio.sleep(10.25))
                        outcome = "tick"
                    except Refused:
                        outcome = "crash"
            else:
                mp = mpaths.get(tuple(comps))
                # what the OS would say about the path the model computed (model lines only)
                w = sc.inspect(tok_to_str(mp)) if mp else sc.inspect("/nonexistent-outside")
                naive = sc.root + "/" + "/".join(comps)
                disk = self.read_file(naive)
                etag_now = None
                try:
                    if inside(lexical_abs("/", naive), sc.root) and "\0" not in naive:
                        etag_now = fs.hash_stat(os.stat(naive))
                except OSError:
                    etag_now = None
                imv = if_match_values(step.get("im", ()), etag_now)
                etv = if_match_values(step.get("et", ()), etag_now)
                em = bool(w["st"] is not None and etags and fs.hash_stat(w["st"]) in etv)
                hit = bool(w["st"] is not None and etags and fs.hash_stat(w["st"]) in imv)
                b2 = step.get("b2")
                payload = content_of(step.get("plen", 0))[::-1]
                req = impl.request("GET" if method in ("OBS", "OGET") else method, comps, payload,
                                   step.get("inm", False), imv, etv, b2, observe=0 if method == "OGET" else None)
                jail.log, jail.refused = [], []
                exc = None
                with jail:
                    try:
                        if method == "OBS":
                            fo = FakeObservation()
                            self.await_(fs.add_observation(req, fo))
                            if step.get("end") and fo.cancel is not None:
                                fo.cancel()
                            outcome = "obs"
                        else:
                            nba = "1" if self.await_(fs.needs_blockwise_assembly(req)) else "0"
                            if method == "OGET":
                                resp, exc = self.observed_get(fs, req, bool(step.get("end")))
                                if exc is not None:
                                    raise exc
                            else:
                                resp = self.await_(fs.render(req))
                            outcome = resp.code.dotted
                    except Refused:
                        outcome = "crash"
                    except impl.error.RenderableError as e:
                        outcome = e.to_message().code.dotted
                    except HarnessError:
                        raise
                    except Exception:
                        outcome = "crash"
                if resp is not None:
                    b = resp.opt.block2
                    b2s = "-" if b is None else f"{b.block_number}:{1 if b.more else 0}:{b.size_exponent}"
                    if outcome[0] == "2":
                        pl = resp.payload.hex() or "-"
            ops, tmp = canon_ops(jail.cwd, jail.log, relroot)
            after = sc.tree_hash()
            # ---- oracle -------------------------------------------------------------
            what = f"{method} {comps!r}" if method != "TICK" else "the refresh tick"
            cl = f" (command line {argv!r})" if argv is not None else ""
            for e in jail.refused:
                verdicts.append((f"{what}: {e['fn']}({e['abs']}) outside the scratch "
                                 f"directory was attempted (refused)", "outside-scratch:" + e["fn"]))
            for e in jail.log:
                for ab in e["abs"]:
                    if e["exc"] != "Refused" and not inside(ab, sc.root):
                        verdicts.append((f"{what}: {e['fn']}({ab}) is outside the root "
                                         f"{sc.root}", "outside-root:" + e["fn"]))
            if not write:
                if after != before:
                    verdicts.append((f"{what} changed the tree although the server has no write permission" + cl,
                                     "modified-without-write:" + method))
                mods = [e["fn"] for e in jail.log if entry_modifies(e)]
                if mods:
                    verdicts.append((f"{what} made modifying calls {mods} although the server has no write "
                                     f"permission" + cl, "modifying-call-without-write:" + method))
                if method in ("PUT", "DELETE") and outcome[0] not in "45c":
                    verdicts.append((f"{what} was answered {outcome} by a server without write permission" + cl,
                                     "write-not-refused:" + method))
            if method not in ("OBS", "TICK") and naive_escapes(sc.root, comps):
                if outcome[0] not in "45c":
                    verdicts.append((f"{what} leads outside the root but was answered "
                                     f"{outcome}", "hostile-not-rejected"))
                if after != before:
                    verdicts.append((f"{what} leads outside the root and changed the tree",
                                     "hostile-had-effect"))
            if method in ("GET", "OGET") and resp is not None and outcome == "2.05" and disk is not None:
                v = block_rule(step, resp, disk)
                if v:
                    verdicts.append((f"{what}" + (f" Block2 {step['b2']}" if step.get("b2") else "") + ": " + v,
                                     "block-not-file-slice"))
            # ---- model events -------------------------------------------------------
            if method == "TICK":
                # a live observer re-renders its resource when the round notices a change: those accesses belong
                # to requests of the library, not to the round -- judged by the oracle above, not compared
                events.append({"tok": "K;" + ("|".join(gone) or "~"), "cmp": not watchers and outcome == "tick",
                               "impl": " ".join(["tick", "|"] + ops)})
            elif method == "OBS":
                events.append({"tok": "O;" + comps_tok(comps), "cmp": True, "impl": outcome})
            else:
                if method == "OGET" and (b2 is None or b2[0] == 0):
                    events.append({"tok": "O;" + comps_tok(comps), "cmp": False, "impl": ""})
                ml = MLETTER.get("GET" if method == "OGET" else method, "X")
                im = step.get("im", ())
                ch = "~" if not w["children"] else ",".join(f"{hx(n)}:{1 if d else 0}"
                                                            for n, d in w["children"])
                tok = (f"R;{ml};{comps_tok(comps)};"
                       f"{int(bool(step.get('inm')))}{int(bool(im))}{int('empty' in im)};"
                       f"{'-' if b2 is None else f'{b2[0]}:{b2[1]}'};{w['stat']};"
                       f"{int(em)}{int(hit)}{int(w['pdir'])};{hx(tmp) if tmp else '-'};"
                       f"{ch};{'=' if w['content'] == last_content else w['content'].hex() or '-'}")
                last_content = w["content"]
                events.append({"tok": tok, "cmp": not (method == "OGET" and nba != "0"),
                               "impl": " ".join([outcome, b2s, pl, "nba=" + nba, "|"] + ops)})
            results.append({"events": events, "verdicts": verdicts, "outcome": outcome,
                            "ops": ops, "resp": resp, "stat": w["stat"], "disk": disk,
                            "payload": None if resp is None else resp.payload,
                            "more": bool(resp is not None and resp.opt.block2 is not None and resp.opt.block2.more)})
            before = after
        self.last_hash = before
        return results


# ------------------------------------------------------------------ generators ---------

ALPHA2 = ["", ".", "..", "a/b", "/", "/etc", "//", "\0", LONG255, LONG256, "é", "a", "d", "f16", "..."]
ALPHA3 = ["", ".", "..", "a", "/etc", "d"]
HOSTILE = ["", "", ".", "..", "..", "a/b", "/", "/etc", "//", "../", "..\\", "\0", "a\0b", LONG256, "%2e%2e",
           "%2F", "‮", "..∕", "․․", "etc", "hostname", "outside.txt", "srv", "...", "..a",
           ". ", " ", "~", "日本/語", "/" + "x" * 300, "a/../..", "../outside.txt"]
VALID_TARGETS = [("f16",), ("f0",), ("f1025",), ("f5000",), ("d", "x.txt"), ("d", "sub", "deep.txt"),
                 ("é.txt",), (LONG255,), ("d", ""), ("d", "e", ""), ("",), (), ("d", "sub", ""),
                 ("new.txt",), ("d", "new"), ("d", "e", "n"), ("sock",), ("d",), ("f16", ""),
                 ("nodir", "x"), ("f16", "x"), (".well-known", "core"), ("日本",), ("a b",)]
TABLE_TARGETS = [("f16",), ("nofile",), ("d",), ("d", ""), ("d", "e", ""), ("nodir", "x"), ("f16", "x"),
                 ("sock",), ("a\0",), (LONG256,), (), ("",), ("d", "sub", "deep.txt"), ("f16", ""),
                 ("..", "outside.txt"), ("", "etc", "hostname"), ("/etc",), ("a/b",), ("d", "..", "f16"),
                 (".",), ("d", "", "x.txt"), (".well-known", "core")]
IM_CHOICES = [(), ("match",), ("syn",), ("empty",), ("syn", "empty"), ("syn", "match")]
ET_CHOICES = [(), ("match",), ("syn",), ("syn", "match")]


def gen_comps(rng):
    r = rng.random()
    if r < 0.55:
        t = list(rng.choice(VALID_TARGETS))
        if t and rng.random() < 0.15:
            t[-1] = rng.choice(["n1", "n2", "é2", "x.txt", "f16"])
        if rng.random() < 0.1:
            t.append("")
        return t, False
    if r < 0.8:
        t = list(rng.choice(VALID_TARGETS))
        t.insert(rng.randrange(len(t) + 1), rng.choice(HOSTILE))
        return t, True
    return [rng.choice(HOSTILE + ["a", "d", "f16", "x.txt"]) for _ in range(rng.randrange(0, 5))], True


LW_TARGETS = [["f16"], ["f1025"], ["f5000"], ["f0"], ["d", "x.txt"], ["new.txt"], ["d", "sub", "deep.txt"], ["m.bin"]]


def gen_step(rng, write):
    comps, hostile = gen_comps(rng)
    m = rng.choices(["GET", "PUT", "DELETE", "POST", "FETCH", "PATCH", "iPATCH", "OBS", "OGET", "LW", "TICK"],
                    [45, 25 if write else 12, 18 if write else 10, 3, 2, 2, 2, 4, 5, 6, 3])[0]
    if m == "TICK":
        return {"m": "TICK"}, False
    if m == "LW":
        # somebody else changes a file below the root between two requests
        return {"m": "LW", "comps": list(rng.choice(LW_TARGETS)), "size": rng.choice(SIZES + [100, 1500, 3000]),
                "how": rng.choice(["inplace", "replace", "replace", "remove"]), "salt": rng.randrange(2)}, False
    step = {"m": m, "comps": comps}
    if m in ("OGET", "OBS"):
        if rng.random() < 0.7:
            step["comps"] = list(rng.choice(LW_TARGETS))
        step["end"] = rng.random() < 0.5
        if m == "OGET" and rng.random() < 0.3:
            step["b2"] = [rng.choice([0, 0, 1]), rng.randrange(8)]
    if m == "GET":
        if rng.random() < 0.35:
            step["et"] = list(rng.choice(ET_CHOICES))
        if rng.random() < 0.6:
            szx = rng.randrange(8)
            size = 2 ** (min(szx, 6) + 4)
            step["b2"] = [rng.choice([0, 0, 1, 2, 5000 // size, 5000 // size + 1, 1024 // size,
                                      1024 // size - 1 if size < 1024 else 0, rng.randrange(400)]), szx]
    if m in ("PUT", "DELETE"):
        step["im"] = list(rng.choice(IM_CHOICES)) if rng.random() < 0.5 else []
        step["inm"] = rng.random() < 0.25
        step["plen"] = rng.choice([0, 1, 16, 17, 1024, 3000])
    return step, hostile


def history_cases(env):
    rng = env.rng
    out = []
    for _ in range(env.scale(700, 12000)):
        write = rng.random() < 0.6
        case = {"kind": "R", "write": write, "etags": rng.random() < 0.8,
                "rootform": rng.choice(["plain", "plain", "slash"]), "steps": []}
        if rng.random() < 0.25:
            # the server as the command line builds it
            argv, etl = gen_argv(rng, write)
            case = {"kind": "R", "argv": argv, "write": write, "etags": etl != 0, "steps": []}
        for _ in range(rng.randrange(1, 7)):
            case["steps"].append(gen_step(rng, write)[0])
        out.append(case)
    return out


def focused_cases(env):
    """Random histories that stay on ONE file: observations (opened, ended, resource-level), block requests around
    the present end of the file, changes of its size behind the server's back and by PUT, refresh rounds, deletion --
    the soil for state remembered about a file (stat, size, content) going stale."""
    rng = env.rng
    out = []
    for _ in range(env.scale(160, 4000)):
        f = list(rng.choice([["m.bin"], ["f16"], ["d", "x.txt"], ["f1025"]]))
        write = rng.random() < 0.5
        size = {"m.bin": None, "f16": 16, "x.txt": 33, "f1025": 1025}[f[-1]]
        steps = []
        if size is None:
            size = rng.choice([0, 17, 100, 600, 1024, 1500])
            steps.append({"m": "LW", "comps": f, "size": size, "how": "replace"})
        for _ in range(rng.randrange(3, 10)):
            k = rng.choices(["B", "OGET", "OBS", "LW", "PUT", "TICK", "DELETE", "GET"],
                            [40, 10, 4, 16, 10 if write else 0, 12, 2 if write else 0, 6])[0]
            if k == "B":
                szx = rng.randrange(8)
                bs = 2 ** (min(szx, 6) + 4)
                last = (size or 0) // bs
                steps.append({"m": "GET", "comps": f, "b2": [max(0, rng.choice([0, last - 1, last, last, last + 1, rng.randrange(last + 2)])), szx]})
            elif k in ("OGET", "OBS"):
                steps.append({"m": k, "comps": f, "end": rng.random() < 0.5})
            elif k == "LW":
                how = rng.choice(["inplace", "replace", "replace", "remove"])
                size = None if how == "remove" else rng.choice([0, 1, 16, 17, 100, 600, 1023, 1024, 1025, 1500, 3000])
                steps.append({"m": "LW", "comps": f, "size": size or 0, "how": how, "salt": rng.randrange(2)})
            elif k == "PUT":
                size = rng.choice([0, 16, 17, 100, 600, 1024, 1025, 3000])
                steps.append({"m": "PUT", "comps": f, "plen": size, "im": [], "inm": False})
            elif k == "DELETE":
                size = None
                steps.append({"m": "DELETE", "comps": f, "im": []})
            elif k == "TICK":
                steps.append({"m": "TICK"})
            else:
                steps.append({"m": "GET", "comps": f})
        out.append({"kind": "R", "write": write, "etags": rng.random() < 0.8, "steps": steps})
    return out


# ---- S: the server as started from the command line ---------------------------------------------------------

# option groups of aiocoap-fileserver that have nothing to do with write permission (`--register` is left out: it
# starts network activity); the second element is the ETag length the group sets (None = leaves the default 8)
ARGV_NEUTRAL = [([], None), (["-v"], None), (["-vv"], None), (["-vvv"], None), (["--verbose"], None),
                (["--verbose", "-v"], None),
                (["--etag-length", "4"], 4), (["--etag-length=0"], 0), (["--etag-length", "7"], 7),
                (["--etag-length", "1"], 1),
                (["--bind", "[::1]:56830"], None), (["--bind", ":5683"], None), (["--bind=localhost"], None),
                (["--credentials", "/nonexistent/credentials.json"], None),
                (["--tls-server-certificate", "c.pem", "--tls-server-key", "k.pem"], None),
                (["--server-config", "/nonexistent/server.toml"], None)]
ARGV_WRITE = [["--write"], ["--wri"], ["--write", "--write"]]


def argv_table():
    """(argv, etag length) for: every neutral group alone, with `--write` before / after it, the root argument
    first / last / absent (the working directory is served), pairs of neutral groups."""
    out = []
    for g, etl in ARGV_NEUTRAL:
        e = 8 if etl is None else etl
        out.append((g + [ROOTARG], e))
        out.append(([ROOTARG] + g, e))
        out.append((["--write"] + g + [ROOTARG], e))
        out.append((g + ["--write", ROOTARG], e))
        out.append(([ROOTARG] + g + ["--write"], e))
        out.append((list(g), e))
        out.append((g + ["--write"], e))
    for w in ARGV_WRITE[1:]:
        out.append((w + [ROOTARG], 8))
        out.append((["-v"] + w + [ROOTARG], 8))
    for i in (1, 6, 10, 13):
        for j in (2, 7, 11, 14):
            g = ARGV_NEUTRAL[i][0] + ARGV_NEUTRAL[j][0]
            etl = ARGV_NEUTRAL[i][1] if ARGV_NEUTRAL[i][1] is not None else ARGV_NEUTRAL[j][1]
            if ARGV_NEUTRAL[i][1] is not None and ARGV_NEUTRAL[j][1] is not None:
                etl = ARGV_NEUTRAL[j][1]                # the later --etag-length wins
            out.append((g + [ROOTARG], 8 if etl is None else etl))
            out.append(([ROOTARG] + g, 8 if etl is None else etl))
    return out


def gen_argv(rng, write):
    groups = [rng.choice(ARGV_NEUTRAL) for _ in range(rng.randrange(0, 4))]
    etl = 8
    toks = []
    for g, e in groups:
        toks.append(list(g))
        if e is not None:
            etl = e
    if write:
        toks.insert(rng.randrange(len(toks) + 1), list(rng.choice(ARGV_WRITE)))
    if rng.random() < 0.8:
        toks.insert(rng.randrange(len(toks) + 1), [ROOTARG])
    return [t for g in toks for t in g], etl


WRITE_BATTERY = [
    {"m": "PUT", "comps": ["new.txt"], "plen": 20, "im": [], "inm": False},
    {"m": "GET", "comps": ["new.txt"]},
    {"m": "PUT", "comps": ["f16"], "plen": 17, "im": [], "inm": False},
    {"m": "PUT", "comps": ["d", "new"], "plen": 1, "im": [], "inm": False},
    {"m": "PUT", "comps": ["fresh.txt"], "plen": 3, "im": [], "inm": True},
    {"m": "PUT", "comps": ["f17"], "plen": 3, "im": ["empty"], "inm": False},
    {"m": "PUT", "comps": ["f1"], "plen": 0, "im": ["match"], "inm": False},
    {"m": "DELETE", "comps": ["f1023"], "im": []},
    {"m": "DELETE", "comps": ["d", "x.txt"], "im": []},
    {"m": "DELETE", "comps": ["f1024"], "im": ["match"]},
    {"m": "DELETE", "comps": ["f15"], "im": ["empty"]},
    {"m": "PUT", "comps": ["..", "outside.txt"], "plen": 5, "im": [], "inm": False},
    {"m": "DELETE", "comps": ["", "etc", "hostname"], "im": []},
    {"m": "GET", "comps": ["f16"]},
    {"m": "GET", "comps": ["f5000"], "b2": [2, 4]},
    {"m": "GET", "comps": [""]},
    {"m": "GET", "comps": []},
    {"m": "POST", "comps": ["f16"], "plen": 3},
]


SHORT_BATTERY = [WRITE_BATTERY[i] for i in (0, 2, 7, 9, 13, 15)]


def defaults_cases():
    return [{"kind": "R", "defaults": True, "write": False, "etags": True, "rootform": rf,
             "steps": [dict(st) for st in WRITE_BATTERY]} for rf in ("plain", "slash")]


def cli_cases():
    """every command line of the table with the short battery (create, replace, delete, conditional delete,
    read, list), every fourth one and the shortest ones with the full battery"""
    return [{"kind": "R", "argv": argv, "write": cli_grants_write(argv), "etags": etl != 0,
             "steps": [dict(st) for st in (WRITE_BATTERY if i % 4 == 0 or len(argv) <= 2 else SHORT_BATTERY)]}
            for i, (argv, etl) in enumerate(argv_table())]


# ---- M: a file that changes after it was observed -----------------------------------------------------------

M_FILE = "m.bin"
M_PAIRS = [(16, 5000), (1500, 5000), (1024, 1025), (1025, 1024), (5000, 17), (0, 2500), (2500, 0), (17, 16),
           (1023, 2500)]
M_HOW = ["put", "inplace", "replace"]
M_OBS = ["never", "active", "ended", "registered"]
M_TICK = ["none", "before", "after", "between"]     # between: change, refresh round, change again


def mutation_cases(env):
    """A file of one size that was (never / still / once) observed is replaced -- by PUT or behind the server's
    back -- by content of another size and then fetched block by block.  Quick: the full cross of
    how x observation x szx for a growing and a shrinking pair, the refresh tick before / after the change with
    a rotating szx, and every boundary pair for two combinations; thorough: the full cross."""
    out = []

    def mk(s1, s2, how, obs, tick, szx):
        out.append({"kind": "M", "s1": s1, "s2": s2, "how": how, "obs": obs, "tick": tick, "szx": szx})
    if env.thorough:
        for s1, s2 in M_PAIRS + [(100, 600), (600, 100)]:
            for how in M_HOW:
                for obs in M_OBS:
                    for tick in M_TICK:
                        for szx in range(8):
                            mk(s1, s2, how, obs, tick, szx)
        return out
    n = 0
    for s1, s2 in ((100, 600), (600, 100)):
        for how in M_HOW:
            for obs in M_OBS:
                for szx in range(8):
                    mk(s1, s2, how, obs, "none", szx)
                for tick in ("before", "after", "between"):
                    mk(s1, s2, how, obs, tick, n % 8)
                    n += 3
    for s1, s2 in M_PAIRS:
        for how, obs in (("put", "ended"), ("inplace", "active"), ("replace", "registered")):
            mk(s1, s2, how, obs, "none", n % 8)
            n += 3
    return out


def mutation_history(mc):
    """(history, index of the first fetch step)"""
    f = [M_FILE]
    steps = [{"m": "LW", "comps": f, "size": mc["s1"], "how": "replace"}]
    if mc["obs"] == "active":
        steps.append({"m": "OGET", "comps": f})
    elif mc["obs"] == "ended":
        steps.append({"m": "OGET", "comps": f, "end": True})
    elif mc["obs"] == "registered":
        steps += [{"m": "OBS", "comps": f}, {"m": "GET", "comps": f}]
    if mc["tick"] == "before":
        steps.append({"m": "TICK"})
    if mc["tick"] == "between":
        # a first change that a refresh round notices, then the change the fetch has to reflect
        mid = (mc["s1"] + mc["s2"]) // 2 + 1
        steps.append({"m": "LW", "comps": f, "size": mid, "how": "replace"})
        steps.append({"m": "TICK"})
    if mc["how"] == "put":
        steps.append({"m": "PUT", "comps": f, "plen": mc["s2"], "im": [], "inm": False})
    else:
        steps.append({"m": "LW", "comps": f, "size": mc["s2"], "how": mc["how"], "salt": 1})
    if mc["tick"] == "after":
        steps.append({"m": "TICK"})
    first = len(steps)
    size = 2 ** (min(mc["szx"], 6) + 4)
    nblocks = max(mc["s1"], mc["s2"]) // size + 1
    steps += [{"m": "GET", "comps": f, "b2": [k, mc["szx"]]} for k in range(nblocks + 1)]
    steps.append({"m": "GET", "comps": f})
    return {"kind": "R", "write": mc["how"] == "put", "etags": True, "steps": steps}, first


def table_cases():
    out = []
    for t in TABLE_TARGETS:
        for write in (False, True):
            for etags in (True, False):
                base = {"kind": "R", "write": write, "etags": etags}
                for et in ET_CHOICES:
                    out.append({**base, "steps": [{"m": "GET", "comps": list(t), "et": list(et)}]})
                out.append({**base, "steps": [{"m": "OBS", "comps": list(t)},
                                              {"m": "GET", "comps": list(t)},
                                              {"m": "GET", "comps": list(t), "b2": [1, 0]}]})
                for im in IM_CHOICES:
                    for inm in (False, True):
                        out.append({**base, "steps": [{"m": "PUT", "comps": list(t), "im": list(im),
                                                       "inm": inm, "plen": 20},
                                                      {"m": "GET", "comps": list(t)}]})
                    out.append({**base, "steps": [{"m": "DELETE", "comps": list(t), "im": list(im)},
                                                  {"m": "GET", "comps": list(t)}]})
                for m in ("POST", "FETCH", "PATCH", "iPATCH"):
                    out.append({**base, "steps": [{"m": m, "comps": list(t), "plen": 3}]})
    return out


def sibling_cases():
    """requests that spell, with a leading empty component, the absolute path of a neighbour of the root whose
    name extends the root's name (and of the root itself, and of a file inside it)"""
    out = []
    targets = [["", SCRATCH, "srv-private", "secret.txt"], ["", SCRATCH, "srv2", "secret.txt"],
               ["", SCRATCH, "srv.bak"], ["", SCRATCH, "srv-private", ""], ["", SCRATCH, "srv-private", "new.txt"],
               ["", SCRATCH, "srv", "f16"], ["", SCRATCH, "srv"], ["", SCRATCH, "outside.txt"],
               ["", "", SCRATCH, "srv2", "secret.txt"], ["d", "", SCRATCH, "srv2", "secret.txt"]]
    for t in targets:
        for write in (False, True):
            base = {"kind": "R", "write": write, "etags": True}
            out.append({**base, "steps": [{"m": "GET", "comps": t}, {"m": "GET", "comps": t, "b2": [0, 2]}]})
            out.append({**base, "steps": [{"m": "PUT", "comps": t, "im": [], "inm": False, "plen": 20},
                                          {"m": "GET", "comps": t}]})
            out.append({**base, "steps": [{"m": "DELETE", "comps": t, "im": []}, {"m": "GET", "comps": t}]})
    return out


def fetch_cases():
    return [{"kind": "F", "file": f"f{n}", "size": n, "szx": szx} for n in SIZES for szx in range(8)]


def fetch_history(fc):
    size = 2 ** (min(fc["szx"], 6) + 4)
    nblocks = fc["size"] // size + 1
    steps = [{"m": "GET", "comps": [fc["file"]], "b2": [k, fc["szx"]]} for k in range(nblocks + 2)]
    steps.append({"m": "GET", "comps": [fc["file"]], "b2": [nblocks + 1000, fc["szx"]]})
    steps.append({"m": "GET", "comps": [fc["file"]]})            # no Block2 option at all
    return {"kind": "R", "write": False, "etags": True, "steps": steps}


def fetch_oracle(fc, results, want=None):
    """Concatenate the payloads of blocks 0.. until more is false: must be the file."""
    size = 2 ** (min(fc["szx"], 6) + 4)
    if want is None:
        want = content_of(fc["size"])
    got = b""
    fc = {"file": M_FILE, **fc}
    for k, r in enumerate(results[:-2] if "size" in fc else results[:-1]):
        if r["resp"] is None or r["outcome"] != "2.05":
            return f"block {k} of {fc['file']} (szx {fc['szx']}) answered {r['outcome']}"
        if r["more"] and len(r["payload"]) != size:
            return f"block {k} of {fc['file']} (szx {fc['szx']}) has more=1 but {len(r['payload'])} bytes"
        got += r["payload"]
        if not r["more"]:
            break
    else:
        return f"fetch of {fc['file']} (szx {fc['szx']}) never reached a block with more=0"
    if got != want:
        return (f"block-wise fetch of {fc['file']} with szx {fc['szx']} gave {len(got)} bytes, differing "
                f"from the file's {len(want)} bytes")
    return ""


# ---- P and J ----------------------------------------------------------------------

P_ROOTS = ["/srv/files", ".", "rel/dir", "/", "//", "/srv/files/", "//x"]


def p_lists(env):
    rng = env.rng
    out = [[]]
    out += [[a] for a in ALPHA2]
    out += [[a, b] for a in ALPHA2 for b in ALPHA2]
    out += [[a, b, c] for a in ALPHA3 for b in ALPHA3 for c in ALPHA3]
    out += [list(t) for t in TABLE_TARGETS + VALID_TARGETS]
    for _ in range(env.scale(2500, 60000)):
        out.append(gen_comps(rng)[0])
    return out


def impl_localpath(impl, root, comps, jail):
    """request_to_localpath is pure path arithmetic; it still runs inside the jail so that a
    version that starts touching the file system cannot reach the (non-scratch) roots used here"""
    fs = impl.server(root, False, True)
    req = impl.request("GET", comps)
    jail.log, jail.refused = [], []
    with jail:
        try:
            p = fs.request_to_localpath(req)
        except impl.fsmod.InvalidPathError:
            return "err"
        except Refused:
            return "exc:Refused"
        except Exception as e:
            return "exc:" + type(e).__name__
        out = "ok " + pure_tok(p)
        try:
            run_coro(fs.add_observation(req, FakeObservation()))
        except Refused:
            return out + " exc:Refused"
    if list(fs._observations) != [p]:
        out += " observation-key-differs"
    if jail.log:
        out += " touched-fs:" + ",".join(sorted({e["fn"] for e in jail.log}))
    return out


J_TABLE = ["", "/", "//", "///", ".", "..", "a", "a/b", "/etc", "a/", "./", "../", "/a/b/", "//a", "///a//b",
           "a//b", "a/./b", "./a", "a/.", "é", "/tmp/x", "/tmp/x/", "\0", "a\0/b", " ", "...", "/.", "/..",
           "//.", ".//"]


def j_cases(env):
    rng = env.rng
    out = [(a, b) for a in J_TABLE for b in J_TABLE]
    pieces = ["/", "/", "//", ".", "..", "a", "b", "é", "", "/./", "x/"]
    for _ in range(env.scale(2500, 60000)):
        a = "".join(rng.choice(pieces) for _ in range(rng.randrange(0, 6)))
        b = "".join(rng.choice(pieces) for _ in range(rng.randrange(0, 6)))
        out.append((a, b))
    return out


# ------------------------------------------------------------------ run ----------------


_PER_KEY = {}


def ofail(rep, case, text, key):
    """at most 6 recorded failures per key, so that one defect does not crowd out another"""
    _PER_KEY[key] = _PER_KEY.get(key, 0) + 1
    if _PER_KEY[key] <= 6:
        rep.oracle_fail(case, text, key=key)
    else:
        rep.count("oracle_failure_not_recorded:" + key)


def register(rep, case, res, hostile_hint=None):
    nontriv = bool(res["ops"]) or res["outcome"] == "4.00"
    rep.case(case, nontrivial=nontriv, sample_every=800)
    rep.count("R:outcome=" + res["outcome"])
    rep.count("R:stat=" + res["stat"])
    for o in res["ops"]:
        rep.count("R:op=" + o[0])
    for text, key in res["verdicts"]:
        ofail(rep, case, text, key)


def bare_root_cases(env, rep, impl):
    """An otherwise EMPTY served root whose parent directory holds nothing else (`<tmp>/outer/served`), writes
    enabled: requests that fail half way (a name the OS refuses in a directory that does not exist yet, a missing
    file, a path outside) must leave the root itself, its parent and the neighbour `<tmp>/keep` as they were.
    Oracle only (the model's tree is never empty)."""
    d = scratch_dir("c19-bare-")
    try:
        for forbidden in ("/repo", "/verif", VERIF, env.repo):
            if inside(d, os.path.realpath(forbidden)):
                raise HarnessError(f"scratch directory {d} is inside {forbidden}")
        os.makedirs(d + "/keep")
        with open(d + "/keep/file", "wb") as f:
            f.write(b"neighbour")
        root = d + "/outer/served"
        os.makedirs(root)
        fs = impl.server(root, True, False)
        steps = [("PUT", ["newdir", "x\0y"]), ("PUT", ["newdir", "n" * 300]), ("PUT", ["a", "b", "c\0"]),
                 ("PUT", ["newdir", "sub", "n" * 300]), ("DELETE", ["gone"]), ("GET", ["gone"]),
                 ("PUT", ["..", "escape"]), ("PUT", ["", d.strip("/").split("/")[0], "x"]),
                 ("DELETE", []), ("PUT", ["newdir", ""]), ("DELETE", ["newdir", "n" * 300])]
        for method, comps in steps:
            case = {"kind": "B", "m": method, "comps": comps}
            rep.case(case, nontrivial=True, sample_every=7)
            rep.count("bare-root:" + method)
            req = impl.request(method, comps, b"payload" if method == "PUT" else b"")
            try:
                run_coro(fs.render(req))
            except Exception:
                pass                      # which code the request gets is judged by the ordinary levels
            gone = [p for p in (root, d + "/outer", d + "/keep/file") if not os.path.exists(p)]
            changed = os.path.exists(d + "/keep/file") and open(d + "/keep/file", "rb").read() != b"neighbour"
            extra = sorted(set(os.listdir(d)) - {"keep", "outer"}) + sorted(set(os.listdir(d + "/outer")) - {"served"}) \
                if not gone else []
            if gone or changed or extra:
                ofail(rep, case, f"{method} {comps!r} on an empty root: " +
                      (f"removed {[g[len(d):] for g in gone]}" if gone else
                       "changed the neighbour" if changed else f"created {extra} outside the root"),
                      "outside-root-touched")
                break
    finally:
        shutil.rmtree(d, ignore_errors=True)


def run(env, rep):
    _PER_KEY.clear()
    corpus = [c for _, c in load_corpus("C19")]

    # --- J: the pathlib restatement
    jc = [tuple(c["j"]) for c in corpus if c.get("kind") == "J"] + j_cases(env)
    lines, outs = [], []
    for a, b in jc:
        p = PurePosixPath(a, b)
        lines.append(f"C19 J {hx(a)} {hx(b)}")
        outs.append(pure_tok(p) + " " + hx(str(p)))
        rep.case({"kind": "J", "a": a, "b": b}, nontrivial=bool(b), sample_every=3000)
        rep.count("J:anchor=" + p.root)
        rep.count("J:right-absolute=" + str(b.startswith("/")))
    compare(env, rep, jc, lines, outs, what="pathlib join")

    runner = Runner(env, rep)
    try:
        impl = runner.impl
        bare_root_cases(env, rep, impl)
        # --- P: request_to_localpath
        pcs = [(c["root"], c["comps"]) for c in corpus if c.get("kind") == "P"]
        lists = p_lists(env)
        for i, comps in enumerate(lists):
            pcs.append((P_ROOTS[0] if i % 2 else P_ROOTS[i // 2 % len(P_ROOTS)], comps))
        lines, outs = [], []
        for root, comps in pcs:
            lines.append(f"C19 P {pure_tok(PurePosixPath(root))} {comps_tok(comps)}")
            o = impl_localpath(impl, root, comps, runner.sc.jail)
            outs.append(o)
            case = {"kind": "P", "root": root, "comps": comps}
            rep.case(case, nontrivial=bool(comps), sample_every=3000)
            rep.count("P:" + o.split(" ")[0])
            rep.count("P:len=%d" % min(len(comps), 5))
            if o.startswith("ok"):
                # oracle: the result is lexically inside the root
                ps = tok_to_str(o.split(" ")[1])
                rs = str(PurePosixPath(root))
                if not inside(lexical_abs("/cwd", ps), lexical_abs("/cwd", rs)) or \
                        ps.startswith("/") != rs.startswith("/"):
                    ofail(rep, case, f"request_to_localpath({comps!r}) under {root!r} gives {ps!r}, "
                          f"outside the root", "localpath-outside-root")
        compare(env, rep, pcs, lines, outs, what="request_to_localpath")

        # --- R: requests in the scratch tree
        hist = [c for c in corpus if c.get("kind") == "R"] + table_cases() + sibling_cases() + cli_cases() + defaults_cases()
        fcs = fetch_cases()
        mcs = [c for c in corpus if c.get("kind") == "M"] + mutation_cases(env)
        hist += history_cases(env) + focused_cases(env)
        allcomps = {tuple(expand(s["comps"], runner.sc)) for c in hist for s in c["steps"] if "comps" in s}
        allcomps |= {(fc["file"],) for fc in fcs} | {(M_FILE,)}
        allcomps = sorted(allcomps)
        mouts = env.lean([f"C19 P {runner.root_tok} {comps_tok(c)}" for c in allcomps])
        model_paths = {c: (o[3:] if o.startswith("ok ") else None) for c, o in zip(allcomps, mouts)}

        # --- A: what the command line makes of the server (model of the parser vs the program's own start-up)
        argvs = sorted({tuple(c["argv"]) for c in hist if c.get("argv") is not None})
        aouts = env.lean(["C19 A " + " ".join(hx(runner.sc.root if a == ROOTARG else a) for a in av)
                          for av in argvs])
        cli_model = dict(zip(argvs, aouts))
        cli_impl = {}

        pending = []          # (history, sub-cases per step, results) waiting for the model
        npending = [0]

        def flush():
            """one `C19 H` line per history; the model's outputs are compared event by event"""
            batch = []
            for c, subs, results in pending:
                if c.get("argv") is None:
                    cfg = f"{int(c['write'])}{int(c['etags'])} {runner.root_tok}"
                else:
                    m = cli_model[tuple(c["argv"])]
                    if not m.startswith("ok "):
                        rep.out_of_model += 1
                        rep.count("S:history-not-compared:" + m)
                        continue
                    f = dict(x.split("=") for x in m.split(" ")[1:])
                    cfg = f"{f['write']}{int(f['etag'] != '0')} {f['root']}"
                evs = [(i, e) for i, r in enumerate(results) for e in r["events"]]
                if evs:
                    batch.append((subs, evs, f"C19 H {cfg} " + " ".join(e["tok"] for _, e in evs)))
            pending.clear()
            mouts = env.lean([line for _, _, line in batch])
            for (subs, evs, line), mout in zip(batch, mouts):
                if mout == "bad-op":
                    raise HarnessError(f"driver rejected line: {line[:300]}")
                parts = mout.split(" ;; ")
                if len(parts) != len(evs):
                    raise HarnessError(f"driver returned {len(parts)} outputs for {len(evs)} events")
                for (i, e), m in zip(evs, parts):
                    if not e["cmp"]:
                        continue
                    rep.traces += 1
                    if m != e["impl"]:
                        rep.disagree({"case": subs[i], "line": line[:2000], "event": e["tok"][:300]},
                                     m[:2000], e["impl"][:2000], "FileServer history")

        def run_hist(c, single=False):
            results = runner.run_history(c, model_paths)
            if c.get("argv") is not None:
                rep.count("S:started" if results is not None else "S:parser-refused")
                rep.count("S:write-permission=%d" % cli_grants_write(c["argv"]))
                rep.count("S:root=" + ("argument" if ROOTARG in c["argv"] else "working-directory"))
                cli_impl[tuple(c["argv"])] = runner.last_cli
            if results is None:
                rep.case(c, nontrivial=False)
                return None
            indep = single or (not c["write"] and c.get("argv") is None and
                               all(s["m"] in ("GET", "PUT", "DELETE", "POST", "FETCH", "PATCH", "iPATCH")
                                   for s in c["steps"]))
            subs = []
            for i, res in enumerate(results):
                sub = {**c, "steps": [c["steps"][i]] if indep else c["steps"][: i + 1]}
                subs.append(sub)
                register(rep, sub, res)
                rep.count("R:method=" + c["steps"][i]["m"])
                rep.count("R:write=%d" % c["write"])
            pending.append((c, subs, [{"events": r["events"]} for r in results]))
            npending[0] += len(results)
            if npending[0] > 9000:
                npending[0] = 0
                flush()
            return results

        for c in hist:
            run_hist(c)
        for mc in mcs:
            h, first = mutation_history(mc)
            results = run_hist(h)
            rep.case(mc, nontrivial=True, sample_every=97)
            rep.count(f"M:how={mc['how']}"), rep.count(f"M:obs={mc['obs']}"), rep.count(f"M:tick={mc['tick']}")
            rep.count("M:grows=%d" % (mc["s2"] > mc["s1"]))
            v = fetch_oracle(mc, results[first:], results[first]["disk"])
            if v:
                ofail(rep, mc, v + f" (after: {mc['s1']} bytes, observation {mc['obs']}, tick {mc['tick']}, "
                      f"replaced via {mc['how']} by {mc['s2']} bytes)", f"blockwise-mismatch-after-change:szx={mc['szx']}")
        for fc in fcs:
            results = run_hist(fetch_history(fc), single=True)
            rep.count("F:szx=%d" % fc["szx"], len(results))
            v = fetch_oracle(fc, results)
            rep.case(fc, nontrivial=True)
            if v:
                ofail(rep, fc, v, f"blockwise-mismatch:szx={fc['szx']}")
        flush()
        # the A lines: the parser model against what the program's own start-up built
        for av in argvs:
            if av not in cli_impl:
                continue
            case = {"kind": "A", "argv": list(av)}
            rep.case(case, nontrivial=True, sample_every=50)
            rep.count("A:" + cli_impl[av].split(" ")[0])
            m = cli_model[av]
            if m == "bad-op":
                raise HarnessError(f"driver rejected the command line {av!r}")
            if m == "out-of-model":
                rep.out_of_model += 1
                continue
            rep.traces += 1
            if m != cli_impl[av]:
                rep.disagree({"case": case, "line": "C19 A " + " ".join(hx(a) for a in av)}, m, cli_impl[av],
                             "command line")
        rep.exhaustive_parts.append("every block (and two past the end) of every boundary-size file for szx 0..7")
        rep.exhaustive_parts.append("all Uri-Path lists of length <= 2 over 15 symbols and length 3 over 6 symbols")
        for k in () if (rep.oracle_failures or rep.disagreements) else ("R:outcome=2.05", "R:outcome=4.00", "R:outcome=2.04", "R:outcome=2.02", "R:outcome=4.03",
                  "R:outcome=4.12", "R:outcome=crash", "R:op=T", "R:op=L", "R:op=O", "R:op=U", "S:started",
                  "S:write-permission=0", "S:write-permission=1", "S:root=working-directory", "M:obs=active",
                  "M:obs=ended", "M:grows=1", "M:grows=0", "R:method=OGET", "R:method=TICK", "R:method=LW"):
            if not rep.hist.get(k):
                raise HarnessError(f"generator never produced {k}")
        if os.path.exists("/tmp/c19-should-never-exist"):
            raise HarnessError("a file outside the scratch directory was created")
    finally:
        runner.close()


def replay(env, case):
    kind = case.get("kind")
    if kind == "J":
        return ""
    if kind == "B":
        class Sink:
            def __init__(self):
                self.failures = []

            def case(self, *a, **k):
                pass

            def count(self, *a, **k):
                pass

            def oracle_fail(self, case, text, key=None):
                self.failures.append(text)

        sink = Sink()
        _PER_KEY.clear()
        bare_root_cases(env, sink, Impl(env))          # the whole (short) sequence: later steps depend on earlier ones
        return sink.failures[0] if sink.failures else ""
    if kind == "P":
        impl = Impl(env)
        d = scratch_dir("c19-")
        try:
            o = impl_localpath(impl, case["root"], case["comps"], Jail(d))
        finally:
            shutil.rmtree(d, ignore_errors=True)
        if o.startswith("ok"):
            ps, rs = tok_to_str(o.split(" ")[1]), str(PurePosixPath(case["root"]))
            if not inside(lexical_abs("/cwd", ps), lexical_abs("/cwd", rs)) or \
                    ps.startswith("/") != rs.startswith("/"):
                return f"request_to_localpath({case['comps']!r}) under {case['root']!r} gives {ps!r}"
        return ""
    runner = Runner(env)
    try:
        if kind == "F":
            return fetch_oracle(case, runner.run_history(fetch_history(case)))
        if kind == "M":
            h, first = mutation_history(case)
            results = runner.run_history(h)
            for res in results:
                if res["verdicts"]:
                    return res["verdicts"][0][0]
            return fetch_oracle(case, results[first:], results[first]["disk"])
        for res in runner.run_history(case) or []:
            if res["verdicts"]:
                return res["verdicts"][0][0]
        return ""
    finally:
        runner.close()
