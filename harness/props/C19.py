"""C19 — the file server never touches anything outside its root directory.

Correspondence (model ≈ code), all through the Lean driver:
  J  the Lean restatement of pathlib (`posixpath.join` + `_parse_path` + `__str__`) vs the real
     `PurePosixPath(a, b)` on boundary and random strings;
  P  `FileServer.request_to_localpath` (and the key `add_observation` stores) vs
     `requestToLocalPath` for several root forms;
  R  `FileServer.render` / `needs_blockwise_assembly` on wire-decoded requests in a scratch
     tree vs `handle`: response code, Block2, payload and the exact sequence of file-system
     calls (as seen by the jail of harness/c19_jail.py), with the operating system's answers
     (stat kind, directory entries, file bytes, ETag hits) measured by the harness beforehand
     and given to the model as its `World`.
Oracle (independent reading of the property over the jail's log and the tree):
  every call names a path inside the root (nothing was refused by the jail); without write
  the tree (names, types, sizes, contents, mtimes, inodes) is unchanged and no modifying call
  was made; a request whose naive path leaves the root is answered with an error and changes
  nothing; a block-wise fetch of a file, for every szx, equals the file's content.
Nothing outside the scratch directory is read or modified: the jail refuses such calls.
"""
import errno
import hashlib
import logging
import mimetypes
import os
import posixpath
import shutil
import stat as statmod
import tempfile
from pathlib import Path, PurePosixPath

from common import compare, load_corpus, HarnessError, VERIF
from c19_jail import Jail, Refused, inside, lexical_abs, entry_modifies

RULE = ("J: pairs over a table of path-significant strings (all pairs) + random concatenations. "
        "P: Uri-Path lists = all lists of length <= 2 over a 15-symbol alphabet ('', '.', '..', 'a/b', "
        "'/', '/etc', '//', NUL, 255/256-char, Unicode, plain names), all length-3 lists over 6 symbols, "
        "plus random lists, for absolute/relative/'/'/'//' roots. R: requests decoded from wire bytes and "
        "rendered by the real FileServer in a scratch tree (files of 0/1/15/16/17/1023/1024/1025/2500/5000 "
        "bytes, nested dirs, a non-regular node): full table targets x methods x write x etag config x "
        "If-None-Match x If-Match x ETag; every block of every file for szx 0..7 (+ blocks past the end); "
        "random histories of 1-6 requests (55% paths into the tree, 45% hostile mutations/random lists). "
        "A case is non-trivial when the request reached the file system or was rejected by the path check "
        "(J/P: a non-empty right operand / component list); distinct by the full case.")
TRUSTED = ["interception of file-system access at the os/io/builtins/shutil module attributes "
           "(harness/c19_jail.py); C-level access that bypasses them would not be seen",
           "mimetypes' one-time database load is done before the jail is active"]
ASSUMPTIONS = ["no symbolic links inside the root and no concurrent modification (TOCTOU) -- OS behaviour "
               "outside the lexical model",
               "directory entry names returned by the OS and names chosen by tempfile are single proper "
               "components (hypothesis World.wf of C19_ops_confined)"]

SIZES = [0, 1, 15, 16, 17, 1023, 1024, 1025, 2500, 5000]
LONG255 = "L" * 255
LONG256 = "y" * 256
METHODS = ["GET", "PUT", "DELETE", "POST", "FETCH", "PATCH", "iPATCH"]
MLETTER = {"GET": "G", "PUT": "P", "DELETE": "D"}

# ------------------------------------------------------------------ tokens -------------


def hx(s):
    return s.encode("utf-8").hex() or "-"


SCRATCH = "\u0001scratch\u0001"      # stands for the components of the scratch directory's absolute path


def expand(comps, sc):
    out = []
    for c in comps:
        out += sc.dir.strip("/").split("/") if c == SCRATCH else [c]
    return out


def comps_tok(comps):
    return "~" if not comps else ",".join(hx(c) for c in comps)


def path_tok(raw):
    """anchor + parts of an absolute or relative path string, as asked (no normalisation
    beyond dropping empty pieces)"""
    n = len(raw) - len(raw.lstrip("/"))
    anchor = 0 if n == 0 else (2 if n == 2 else 1)
    return f"{anchor}:" + ",".join(hx(p) for p in raw.split("/") if p)


def pure_tok(p):
    anchor = {"": 0, "/": 1, "//": 2}[p.root]
    parts = p.parts[1:] if p.root else p.parts
    return f"{anchor}:" + ",".join(hx(x) for x in parts)


def tok_to_str(tok):
    a, parts = tok.split(":")
    parts = [bytes.fromhex(x).decode("utf-8") for x in parts.split(",") if x]
    s = "/" * int(a) + "/".join(parts)
    return s or "."


def content_of(n):
    return bytes((i * 37 + (i >> 8) * 11 + n) & 0xFF for i in range(n))


# ------------------------------------------------------------------ scratch tree -------


class Scratch:
    """A directory outside /repo and /verif: `<scratch>/srv` is the server's root,
    `<scratch>/outside.txt` a neighbour that must never be touched."""

    def __init__(self, env):
        d = os.path.realpath(tempfile.mkdtemp(prefix="c19-"))
        for forbidden in ("/repo", "/verif", VERIF, env.repo):
            if inside(d, os.path.realpath(forbidden)):
                shutil.rmtree(d)
                raise HarnessError(f"scratch directory {d} is inside {forbidden}")
        self.dir = d
        self.root = d + "/srv"
        self.jail = Jail(d)
        self._hcache = {}
        self.build()

    def build(self):
        if os.path.exists(self.root):
            shutil.rmtree(self.root)
        os.mkdir(self.root)
        with open(self.dir + "/outside.txt", "wb") as f:
            f.write(b"secret outside the root")
        # neighbours whose absolute path EXTENDS the root's path as a string (a containment test on strings instead
        # of path components takes them for part of the root)
        for sib in ("srv-private", "srv2"):
            os.makedirs(f"{self.dir}/{sib}", exist_ok=True)
            with open(f"{self.dir}/{sib}/secret.txt", "wb") as f:
                f.write(b"secret in a sibling directory")
        with open(self.dir + "/srv.bak", "wb") as f:
            f.write(b"secret backup beside the root")
        for n in SIZES:
            with open(f"{self.root}/f{n}", "wb") as f:
                f.write(content_of(n))
        os.makedirs(self.root + "/d/e")
        os.makedirs(self.root + "/d/sub")
        for name, n in (("d/x.txt", 33), ("d/sub/deep.txt", 100), ("é.txt", 5), (LONG255, 3)):
            with open(f"{self.root}/{name}", "wb") as f:
                f.write(content_of(n))
        try:
            os.mknod(self.root + "/sock", 0o600 | statmod.S_IFSOCK)
        except OSError:
            os.mkfifo(self.root + "/sock")
        self.pristine = self.tree_hash()

    def tree_hash(self):
        """names, types, and for files size/mtime/inode/content (directory mtimes excluded: a
        temp file created and removed again is not a change of the tree)"""
        out = []
        stack = [self.dir]
        while stack:
            d = stack.pop()
            for name in sorted(os.listdir(d)):
                p = d + "/" + name
                st = os.lstat(p)
                if statmod.S_ISDIR(st.st_mode):
                    out.append(("d", p))
                    stack.append(p)
                elif statmod.S_ISREG(st.st_mode):
                    k = (st.st_ino, st.st_mtime_ns, st.st_size)
                    h = self._hcache.get(k)
                    if h is None:
                        with open(p, "rb") as f:
                            h = hashlib.blake2b(f.read(), digest_size=8).hexdigest()
                        if len(self._hcache) > 5000:
                            self._hcache.clear()
                        self._hcache[k] = h
                    out.append(("f", p, k, h))
                else:
                    out.append(("x", p, statmod.S_IFMT(st.st_mode)))
        return hashlib.blake2b(repr(out).encode(), digest_size=12).hexdigest()

    def close(self):
        shutil.rmtree(self.dir, ignore_errors=True)

    # what the operating system would answer for `p` (a path string inside the scratch dir)
    def inspect(self, p):
        w = {"stat": "a", "content": b"", "children": [], "pdir": False, "st": None}
        if not inside(lexical_abs("/", p), self.dir):
            return w
        try:
            st = os.stat(p)
        except FileNotFoundError:
            st = None
        except ValueError:
            w["stat"] = "s"
            st = None
        except OSError as e:
            w["stat"] = "s" if e.errno in (errno.ENOTDIR, errno.ELOOP, errno.EBADF) else "h"
            st = None
        if st is not None:
            w["st"] = st
            if statmod.S_ISDIR(st.st_mode):
                w["stat"] = "d"
                for name in os.listdir(p):
                    try:
                        isd = statmod.S_ISDIR(os.stat(p + "/" + name).st_mode)
                    except OSError:
                        isd = False
                    w["children"].append((name, isd))
            elif statmod.S_ISREG(st.st_mode):
                w["stat"] = "f"
                with open(p, "rb") as f:
                    w["content"] = f.read()
            else:
                w["stat"] = "x"
        parent = posixpath.dirname(p.rstrip("/")) or "/"
        w["pdir"] = inside(lexical_abs("/", parent), self.dir) and os.path.isdir(parent)
        return w


# ------------------------------------------------------------------ driving the code ---


def run_coro(c):
    try:
        c.send(None)
    except StopIteration as e:
        return e.value
    c.close()
    raise HarnessError("FileServer coroutine suspended (the harness has no event loop)")


class FakeObservation:
    def __init__(self):
        self.cancel = None

    def trigger(self, *a, **k):
        pass

    def accept(self, cb):
        self.cancel = cb


class Impl:
    def __init__(self, env):
        self.aiocoap = env.import_repo()
        import aiocoap.cli.fileserver as fsmod
        import aiocoap.error
        self.fsmod = fsmod
        self.error = aiocoap.error
        self.log = logging.getLogger("c19-fileserver")
        __import__("common").quiet(self.log)
        mimetypes.init()
        self.codes = {m: getattr(self.aiocoap.Code, m.upper() if m != "iPATCH" else "iPATCH")
                      for m in METHODS}

    def server(self, root, write, etags):
        return self.fsmod.FileServer(Path(root), self.log, write=write, etag_length=8 if etags else 0)

    def request(self, method, comps, payload=b"", inm=False, if_match=(), etags=(), b2=None):
        A = self.aiocoap
        m = A.Message(code=self.codes[method], payload=payload)
        m.opt.uri_path = tuple(comps)
        if inm:
            m.opt.if_none_match = True
        if if_match:
            m.opt.if_match = list(if_match)
        if etags:
            m.opt.etags = list(etags)
        if b2 is not None:
            m.opt.block2 = (b2[0], False, b2[1])
        m.mid = 1
        m.mtype = A.CON
        m.token = b"\x01"
        return A.Message.decode(m.encode())          # INCOMING, options as parsed from the wire


def canon_ops(cwd, log):
    """The logged calls in the model's op alphabet (+ W/X for anything the model never does)."""
    ops, tmp = [], None
    for e in log:
        fn = e["fn"]
        if not e["raw"]:
            continue
        t = [path_tok(posixpath.join(cwd, r)) for r in e["raw"]]
        if fn in ("stat", "lstat"):
            ops.append("S" + t[0])
        elif fn in ("listdir", "scandir"):
            ops.append("L" + t[0])
        elif fn in ("unlink", "remove"):
            ops.append("U" + t[0])
        elif fn in ("mkdir", "makedirs"):
            ops.append("M" + t[0])
        elif fn == "rmdir":
            ops.append("D" + t[0])
        elif fn in ("rename", "replace") and len(t) == 2:
            ops.append("R" + t[0] + ">" + t[1])
        elif fn == "open":
            fl = e["flags"] or 0
            full = posixpath.join(cwd, e["raw"][0])
            if fl & os.O_CREAT and fl & os.O_EXCL:
                ops.append("T" + path_tok(posixpath.dirname(full)))
                tmp = posixpath.basename(full)
            elif entry_modifies(e):
                ops.append("W" + t[0])
            else:
                ops.append("O" + t[0])
        elif fn in ("io.open", "builtins.open"):
            if e["opener"]:
                continue
            ops.append(("W" if entry_modifies(e) else "O") + t[0])
        else:
            ops.append("X" + fn + ":" + t[0])
    return ops, tmp


def naive_escapes(root, comps):
    """Independent reading of 'a request that would lead anywhere else': joining the components
    to the root -- by plain concatenation or with an absolute operand replacing the left side --
    names something outside the root."""
    j = "/".join(comps)
    a = posixpath.normpath(root + "/" + j)
    b = posixpath.normpath(posixpath.join(root, j))
    return not (inside(a, root) and inside(b, root))


def if_match_values(tags, etag):
    out = []
    for t in tags:
        if t == "match":
            out.append(etag if etag is not None else b"nomatch!")
        elif t == "syn":
            out.append(b"synthetc")
        elif t == "empty":
            out.append(b"")
    return out


class Runner:
    """Executes histories against the real FileServer inside the scratch tree."""

    def __init__(self, env, rep=None):
        self.env = env
        self.rep = rep
        self.impl = Impl(env)
        self.sc = Scratch(env)
        self.root_tok = path_tok(self.sc.root)

    def close(self):
        self.sc.close()

    def run_history(self, case, model_paths=None):
        """Returns a list of per-step dicts {line, impl, verdicts[(text,key)], nontrivial, tags}."""
        sc, impl = self.sc, self.impl
        if sc.tree_hash() != sc.pristine:
            sc.build()
        write, etags = case["write"], case["etags"]
        rootform = sc.root + ("/" if case.get("rootform") == "slash" else "")
        fs = impl.server(rootform, write, etags)
        before = sc.pristine
        results = []
        for step in case["steps"]:
            comps = expand(step["comps"], sc)
            method = step["m"]
            mp = (model_paths or {}).get(tuple(comps))
            # what the OS would say about the path the model computed (model lines only)
            w = sc.inspect(tok_to_str(mp)) if mp else sc.inspect("/nonexistent-outside")
            naive = sc.root + "/" + "/".join(comps)
            etag_now = None
            try:
                if inside(lexical_abs("/", naive), sc.root) and "\0" not in naive:
                    etag_now = fs.hash_stat(os.stat(naive))
            except OSError:
                etag_now = None
            imv = if_match_values(step.get("im", ()), etag_now)
            etv = if_match_values(step.get("et", ()), etag_now)
            em = bool(w["st"] is not None and etags and fs.hash_stat(w["st"]) in etv)
            hit = bool(w["st"] is not None and etags and fs.hash_stat(w["st"]) in imv)
            obs = any(v[0] is None and mp is not None and path_tok(str(k)) == mp
                      for k, v in fs._observations.items())
            payload = content_of(step.get("plen", 0))[::-1]
            req = impl.request("GET" if method == "OBS" else method, comps, payload,
                               step.get("inm", False), imv, etv, step.get("b2"))
            jail = sc.jail
            jail.log, jail.refused = [], []
            outcome, b2s, pl, nba = "crash", "-", "-", "?"
            resp = None
            with jail:
                try:
                    if method == "OBS":
                        run_coro(fs.add_observation(req, FakeObservation()))
                        outcome = "obs"
                    else:
                        nba = "1" if run_coro(fs.needs_blockwise_assembly(req)) else "0"
                        resp = run_coro(fs.render(req))
                        outcome = resp.code.dotted
                except Refused:
                    outcome = "crash"
                except impl.error.RenderableError as e:
                    outcome = e.to_message().code.dotted
                except HarnessError:
                    raise
                except Exception:
                    outcome = "crash"
            if resp is not None:
                b = resp.opt.block2
                b2s = "-" if b is None else f"{b.block_number}:{1 if b.more else 0}:{b.size_exponent}"
                if outcome[0] == "2":
                    pl = resp.payload.hex() or "-"
            ops, tmp = canon_ops(jail.cwd, jail.log)
            after = sc.tree_hash()
            # ---- oracle -------------------------------------------------------------
            verdicts = []
            for e in jail.refused:
                verdicts.append((f"{method} {comps!r}: {e['fn']}({e['abs']}) outside the scratch "
                                 f"directory was attempted (refused)", "outside-scratch:" + e["fn"]))
            for e in jail.log:
                for ab in e["abs"]:
                    if e["exc"] != "Refused" and not inside(ab, sc.root):
                        verdicts.append((f"{method} {comps!r}: {e['fn']}({ab}) is outside the root "
                                         f"{sc.root}", "outside-root:" + e["fn"]))
            if not write:
                if after != before:
                    verdicts.append((f"{method} {comps!r} changed the tree although write is off",
                                     "modified-without-write:" + method))
                mods = [e["fn"] for e in jail.log if entry_modifies(e)]
                if mods:
                    verdicts.append((f"{method} {comps!r} made modifying calls {mods} although write "
                                     f"is off", "modifying-call-without-write:" + method))
            if method != "OBS" and naive_escapes(sc.root, comps):
                if outcome[0] not in "45c":
                    verdicts.append((f"{method} {comps!r} leads outside the root but was answered "
                                     f"{outcome}", "hostile-not-rejected"))
                if after != before:
                    verdicts.append((f"{method} {comps!r} leads outside the root and changed the tree",
                                     "hostile-had-effect"))
            # ---- model line ---------------------------------------------------------
            line = None
            if method != "OBS":
                ml = MLETTER.get(method, "X")
                im = step.get("im", ())
                b2 = step.get("b2")
                ch = "~" if not w["children"] else ",".join(f"{hx(n)}:{1 if d else 0}"
                                                            for n, d in w["children"])
                line = (f"C19 R {int(write)}{int(etags)} {self.root_tok} {ml} {comps_tok(comps)} "
                        f"{int(bool(step.get('inm')))}{int(bool(im))}{int('empty' in im)} "
                        f"{'-' if b2 is None else f'{b2[0]}:{b2[1]}'} {w['stat']} "
                        f"{int(em)}{int(hit)}{int(obs)}{int(w['pdir'])} {hx(tmp) if tmp else '-'} "
                        f"{ch} {w['content'].hex() or '-'}")
            implout = " ".join([outcome, b2s, pl, "nba=" + nba, "|"] + ops)
            results.append({"line": line, "impl": implout, "verdicts": verdicts, "outcome": outcome,
                            "ops": ops, "resp": resp, "stat": w["stat"], "payload": None if resp is None else resp.payload,
                            "more": bool(resp is not None and resp.opt.block2 is not None and resp.opt.block2.more)})
            before = after
        return results


# ------------------------------------------------------------------ generators ---------

ALPHA2 = ["", ".", "..", "a/b", "/", "/etc", "//", "\0", LONG255, LONG256, "é", "a", "d", "f16", "..."]
ALPHA3 = ["", ".", "..", "a", "/etc", "d"]
HOSTILE = ["", "", ".", "..", "..", "a/b", "/", "/etc", "//", "../", "..\\", "\0", "a\0b", LONG256, "%2e%2e",
           "%2F", "‮", "..∕", "․․", "etc", "hostname", "outside.txt", "srv", "...", "..a",
           ". ", " ", "~", "日本/語", "/" + "x" * 300, "a/../..", "../outside.txt"]
VALID_TARGETS = [("f16",), ("f0",), ("f1025",), ("f5000",), ("d", "x.txt"), ("d", "sub", "deep.txt"),
                 ("é.txt",), (LONG255,), ("d", ""), ("d", "e", ""), ("",), (), ("d", "sub", ""),
                 ("new.txt",), ("d", "new"), ("d", "e", "n"), ("sock",), ("d",), ("f16", ""),
                 ("nodir", "x"), ("f16", "x"), (".well-known", "core"), ("日本",), ("a b",)]
TABLE_TARGETS = [("f16",), ("nofile",), ("d",), ("d", ""), ("d", "e", ""), ("nodir", "x"), ("f16", "x"),
                 ("sock",), ("a\0",), (LONG256,), (), ("",), ("d", "sub", "deep.txt"), ("f16", ""),
                 ("..", "outside.txt"), ("", "etc", "hostname"), ("/etc",), ("a/b",), ("d", "..", "f16"),
                 (".",), ("d", "", "x.txt"), (".well-known", "core")]
IM_CHOICES = [(), ("match",), ("syn",), ("empty",), ("syn", "empty"), ("syn", "match")]
ET_CHOICES = [(), ("match",), ("syn",), ("syn", "match")]


def gen_comps(rng):
    r = rng.random()
    if r < 0.55:
        t = list(rng.choice(VALID_TARGETS))
        if t and rng.random() < 0.15:
            t[-1] = rng.choice(["n1", "n2", "é2", "x.txt", "f16"])
        if rng.random() < 0.1:
            t.append("")
        return t, False
    if r < 0.8:
        t = list(rng.choice(VALID_TARGETS))
        t.insert(rng.randrange(len(t) + 1), rng.choice(HOSTILE))
        return t, True
    return [rng.choice(HOSTILE + ["a", "d", "f16", "x.txt"]) for _ in range(rng.randrange(0, 5))], True


def gen_step(rng, write):
    comps, hostile = gen_comps(rng)
    m = rng.choices(["GET", "PUT", "DELETE", "POST", "FETCH", "PATCH", "iPATCH", "OBS"],
                    [45, 25 if write else 12, 18 if write else 10, 3, 2, 2, 2, 4])[0]
    step = {"m": m, "comps": comps}
    if m == "GET":
        if rng.random() < 0.35:
            step["et"] = list(rng.choice(ET_CHOICES))
        if rng.random() < 0.6:
            szx = rng.randrange(8)
            size = 2 ** (min(szx, 6) + 4)
            step["b2"] = [rng.choice([0, 0, 1, 2, 5000 // size, 5000 // size + 1, 1024 // size,
                                      1024 // size - 1 if size < 1024 else 0, rng.randrange(400)]), szx]
    if m in ("PUT", "DELETE"):
        step["im"] = list(rng.choice(IM_CHOICES)) if rng.random() < 0.5 else []
        step["inm"] = rng.random() < 0.25
        step["plen"] = rng.choice([0, 1, 16, 17, 1024, 3000])
    return step, hostile


def history_cases(env):
    rng = env.rng
    out = []
    for _ in range(env.scale(700, 12000)):
        write = rng.random() < 0.6
        case = {"kind": "R", "write": write, "etags": rng.random() < 0.8,
                "rootform": rng.choice(["plain", "plain", "slash"]), "steps": []}
        for _ in range(rng.randrange(1, 7)):
            case["steps"].append(gen_step(rng, write)[0])
        out.append(case)
    return out


def table_cases():
    out = []
    for t in TABLE_TARGETS:
        for write in (False, True):
            for etags in (True, False):
                base = {"kind": "R", "write": write, "etags": etags}
                for et in ET_CHOICES:
                    out.append({**base, "steps": [{"m": "GET", "comps": list(t), "et": list(et)}]})
                out.append({**base, "steps": [{"m": "OBS", "comps": list(t)},
                                              {"m": "GET", "comps": list(t)},
                                              {"m": "GET", "comps": list(t), "b2": [1, 0]}]})
                for im in IM_CHOICES:
                    for inm in (False, True):
                        out.append({**base, "steps": [{"m": "PUT", "comps": list(t), "im": list(im),
                                                       "inm": inm, "plen": 20},
                                                      {"m": "GET", "comps": list(t)}]})
                    out.append({**base, "steps": [{"m": "DELETE", "comps": list(t), "im": list(im)},
                                                  {"m": "GET", "comps": list(t)}]})
                for m in ("POST", "FETCH", "PATCH", "iPATCH"):
                    out.append({**base, "steps": [{"m": m, "comps": list(t), "plen": 3}]})
    return out


def sibling_cases():
    """requests that spell, with a leading empty component, the absolute path of a neighbour of the root whose
    name extends the root's name (and of the root itself, and of a file inside it)"""
    out = []
    targets = [["", SCRATCH, "srv-private", "secret.txt"], ["", SCRATCH, "srv2", "secret.txt"],
               ["", SCRATCH, "srv.bak"], ["", SCRATCH, "srv-private", ""], ["", SCRATCH, "srv-private", "new.txt"],
               ["", SCRATCH, "srv", "f16"], ["", SCRATCH, "srv"], ["", SCRATCH, "outside.txt"],
               ["", "", SCRATCH, "srv2", "secret.txt"], ["d", "", SCRATCH, "srv2", "secret.txt"]]
    for t in targets:
        for write in (False, True):
            base = {"kind": "R", "write": write, "etags": True}
            out.append({**base, "steps": [{"m": "GET", "comps": t}, {"m": "GET", "comps": t, "b2": [0, 2]}]})
            out.append({**base, "steps": [{"m": "PUT", "comps": t, "im": [], "inm": False, "plen": 20},
                                          {"m": "GET", "comps": t}]})
            out.append({**base, "steps": [{"m": "DELETE", "comps": t, "im": []}, {"m": "GET", "comps": t}]})
    return out


def fetch_cases():
    return [{"kind": "F", "file": f"f{n}", "size": n, "szx": szx} for n in SIZES for szx in range(8)]


def fetch_history(fc):
    size = 2 ** (min(fc["szx"], 6) + 4)
    nblocks = fc["size"] // size + 1
    steps = [{"m": "GET", "comps": [fc["file"]], "b2": [k, fc["szx"]]} for k in range(nblocks + 2)]
    steps.append({"m": "GET", "comps": [fc["file"]], "b2": [nblocks + 1000, fc["szx"]]})
    steps.append({"m": "GET", "comps": [fc["file"]]})            # no Block2 option at all
    return {"kind": "R", "write": False, "etags": True, "steps": steps}


def fetch_oracle(fc, results):
    """Concatenate the payloads of blocks 0.. until more is false: must be the file."""
    size = 2 ** (min(fc["szx"], 6) + 4)
    want = content_of(fc["size"])
    got = b""
    for k, r in enumerate(results[:-2]):
        if r["resp"] is None or r["outcome"] != "2.05":
            return f"block {k} of {fc['file']} (szx {fc['szx']}) answered {r['outcome']}"
        if r["more"] and len(r["payload"]) != size:
            return f"block {k} of {fc['file']} (szx {fc['szx']}) has more=1 but {len(r['payload'])} bytes"
        got += r["payload"]
        if not r["more"]:
            break
    else:
        return f"fetch of {fc['file']} (szx {fc['szx']}) never reached a block with more=0"
    if got != want:
        return (f"block-wise fetch of {fc['file']} with szx {fc['szx']} gave {len(got)} bytes, differing "
                f"from the file's {len(want)} bytes")
    return ""


# ---- P and J ----------------------------------------------------------------------

P_ROOTS = ["/srv/files", ".", "rel/dir", "/", "//", "/srv/files/", "//x"]


def p_lists(env):
    rng = env.rng
    out = [[]]
    out += [[a] for a in ALPHA2]
    out += [[a, b] for a in ALPHA2 for b in ALPHA2]
    out += [[a, b, c] for a in ALPHA3 for b in ALPHA3 for c in ALPHA3]
    out += [list(t) for t in TABLE_TARGETS + VALID_TARGETS]
    for _ in range(env.scale(2500, 60000)):
        out.append(gen_comps(rng)[0])
    return out


def impl_localpath(impl, root, comps, jail):
    """request_to_localpath is pure path arithmetic; it still runs inside the jail so that a
    version that starts touching the file system cannot reach the (non-scratch) roots used here"""
    fs = impl.server(root, False, True)
    req = impl.request("GET", comps)
    jail.log, jail.refused = [], []
    with jail:
        try:
            p = fs.request_to_localpath(req)
        except impl.fsmod.InvalidPathError:
            return "err"
        except Refused:
            return "exc:Refused"
        except Exception as e:
            return "exc:" + type(e).__name__
        out = "ok " + pure_tok(p)
        try:
            run_coro(fs.add_observation(req, FakeObservation()))
        except Refused:
            return out + " exc:Refused"
    if list(fs._observations) != [p]:
        out += " observation-key-differs"
    if jail.log:
        out += " touched-fs:" + ",".join(sorted({e["fn"] for e in jail.log}))
    return out


J_TABLE = ["", "/", "//", "///", ".", "..", "a", "a/b", "/etc", "a/", "./", "../", "/a/b/", "//a", "///a//b",
           "a//b", "a/./b", "./a", "a/.", "é", "/tmp/x", "/tmp/x/", "\0", "a\0/b", " ", "...", "/.", "/..",
           "//.", ".//"]


def j_cases(env):
    rng = env.rng
    out = [(a, b) for a in J_TABLE for b in J_TABLE]
    pieces = ["/", "/", "//", ".", "..", "a", "b", "é", "", "/./", "x/"]
    for _ in range(env.scale(2500, 60000)):
        a = "".join(rng.choice(pieces) for _ in range(rng.randrange(0, 6)))
        b = "".join(rng.choice(pieces) for _ in range(rng.randrange(0, 6)))
        out.append((a, b))
    return out


# ------------------------------------------------------------------ run ----------------


_PER_KEY = {}


def ofail(rep, case, text, key):
    """at most 6 recorded failures per key, so that one defect does not crowd out another"""
    _PER_KEY[key] = _PER_KEY.get(key, 0) + 1
    if _PER_KEY[key] <= 6:
        rep.oracle_fail(case, text, key=key)
    else:
        rep.count("oracle_failure_not_recorded:" + key)


def register(rep, case, res, hostile_hint=None):
    nontriv = bool(res["ops"]) or res["outcome"] == "4.00"
    rep.case(case, nontrivial=nontriv, sample_every=800)
    rep.count("R:outcome=" + res["outcome"])
    rep.count("R:stat=" + res["stat"])
    for o in res["ops"]:
        rep.count("R:op=" + o[0])
    for text, key in res["verdicts"]:
        ofail(rep, case, text, key)


def bare_root_cases(env, rep, impl):
    """An otherwise EMPTY served root whose parent directory holds nothing else (`<tmp>/outer/served`), writes
    enabled: requests that fail half way (a name the OS refuses in a directory that does not exist yet, a missing
    file, a path outside) must leave the root itself, its parent and the neighbour `<tmp>/keep` as they were.
    Oracle only (the model's tree is never empty)."""
    d = os.path.realpath(tempfile.mkdtemp(prefix="c19-bare-"))
    try:
        for forbidden in ("/repo", "/verif", VERIF, env.repo):
            if inside(d, os.path.realpath(forbidden)):
                raise HarnessError(f"scratch directory {d} is inside {forbidden}")
        os.makedirs(d + "/keep")
        with open(d + "/keep/file", "wb") as f:
            f.write(b"neighbour")
        root = d + "/outer/served"
        os.makedirs(root)
        fs = impl.server(root, True, False)
        steps = [("PUT", ["newdir", "x\0y"]), ("PUT", ["newdir", "n" * 300]), ("PUT", ["a", "b", "c\0"]),
                 ("PUT", ["newdir", "sub", "n" * 300]), ("DELETE", ["gone"]), ("GET", ["gone"]),
                 ("PUT", ["..", "escape"]), ("PUT", ["", d.strip("/").split("/")[0], "x"]),
                 ("DELETE", []), ("PUT", ["newdir", ""]), ("DELETE", ["newdir", "n" * 300])]
        for method, comps in steps:
            case = {"kind": "B", "m": method, "comps": comps}
            rep.case(case, nontrivial=True, sample_every=7)
            rep.count("bare-root:" + method)
            req = impl.request(method, comps, b"payload" if method == "PUT" else b"")
            try:
                run_coro(fs.render(req))
            except Exception:
                pass                      # which code the request gets is judged by the ordinary levels
            gone = [p for p in (root, d + "/outer", d + "/keep/file") if not os.path.exists(p)]
            changed = os.path.exists(d + "/keep/file") and open(d + "/keep/file", "rb").read() != b"neighbour"
            extra = sorted(set(os.listdir(d)) - {"keep", "outer"}) + sorted(set(os.listdir(d + "/outer")) - {"served"}) \
                if not gone else []
            if gone or changed or extra:
                ofail(rep, case, f"{method} {comps!r} on an empty root: " +
                      (f"removed {[g[len(d):] for g in gone]}" if gone else
                       "changed the neighbour" if changed else f"created {extra} outside the root"),
                      "outside-root-touched")
                break
    finally:
        shutil.rmtree(d, ignore_errors=True)


def run(env, rep):
    _PER_KEY.clear()
    corpus = [c for _, c in load_corpus("C19")]

    # --- J: the pathlib restatement
    jc = [tuple(c["j"]) for c in corpus if c.get("kind") == "J"] + j_cases(env)
    lines, outs = [], []
    for a, b in jc:
        p = PurePosixPath(a, b)
        lines.append(f"C19 J {hx(a)} {hx(b)}")
        outs.append(pure_tok(p) + " " + hx(str(p)))
        rep.case({"kind": "J", "a": a, "b": b}, nontrivial=bool(b), sample_every=3000)
        rep.count("J:anchor=" + p.root)
        rep.count("J:right-absolute=" + str(b.startswith("/")))
    compare(env, rep, jc, lines, outs, what="pathlib join")

    runner = Runner(env, rep)
    try:
        impl = runner.impl
        bare_root_cases(env, rep, impl)
        # --- P: request_to_localpath
        pcs = [(c["root"], c["comps"]) for c in corpus if c.get("kind") == "P"]
        lists = p_lists(env)
        for i, comps in enumerate(lists):
            pcs.append((P_ROOTS[0] if i % 2 else P_ROOTS[i // 2 % len(P_ROOTS)], comps))
        lines, outs = [], []
        for root, comps in pcs:
            lines.append(f"C19 P {pure_tok(PurePosixPath(root))} {comps_tok(comps)}")
            o = impl_localpath(impl, root, comps, runner.sc.jail)
            outs.append(o)
            case = {"kind": "P", "root": root, "comps": comps}
            rep.case(case, nontrivial=bool(comps), sample_every=3000)
            rep.count("P:" + o.split(" ")[0])
            rep.count("P:len=%d" % min(len(comps), 5))
            if o.startswith("ok"):
                # oracle: the result is lexically inside the root
                ps = tok_to_str(o.split(" ")[1])
                rs = str(PurePosixPath(root))
                if not inside(lexical_abs("/cwd", ps), lexical_abs("/cwd", rs)) or \
                        ps.startswith("/") != rs.startswith("/"):
                    ofail(rep, case, f"request_to_localpath({comps!r}) under {root!r} gives {ps!r}, "
                          f"outside the root", "localpath-outside-root")
        compare(env, rep, pcs, lines, outs, what="request_to_localpath")

        # --- R: requests in the scratch tree
        hist = [c for c in corpus if c.get("kind") == "R"] + table_cases() + sibling_cases()
        fcs = fetch_cases()
        hist += history_cases(env)
        allcomps = {tuple(expand(s["comps"], runner.sc)) for c in hist for s in c["steps"]}
        allcomps |= {(fc["file"],) for fc in fcs}
        allcomps = sorted(allcomps)
        mouts = env.lean([f"C19 P {runner.root_tok} {comps_tok(c)}" for c in allcomps])
        model_paths = {c: (o[3:] if o.startswith("ok ") else None) for c, o in zip(allcomps, mouts)}

        cases, lines, outs = [], [], []

        def flush():
            if lines:
                compare(env, rep, list(cases), list(lines), list(outs), what="FileServer.render")
                cases.clear(), lines.clear(), outs.clear()

        for c in hist:
            results = runner.run_history(c, model_paths)
            indep = not c["write"] and all(s["m"] != "OBS" for s in c["steps"])
            for i, res in enumerate(results):
                sub = {**c, "steps": [c["steps"][i]] if indep else c["steps"][: i + 1]}
                register(rep, sub, res)
                rep.count("R:method=" + c["steps"][i]["m"])
                rep.count("R:write=%d" % c["write"])
                if res["line"] is not None:
                    cases.append(sub), lines.append(res["line"]), outs.append(res["impl"])
            if len(lines) > 4000:
                flush()
        for fc in fcs:
            h = fetch_history(fc)
            results = runner.run_history(h, model_paths)
            for i, res in enumerate(results):
                sub = {**h, "steps": [h["steps"][i]]}
                register(rep, sub, res)
                rep.count("R:method=GET")
                rep.count("F:szx=%d" % fc["szx"])
                cases.append(sub), lines.append(res["line"]), outs.append(res["impl"])
            v = fetch_oracle(fc, results)
            rep.case(fc, nontrivial=True)
            if v:
                ofail(rep, fc, v, f"blockwise-mismatch:szx={fc['szx']}")
            if len(lines) > 1500:
                flush()
        flush()
        rep.exhaustive_parts.append("every block (and two past the end) of every boundary-size file for szx 0..7")
        rep.exhaustive_parts.append("all Uri-Path lists of length <= 2 over 15 symbols and length 3 over 6 symbols")
        for k in () if (rep.oracle_failures or rep.disagreements) else ("R:outcome=2.05", "R:outcome=4.00", "R:outcome=2.04", "R:outcome=2.02", "R:outcome=4.03",
                  "R:outcome=4.12", "R:outcome=crash", "R:op=T", "R:op=L", "R:op=O", "R:op=U"):
            if not rep.hist.get(k):
                raise HarnessError(f"generator never produced {k}")
        if os.path.exists("/tmp/c19-should-never-exist"):
            raise HarnessError("a file outside the scratch directory was created")
    finally:
        runner.close()


def replay(env, case):
    kind = case.get("kind")
    if kind == "J":
        return ""
    if kind == "B":
        class Sink:
            def __init__(self):
                self.failures = []

            def case(self, *a, **k):
                pass

            def count(self, *a, **k):
                pass

            def oracle_fail(self, case, text, key=None):
                self.failures.append(text)

        sink = Sink()
        _PER_KEY.clear()
        bare_root_cases(env, sink, Impl(env))          # the whole (short) sequence: later steps depend on earlier ones
        return sink.failures[0] if sink.failures else ""
    if kind == "P":
        impl = Impl(env)
        d = tempfile.mkdtemp(prefix="c19-")
        try:
            o = impl_localpath(impl, case["root"], case["comps"], Jail(os.path.realpath(d)))
        finally:
            shutil.rmtree(d, ignore_errors=True)
        if o.startswith("ok"):
            ps, rs = tok_to_str(o.split(" ")[1]), str(PurePosixPath(case["root"]))
            if not inside(lexical_abs("/cwd", ps), lexical_abs("/cwd", rs)) or \
                    ps.startswith("/") != rs.startswith("/"):
                return f"request_to_localpath({case['comps']!r}) under {case['root']!r} gives {ps!r}"
        return ""
    runner = Runner(env)
    try:
        if kind == "F":
            return fetch_oracle(case, runner.run_history(fetch_history(case)))
        for res in runner.run_history(case):
            if res["verdicts"]:
                return res["verdicts"][0][0]
        return ""
    finally:
        runner.close()
