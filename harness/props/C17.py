"""C17 — Site routing (exact match, longest prefix for nested sites) and matching discovery.

One case = one history on a fresh root `Site()`: registrations (resources, nested sites up to
three levels, PathCapable leaves, the WKCResource), removals and GET requests interleaved.

Correspondence (model ≈ code): the history is executed on the real objects — requests enter
through `Context.render_to_pipe` (→ `Site.render_to_pipe`, `_expand_upa`, error → 4.04/4.02
conversion) or the legacy `Site.render` — with recording resources that report which instance
ran, the `uri_path` it saw and the URI `get_request_uri()` reconstructs; the payload of the real
WKCResource is taken byte for byte.  The same history goes to the Lean model
(`Site.modifyAt`, `Site.serve`, `Site.links`, `wkcRender`, `linkFormatStr`) and the outputs are diffed.

Oracle (independent reference, shares no code with aiocoap or the model): a dict-based mirror
of the registrations with a reference router written from the property text, an RFC 3986 / RFC 7252
§6.4 reader that turns every listed href back into Uri-Path values, an RFC 6690 link-format reader written from the
ABNF (quoted-string with quoted-pairs), and an RFC 6690 filter;
checks handler identity, stripped path, reconstructed URI, the unfiltered listing as a multiset of
(path the href names, attributes) and the filtered listing against the links of the unfiltered one
that match EVERY filter argument.
"""
import asyncio
import json
import logging
import urllib.parse
import warnings

from common import compare, load_corpus, HarnessError

RULE = ("histories of 4..30 ops on a root Site: add resource / nested Site (<= 3 levels) / "
        "PathCapable leaf / WKCResource, remove, GET; registration paths of 0..3 components drawn "
        "from a small vocabulary (incl. the empty component and components with URI-reserved, "
        "link-format-delimiter, control and non-ASCII characters) and biased to share prefixes with / "
        "extend / equal existing keys (nested sites at the empty path, resources at [''] included); link "
        "descriptions of 0..9 attributes whose values come from a vocabulary or are composed over RFC 6690's "
        "quoted-string alphabet (backslash, quote, ',', ';', '<', '>', '=', space, TAB, non-ASCII, empty); "
        "request paths derived from registered full paths (as is, "
        "truncated, extended, with '' appended or inserted, one component replaced) or random; "
        "Uri-Path-Abbrev known/unknown/conflicting; /.well-known/core with no query, 1..3 RFC 6690 "
        "filter arguments over rt/if/ct/title/rel/obs/href/unknown names (whole value, one token, prefix*, "
        "'*', empty; repeated names; href of a listed link) and non-filter items; boundary tables: every "
        "combination of sub-site keys at "
        "prefix lengths 0..n of a path of n <= 4 components x exact resource present x trailing "
        "empty component, every filter pattern x attribute kind, every pair and selected triples of "
        "filter arguments selecting overlapping / disjoint subsets, every ASCII character and selected "
        "UTF-8 sequences as a path component (alone, below a nested site, as nested-site key), "
        "[] / [''] / ['',''] resources x nested site keys [] / ['k'] / ['k',''], every ASCII character (alone, "
        "doubled, first, inside, last) and every backslash/quote string up to length 3 as value of title, of a "
        "custom attribute and as an rt entry, with other resources before, between and behind. The "
        "/.well-known/core payload is compared byte for byte with the model and read by an own RFC 6690 reader "
        "for the oracle. Non-trivial: at least one "
        "request answered by a handler and one registration below a nested site or one 4.04; "
        "distinct by full history.")
TRUSTED = ["harness link-format parser and fake remote endpoint (harness/props/C17.py)"]
ASSUMPTIONS = [
    "path components '.' and '..' are not generated (RFC 7252 §5.10.1: a Uri-Path value MUST NOT be one)",
    "a full path that begins with an empty component has no path-absolute name (RFC 3986 §3.3: '//x' is a "
    "network-path reference; RFC 7252 §6.4 turns '/' into NO Uri-Path, never into the lone ''): such "
    "registrations are generated and compared model~code, the oracle checks their routing and only "
    "the count and attributes of their links",
    "attribute names are ASCII parmnames (RFC 5987 attr-char); names differing only in case are compared "
    "model~code only",
    "control characters inside attribute values are written raw by the code and read literally by the oracle's "
    "reader (RFC 2616 allows them only as quoted-pair, RFC 7230 not at all; no framing depends on them)",
    "the fake remote has no payload size limit: long listings are not cut into blocks (block-wise: C06)",
]

VOCAB = ["a", "b", "c", "ab", "abc", "x", "core", ".well-known", "sensors", "temp", "ä", "日本",
         "A", "a.b", "a-b_c~", "0"]
# components that need escaping on their way into a link target (or look as if they were escaped)
VOCAB_RESERVED = ["a b", "a/b", "x>y", "a,b", "%41", "q?x", "s;t", "<", ">", "#f", "a%2Fb", "&=",
                  "\"q\"", "\\", "a:b@c", "é/è", "\x7f", "\t", "+", "*", "()", "[", "]", "{|}", "^`",
                  "100%", "%", "%zz", "a/", "/", "//", " ", "a;rt=\"x\",</y", "\u20ac", "..."]
WK = [".well-known", "core"]
# draft-ietf-core-uri-path-abbrev (the oracle's own copy of the registry)
ORACLE_UPA = {0: [".well-known", "core"], 1: [".well-known", "rd"], 2: [".well-known", "edhoc"],
              301: [".well-known", "est", "crts"], 302: [".well-known", "est", "sen"],
              303: [".well-known", "est", "sren"], 304: [".well-known", "est", "skg"],
              305: [".well-known", "est", "skc"], 306: [".well-known", "est", "att"],
              401: [".well-known", "brski", "es"], 402: [".well-known", "brski", "rv"],
              403: [".well-known", "brski", "vs"]}


# --------------------------------------------------------------------------- encodings

def hx(s):
    b = s.encode("utf-8")
    return b.hex() if b else "-"


def enc_path(p):
    return "." if not p else "/".join(hx(c) for c in p)


def enc_addr(a):
    return "^" if not a else "|".join(enc_path(p) for p in a)


def enc_attrs(attrs):
    if not attrs:
        return "."
    return ",".join(hx(k) if v is None else hx(k) + "=" + hx(v) for k, v in attrs)


def enc_link(href, attrs):
    return ";".join([hx(href)] + [hx(k) if v is None else hx(k) + "=" + hx(v) for k, v in attrs])


def case_line(case):
    toks = ["C17", "-" if case["wkc"] is None else str(case["wkc"]),
            hx(case["impl_info"]) if case["impl_info"] else "-"]
    for op in case["ops"]:
        t = op[0]
        if t == "S":
            toks.append(f"S:{enc_addr(op[1])}:{enc_path(op[2])}")
        elif t == "F":
            toks.append(f"F:{enc_addr(op[1])}:{enc_path(op[2])}:{op[3]}")
        elif t == "R":
            _, addr, path, rid, hidden, attrs, _kind = op
            toks.append(f"R:{enc_addr(addr)}:{enc_path(path)}:{rid}:{'h' if hidden else 'v'}:"
                        f"{enc_attrs(attrs)}")
        elif t == "D":
            toks.append(f"D:{enc_addr(op[1])}:{enc_path(op[2])}")
        elif t == "G":
            _, upa, path, queries, _entry = op
            qs = "." if not queries else ",".join(hx(q) for q in queries)
            toks.append(f"G:{'-' if upa is None else upa}:{enc_path(path)}:{qs}")
        else:
            raise HarnessError(f"unknown op {op!r}")
    return " ".join(toks)


# --------------------------------------------------------------------------- link-format parser

# RFC 5987 §3.2.1 attr-char (parmname = 1*attr-char, RFC 5988 also allows a trailing "*")
ATTRCHAR = set("ABCDEFGHIJKLMNOPQRSTUVWXYZabcdefghijklmnopqrstuvwxyz0123456789!#$&+-.^_`|~")
# RFC 6690 §2 ptokenchar
PTOKENCHAR = set("ABCDEFGHIJKLMNOPQRSTUVWXYZabcdefghijklmnopqrstuvwxyz0123456789"
                 "!#$%&'()*+-./:<=>?@[]^_`{|}~")


def parse_link_format(s):
    """Reader for application/link-format written from the ABNF of RFC 6690 §2 (shares nothing with
    aiocoap's regular expressions or with what its writer happens to escape):

        link-value-list = [ link-value *( "," link-value ) ]
        link-value      = "<" URI-Reference ">" *( ";" link-param )
        link-param      = parmname [ "=" ( ptoken / quoted-string ) ]      (the general form)
        quoted-string   = DQUOTE *( qdtext / quoted-pair ) DQUOTE          (RFC 2616 §2.2)
        quoted-pair     = "\" CHAR            -- stands for that CHAR, whichever it is
        qdtext          = any TEXT except DQUOTE (and "\", which always starts a quoted-pair)

    → [(href, [(name, value | None)])]; ValueError when the text is not of that form.  Control
    characters inside a quoted-string are taken literally (RFC 2616 has them only as quoted-pair,
    RFC 7230 not at all: no framing depends on them)."""
    links = []
    i, n = 0, len(s)
    while i < n:
        if s[i] != "<":
            raise ValueError(f"expected '<' at {i}")
        j = s.find(">", i)
        if j < 0:
            raise ValueError(f"unterminated link target at {i}")
        href = s[i + 1:j]
        i = j + 1
        attrs = []
        while i < n and s[i] == ";":
            i += 1
            j = i
            while j < n and s[j] in ATTRCHAR:
                j += 1
            if j < n and s[j] == "*":
                j += 1
            key = s[i:j]
            if not key:
                raise ValueError(f"parameter name expected at {i}")
            i = j
            if i < n and s[i] == "=":
                i += 1
                if i < n and s[i] == '"':
                    i += 1
                    val = []
                    while True:
                        if i >= n:
                            raise ValueError("unterminated quoted-string")
                        c = s[i]
                        if c == "\\":
                            if i + 1 >= n:
                                raise ValueError("unterminated quoted-pair")
                            val.append(s[i + 1])
                            i += 2
                        elif c == '"':
                            i += 1
                            break
                        else:
                            val.append(c)
                            i += 1
                    attrs.append((key, "".join(val)))
                else:
                    j = i
                    while j < n and s[j] in PTOKENCHAR:
                        j += 1
                    if j == i:
                        raise ValueError(f"parameter value expected at {i}")
                    attrs.append((key, s[i:j]))
                    i = j
            else:
                attrs.append((key, None))
            if i < n and s[i] not in ";,":
                raise ValueError(f"expected ';' or ',' at {i}")
        links.append((href, attrs))
        if i < n:
            if s[i] != ",":
                raise ValueError(f"expected ',' at {i}")
            i += 1
            if i >= n:
                raise ValueError("trailing comma")
    return links


# --------------------------------------------------------------------------- implementation side

class FakeRemote:
    """Just enough of an EndpointAddress for server-side rendering without a transport."""
    scheme = "coap"
    hostinfo = "peer.example"
    hostinfo_local = "srv.example"
    uri_base = "coap://peer.example"
    uri_base_local = "coap://srv.example"
    is_multicast = False
    is_multicast_locally = False
    maximum_block_size_exp = 6
    maximum_payload_size = 1 << 24     # a transport without a size limit: no listing is cut into blocks (C06's topic)
    blockwise_key = ("peer.example",)
    authenticated_claims = ()


class Impl:
    """The real objects of one history."""

    def __init__(self, aiocoap, loop, case):
        from aiocoap import resource, interfaces
        self.aiocoap = aiocoap
        self.resource = resource
        self.root = resource.Site()
        self.log = logging.getLogger("coap-verif-c17")
        self.ctx = aiocoap.Context(loop=loop, serversite=self.root, loggername="coap-verif-c17")
        self.case = case
        Message = aiocoap.Message

        def report(rid, request):
            try:
                uri = request.get_request_uri()
            except Exception as e:   # an observation, not a harness failure
                uri = "exception:" + type(e).__name__
            return Message(payload=json.dumps(
                {"id": rid, "seen": list(request.opt.uri_path), "uri": uri}).encode())

        class RecRes(resource.Resource):
            def __init__(self, rid, desc):
                super().__init__()
                self.rid, self.desc = rid, desc

            def get_link_description(self):
                return None if self.desc is None else dict(self.desc)

            async def render_get(self, request):
                return report(self.rid, request)

        class RecLeaf(resource.Resource, resource.PathCapable):
            def __init__(self, rid):
                super().__init__()
                self.rid = rid

            async def render_get(self, request):
                return report(self.rid, request)

        class BareRes(interfaces.Resource):
            """implements the interface only: no get_link_description at all"""
            def __init__(self, rid):
                self.rid = rid

            async def needs_blockwise_assembly(self, request):
                return False

            async def render(self, request):
                m = report(self.rid, request)
                m.code = aiocoap.CONTENT
                return m

        self.RecRes, self.RecLeaf, self.BareRes = RecRes, RecLeaf, BareRes

    def site_at(self, addr):
        s = self.root
        for k in addr:
            s = s._subsites[tuple(k)]
        return s

    def apply(self, op):
        """registration ops; returns the output token of `D`"""
        t = op[0]
        if t == "S":
            self.site_at(op[1]).add_resource(op[2], self.resource.Site())
        elif t == "F":
            self.site_at(op[1]).add_resource(op[2], self.RecLeaf(op[3]))
        elif t == "A":
            # the SAME nested Site object registered under a second path (e.g. /v1 and /latest)
            self.site_at(op[3]).add_resource(op[4], self.site_at(op[1])._subsites[tuple(op[2])])
        elif t == "R":
            _, addr, path, rid, hidden, attrs, kind = op
            if kind == "wkc":
                res = self.resource.WKCResource(
                    self.root.get_resources_as_linkheader,
                    impl_info=self.case["impl_info"] or None)
            elif kind == "bare":
                res = self.BareRes(rid)
            else:
                res = self.RecRes(rid, None if hidden else [(k, v) for k, v in attrs])
            self.site_at(addr).add_resource(path, res)
        elif t == "D":
            try:
                self.site_at(op[1]).remove_resource(op[2])
                return "ok"
            except KeyError:
                return "KeyError"
        return None

    def description_of_wkc(self):
        return self.resource.WKCResource(lambda: None).get_link_description()

    async def get(self, upa, path, queries, entry):
        """→ (code string, content_format, payload bytes)"""
        aiocoap = self.aiocoap
        msg = aiocoap.Message(code=aiocoap.GET)
        msg.opt.uri_path = tuple(path)
        if queries:
            msg.opt.uri_query = tuple(queries)
        if upa is not None:
            msg.opt.uri_path_abbrev = upa
        msg.mtype = aiocoap.CON
        msg.mid = 0x1234
        msg.token = b"\x01"
        inc = aiocoap.Message.decode(msg.encode(), FakeRemote())
        inc.direction = aiocoap.message.Direction.INCOMING
        if entry == "render":
            try:
                with warnings.catch_warnings():
                    warnings.simplefilter("ignore")
                    r = await self.root.render(inc)
            except aiocoap.error.RenderableError as e:
                r = e.to_message()
            except Exception as e:
                return ("exception:" + type(e).__name__, None, b"")
        else:
            pipe = aiocoap.pipe.Pipe(inc, self.log)
            fut = asyncio.get_running_loop().create_future()

            def on_event(ev):
                if not fut.done():
                    fut.set_result(ev)
                return False
            pipe.on_event(on_event)
            with warnings.catch_warnings():
                warnings.simplefilter("ignore")
                self.ctx.render_to_pipe(pipe)
                ev = await asyncio.wait_for(fut, 30)
            if ev.exception is not None:
                return ("exception:" + type(ev.exception).__name__, None, b"")
            r = ev.message
        code = "%d.%02d" % divmod(int(r.code), 32) if r.code is not None else "2.05"
        return (code, r.opt.content_format, r.payload)


def uri_segments(uri):
    """path segments of a URI as the client would have put them into Uri-Path options,
    keeping "/" as one empty segment"""
    parts = urllib.parse.urlsplit(uri)
    p = parts.path
    if not p.startswith("/"):
        return None
    return [urllib.parse.unquote(c) for c in p[1:].split("/")], parts


def observe(code, cf, payload):
    """canonical output token of one GET + structured observation for the oracle"""
    if code == "4.04":
        return "404", {"kind": "404"}
    if code == "4.02":
        return "402", {"kind": "402"}
    if code != "2.05":
        return "err:" + code, {"kind": "err", "code": code}
    if cf is not None and int(cf) == 40:
        # model ~ code: the payload byte for byte; the oracle judges what an RFC 6690 reader makes of it
        tok = "L:" + (payload.hex() or "-")
        try:
            links = parse_link_format(payload.decode("utf-8"))
        except Exception as e:
            return tok, {"kind": "unparsable", "why": str(e), "payload": payload.decode("utf-8", "replace")}
        return tok, {"kind": "links", "links": links}
    try:
        d = json.loads(payload)
        segs, parts = uri_segments(d["uri"])
    except Exception:
        return "err:payload:" + payload.hex(), {"kind": "err", "code": "payload"}
    tok = f"H:{d['id']}:{enc_path(d['seen'])}:{enc_path(segs)}"
    return tok, {"kind": "hit", "id": d["id"], "seen": d["seen"], "uri": d["uri"]}


async def run_history(aiocoap, case, want_full_listing=True):
    """→ (output tokens, observations per op index)"""
    imp = Impl(aiocoap, asyncio.get_running_loop(), case)
    outs, obs = [], {}
    for i, op in enumerate(case["ops"]):
        if op[0] == "G":
            _, upa, path, queries, entry = op
            tok, o = observe(*await imp.get(upa, path, queries, entry))
            if o["kind"] == "links" and want_full_listing and queries:
                # the same request without query, for the oracle (not part of the model line)
                _, o2 = observe(*await imp.get(upa, path, [], entry))
                o["full"] = o2.get("links")
                if o2["kind"] == "unparsable":
                    o["full_unparsable"] = o2
            outs.append(tok)
            obs[i] = o
        else:
            r = imp.apply(op)
            if r is not None:
                outs.append(r)
                obs[i] = {"kind": r}
    return outs, obs


# --------------------------------------------------------------------------- oracle

class RefSite:
    """mirror of the registrations, from the property text only"""
    def __init__(self):
        self.resources = {}   # path tuple -> (id, hidden, attrs)
        self.subsites = {}    # path tuple -> RefSite | ("leaf", id)


def ref_at(root, addr):
    s = root
    for k in addr:
        s = s.subsites[tuple(k)]
    return s


def ref_route(site, path, nested=False):
    """(id, path the handler sees) or None: the resource registered at exactly that path, else
    the nested site at the longest proper prefix (the empty path is a proper prefix of every other
    one), which gets the remaining components (a lone trailing empty component addresses the
    nested site's own root, which its resource at [] or else at [''] is), else nothing."""
    path = tuple(path)
    if isinstance(site, tuple):
        return (site[1], path)
    if path in site.resources:
        return (site.resources[path][0], ())
    if nested and path == () and ("",) in site.resources:
        return (site.resources[("",)][0], ())
    best = None
    for key in site.subsites:
        if len(key) < len(path) and path[:len(key)] == key:
            if best is None or len(key) > len(best):
                best = key
    if best is None:
        return None
    rest = path[len(best):]
    if rest == ("",):
        rest = ()
    return ref_route(site.subsites[best], rest, nested=True)


def ref_listing(site, prefix, out, nested=False):
    """visible resources with the request path their full path through the nested sites is:
    (Uri-Path values, attrs).  The root of a nested site at k is k + ('',)."""
    for path, (rid, hidden, attrs) in site.resources.items():
        if hidden:
            continue
        full = tuple(prefix) + (tuple(path) if (path or not nested) else ("",))
        out.append((full, [(k, v) for k, v in attrs]))
    for key, sub in site.subsites.items():
        if isinstance(sub, tuple):
            continue
        ref_listing(sub, tuple(prefix) + tuple(key), out, nested=True)


# RFC 3986 §3.3: pchar = unreserved / pct-encoded / sub-delims / ":" / "@"
PCHAR = set("ABCDEFGHIJKLMNOPQRSTUVWXYZabcdefghijklmnopqrstuvwxyz0123456789-._~!$&'()*+,;=:@")
HEXDIG = set("0123456789ABCDEFabcdef")


def href_to_path(href):
    """The Uri-Path values a client sends for a listed link target: the target has to be a
    path-absolute reference (RFC 3986 §4.2: "/" not followed by a second "/"; segments of pchar),
    free of dot segments; RFC 7252 §6.4 step 8: "/" alone gives no Uri-Path, otherwise one per
    segment, percent-decoded (UTF-8).  None: the target is none of that."""
    if not href.startswith("/") or href.startswith("//"):
        return None
    if href == "/":
        return ()
    out = []
    for segment in href[1:].split("/"):
        raw = bytearray()
        i = 0
        while i < len(segment):
            c = segment[i]
            if c == "%":
                h = segment[i + 1:i + 3]
                if len(h) != 2 or h[0] not in HEXDIG or h[1] not in HEXDIG:
                    return None
                raw.append(int(h, 16))
                i += 3
            elif c in PCHAR:
                raw.append(ord(c))
                i += 1
            else:
                return None
        if segment in (".", ".."):
            return None
        try:
            out.append(raw.decode("utf-8"))
        except UnicodeDecodeError:
            return None
    return tuple(out)


def rfc6690_match(link, k, v):
    """RFC 6690 §4.1: the link has the attribute (href: the URI-reference) with a value that is
    identical to the pattern, or starts with it when the pattern ends in '*'; rt/if/ct values
    are space-separated lists of which one entry has to match. None = abstain."""
    href, attrs = link

    def pat(x):
        return x.startswith(v[:-1]) if v.endswith("*") else x == v
    if k == "href":
        return pat(href)
    if k != k.lower() or any(a != a.lower() for a, _ in attrs):
        return None
    values = [val for a, val in attrs if a == k and val is not None]
    if k in ("rt", "if", "ct"):
        parts = []
        for val in values:
            if val != " ".join(val.split()):
                return None   # irregular spacing: what an "entry" is is not defined
            parts.extend(val.split(" ") if val else [""])
        return any(pat(x) for x in parts)
    if len(values) > 1:
        return None
    return any(pat(x) for x in values)


def multiset(links):
    return sorted((h, tuple((k, (0, "") if v is None else (1, v)) for k, v in a)) for h, a in links)


def attrs_key(a):
    return tuple((k, (0, "") if v is None else (1, v)) for k, v in a)


def oracle(case, obs):
    """first violated clause as (verdict, key), or None"""
    root = RefSite()
    impl_info = case["impl_info"] or None
    for i, op in enumerate(case["ops"]):
        t = op[0]
        if t == "S":
            ref_at(root, op[1]).subsites[tuple(op[2])] = RefSite()
        elif t == "F":
            ref_at(root, op[1]).subsites[tuple(op[2])] = ("leaf", op[3])
        elif t == "A":
            ref_at(root, op[3]).subsites[tuple(op[4])] = ref_at(root, op[1]).subsites[tuple(op[2])]
        elif t == "R":
            _, addr, path, rid, hidden, attrs, kind = op
            ref_at(root, addr).resources[tuple(path)] = (rid, hidden, attrs)
        elif t == "D":
            s = ref_at(root, op[1])
            p = tuple(op[2])
            present = p in s.subsites or p in s.resources
            if present != (obs[i]["kind"] == "ok"):
                return (f"remove_resource({list(p)}) -> {obs[i]['kind']} although the path was "
                        f"{'registered' if present else 'not registered'}", "remove-result")
            if p in s.subsites:
                del s.subsites[p]
            elif p in s.resources:
                del s.resources[p]
        elif t == "G":
            _, upa, path, queries, entry = op
            o = obs[i]
            if o["kind"] == "unparsable":
                return (f"GET {path} ?{queries}: the payload is not application/link-format for an RFC 6690 "
                        f"reader ({o['why']}): {o['payload'][:120]!r}", "wkc-unparsable")
            if o["kind"] == "err":
                return (f"GET {path} ?{queries} answered {o['code']}", "get-error:" + str(o["code"])[:12])
            if upa is not None:
                if path:
                    if o["kind"] != "402":
                        return (f"Uri-Path-Abbrev together with Uri-Path answered {o['kind']}",
                                "upa-conflict")
                    continue
                if upa not in ORACLE_UPA:
                    if o["kind"] != "402":
                        return (f"unknown Uri-Path-Abbrev {upa} answered {o['kind']}", "upa-unknown")
                    continue
                path = ORACLE_UPA[upa]
            if o["kind"] == "402":
                return (f"GET {path} answered 4.02", "unexpected-402")
            want = ref_route(root, path)
            if want is None:
                if o["kind"] != "404":
                    return (f"GET {path}: nothing is registered for it but the answer was {o}",
                            "route-not-404")
                continue
            if o["kind"] == "404":
                return (f"GET {path}: 4.04 although resource {want[0]} should handle it",
                        "route-404")
            if want[0] == case["wkc"]:
                if o["kind"] != "links":
                    return (f"GET {path}: the WKC resource should answer, got {o}",
                            "route-wrong-handler")
                v = oracle_links(case, root, impl_info, queries, o)
                if v:
                    return v
                continue
            if o["kind"] != "hit" or o["id"] != want[0]:
                return (f"GET {path}: handled by {o.get('id', o['kind'])}, should be {want[0]}",
                        "route-wrong-handler")
            if tuple(o["seen"]) != tuple(want[1]):
                return (f"GET {path}: handler {want[0]} saw uri_path {o['seen']}, should see "
                        f"{list(want[1])}", "route-seen-path")
            exp_uri = "coap://srv.example" + ("".join("/" + urllib.parse.quote(c, safe="-._~!$&'()*+,;=:@")
                                                      for c in path) or "/")
            if queries and all(queries):     # an empty Uri-Query item has no URI form (C16's topic)
                exp_uri += "?" + "&".join(urllib.parse.quote(q, safe="-._~!$'()*+,;=:@/?") for q in queries)
            if (o["uri"] if all(queries) else o["uri"].split("?")[0]) != exp_uri:
                return (f"GET {path}: handler reconstructs {o['uri']!r}, the request URI was "
                        f"{exp_uri!r}", "route-original-uri")
    return None


def oracle_links(case, root, impl_info, queries, o):
    def strip(links):
        return [l for l in links if not (impl_info and l[0] == impl_info)]
    filters = [q.split("=", 1) for q in queries if "=" in q]
    want = []
    ref_listing(root, (), want)
    full = o.get("full") if queries else o["links"]
    if full is None and "full_unparsable" in o:
        u = o["full_unparsable"]
        return (f"the unfiltered /.well-known/core payload is not application/link-format for an RFC 6690 "
                f"reader ({u['why']}): {u['payload'][:120]!r}", "wkc-unparsable")
    if full is None:
        return ("unfiltered /.well-known/core did not answer with a link list", "wkc-listing")
    # every visible registered resource is named once, by a target that leads back to its path;
    # full paths beginning with an empty component have no path-absolute name (see ASSUMPTIONS)
    nameable = sorted((p, attrs_key(a)) for p, a in want if not (p and p[0] == ""))
    unnameable = sorted(attrs_key(a) for p, a in want if p and p[0] == "")
    rest = []
    todo = list(nameable)
    for href, attrs in strip(full):
        entry = (href_to_path(href), attrs_key(attrs))
        if entry[0] is not None and entry in todo:
            todo.remove(entry)
        else:
            rest.append((href, attrs))
    if todo or sorted(attrs_key(a) for _, a in rest) != unnameable:
        return (f"/.well-known/core lists {len(strip(full))} links; registered but not named by any link "
                f"target: {todo[:3]}; links naming no registered resource: {rest[:3]}", "wkc-listing")
    if impl_info and not any(l[0] == impl_info for l in full):
        return ("impl-info link missing from the unfiltered listing", "wkc-impl-info")
    if not filters:
        if queries and multiset(o["links"]) != multiset(full):
            return (f"query {queries} without a filter changed the listing", "wkc-nonfilter-query")
        return None
    # RFC 6690 §4.1 per argument; a link is in the answer iff it matches every one of them
    verdicts = [[rfc6690_match(l, k, v) for k, v in filters] for l in strip(full)]
    if any(x is None for row in verdicts for x in row):
        return None
    expect = [l for l, row in zip(strip(full), verdicts) if all(row)]
    got = strip(o["links"])
    if multiset(got) != multiset(expect):
        q = "&".join(f"{k}={v}" for k, v in filters)
        return (f"?{q}: got {[l[0] for l in got]}, the links matching per RFC 6690 are "
                f"{[l[0] for l in expect]}", f"wkc-filter:{q}"[:60])
    return None


# --------------------------------------------------------------------------- generators

ATTR_VALUES = {
    "rt": ["temp", "light", "temp light", "core.rd", "core.rd core.rd-lookup-ep", "t",
           "temperature-c", "tempest temp", ""],
    "if": ["sensor", "core.s", "core.s core.a", "s"],
    "ct": ["40", "0 41", "50", "0"],
    "title": ["kitchen", "k", "Kitchen light", "", "ki", "quoted \"x\"", "a,b;c=d",
              "C:\\", "a\\b", "\\", "\"", "\\\"", "say \"hi\"\\", "</y>;rt=\"z\"", "\",</y>;rt=\"z",
              "Küche <1>", "日本, €", " "],
    "rel": ["hosts", "self item", "impl-info"],
    "anchor": ["/a", "coap://x/"],
    "sz": ["12", "1200"],
    "foo": ["bar", "bar baz", "b", "b\\", "\\b", "b\"", "b\\\\", ";", ",", ">", "<", "=", "ä"],
}
# RFC 6690's quoted-string alphabet: what a value is drawn from when it is composed at random
VALUE_ALPHABET = ["\\", "\\", "\"", "\"", ",", ";", "<", ">", "=", " ", "a", "b", "x", "/", "*", "ä", "€",
                  "日", "'", "%", "\t"]


def gen_value(rng, listy):
    """an attribute value over the whole alphabet (for rt/if/ct: single-spaced entries)"""
    def word():
        return "".join(rng.choice(VALUE_ALPHABET) for _ in range(rng.randrange(0, 6)))
    if listy:
        return " ".join(w.replace(" ", "") or "e" for w in (word() for _ in range(rng.choice([1, 1, 2, 3]))))
    return word()


def gen_attrs(rng):
    attrs = []
    for k in ["rt", "if", "ct", "title", "rel", "anchor", "sz", "foo"]:
        if rng.random() < 0.3:
            if rng.random() < 0.06:
                attrs.append((k, None))
            elif rng.random() < 0.15:
                attrs.append((k, gen_value(rng, k in ("rt", "if", "ct"))))
            else:
                attrs.append((k, rng.choice(ATTR_VALUES[k])))
    if rng.random() < 0.25:
        attrs.append(("obs", None))
    if rng.random() < 0.04:
        attrs.append((rng.choice(["RT", "Title", "If"]), rng.choice(["temp", "kitchen light"])))
    rng.shuffle(attrs)
    return attrs


def gen_component(rng):
    r = rng.random()
    if r < 0.13:
        return ""
    if r < 0.25:
        return rng.choice(VOCAB_RESERVED)
    return rng.choice(VOCAB)


def gen_reg_path(rng, existing, for_site):
    """a registration path sharing prefixes with what is there"""
    r = rng.random()
    existing = [list(p) for p in existing]
    if existing and r < 0.15:
        return rng.choice(existing)
    if existing and r < 0.35:
        p = rng.choice(existing)
        return p[:rng.randrange(len(p) + 1)] + [gen_component(rng)]
    if existing and r < 0.5:
        p = rng.choice(existing)
        if p:
            return p[:rng.randrange(1, len(p) + 1)]
    if r < (0.53 if for_site else 0.6):
        return []
    if r < 0.64 and not for_site:
        return [""]
    return [gen_component(rng) for _ in range(rng.choice([1, 1, 1, 2, 2, 3]))]


class Builder:
    """builds a history while tracking the shape of the tree (to steer generation only)"""

    def __init__(self, rng, with_wkc=True, impl_info=""):
        self.rng = rng
        self.ops = []
        self.next_id = 1
        self.shape = {"res": {}, "sub": {}}     # sub: key -> shape | None (leaf)
        self.case = {"wkc": None, "impl_info": impl_info, "ops": self.ops}
        self.wkc_desc = [("ct", "40")]

    def new_id(self):
        self.next_id += 1
        return self.next_id - 1

    def nodes(self, shape=None, addr=()):
        shape = shape or self.shape
        yield list(addr), shape
        for k, sub in shape["sub"].items():
            if sub is not None:
                yield from self.nodes(sub, addr + (k,))

    def full_paths(self, shape=None, prefix=(), nested=False):
        shape = shape or self.shape
        for p in shape["res"]:
            yield list(prefix) + (list(p) if (p or not nested) else [""])
        for k, sub in shape["sub"].items():
            yield list(prefix) + list(k)
            if sub is not None:
                yield from self.full_paths(sub, prefix + k, True)

    def add_wkc(self, addr=(), path=WK):
        if self.case["wkc"] is None:
            self.case["wkc"] = self.new_id()
        self.ops.append(["R", [list(a) for a in addr], list(path), self.case["wkc"], False,
                         [list(x) for x in self.wkc_desc], "wkc"])
        self._shape_at(addr)["res"][tuple(path)] = 1

    def _shape_at(self, addr):
        s = self.shape
        for k in addr:
            s = s["sub"][tuple(k)]
        return s

    def add_res(self, addr, path, hidden=None, attrs=None, kind=None):
        rng = self.rng
        if hidden is None:
            hidden = rng.random() < 0.15
        if kind is None:
            kind = "bare" if (not hidden and rng.random() < 0.05) else "rec"
        if attrs is None:
            attrs = [] if (hidden or kind == "bare") else gen_attrs(rng)
        if kind == "bare":
            attrs, hidden = [], False
        self.ops.append(["R", [list(a) for a in addr], list(path), self.new_id(), hidden,
                         [list(a) for a in attrs], kind])
        self._shape_at(addr)["res"][tuple(path)] = 1

    def add_site(self, addr, path):
        self.ops.append(["S", [list(a) for a in addr], list(path)])
        self._shape_at(addr)["sub"][tuple(path)] = {"res": {}, "sub": {}}

    def add_leaf(self, addr, path):
        self.ops.append(["F", [list(a) for a in addr], list(path), self.new_id()])
        self._shape_at(addr)["sub"][tuple(path)] = None

    def remove(self, addr, path):
        self.ops.append(["D", [list(a) for a in addr], list(path)])
        s = self._shape_at(addr)
        if tuple(path) in s["sub"]:
            del s["sub"][tuple(path)]
        else:
            s["res"].pop(tuple(path), None)

    def get(self, path, upa=None, queries=(), entry=None):
        if entry is None:
            entry = "render" if (upa is None and self.rng is not None
                                 and self.rng.random() < 0.25) else "pipe"
        self.ops.append(["G", upa, list(path), list(queries), entry])


def gen_request_path(rng, b):
    fulls = list(b.full_paths())
    r = rng.random()
    if not fulls or r < 0.08:
        return [gen_component(rng) for _ in range(rng.randrange(0, 4))]
    p = list(rng.choice(fulls))
    r = rng.random()
    if r < 0.4:
        return p
    if r < 0.5:
        return p[:-1]
    if r < 0.62:
        return p + [gen_component(rng)]
    if r < 0.72:
        return p + [""]
    if r < 0.8 and p:
        i = rng.randrange(len(p))
        return p[:i] + [gen_component(rng)] + p[i + 1:]
    if r < 0.86:
        i = rng.randrange(len(p) + 1)
        return p[:i] + [""] + p[i:]
    if r < 0.93:
        return p + [gen_component(rng), gen_component(rng)]
    return p[:rng.randrange(len(p) + 1)]


def href_of(path):
    """how a client would write the path (for generating href filters; not used by the oracle)"""
    return "".join("/" + urllib.parse.quote(c, safe="-._~!$&'()*+,;=:@") for c in path) or "/"


def gen_filter(rng, b, vals):
    """one filter argument `k=pattern` for a /.well-known/core request"""
    if vals and rng.random() < 0.75:
        k, v = rng.choice(vals)
        k = k if rng.random() < 0.93 else rng.choice(["rt", "title", "foo"])
    else:
        k = rng.choice(["rt", "if", "ct", "title", "rel", "obs", "href", "nosuch", "to_py",
                        "attr_pairs", "anchor", "sz", "foo"])
        v = rng.choice(["temp", "x", "", "core.rd", "k"])
    if k == "href" or rng.random() < 0.1:
        k = "href"
        fulls = list(b.full_paths()) or [["a"]]
        v = href_of(rng.choice(fulls)) if rng.random() < 0.8 else "/" + "/".join(rng.choice(fulls))
    v = v or ""
    m = rng.random()
    if m < 0.3:
        pat = v
    elif m < 0.45:
        pat = rng.choice(v.split(" ")) if v else v
    elif m < 0.65:
        pat = v[:rng.randrange(len(v) + 1)] + "*"
    elif m < 0.72:
        tok = rng.choice(v.split(" ")) if v else v
        pat = tok[:rng.randrange(len(tok) + 1)] + "*"
    elif m < 0.78:
        pat = "*"
    elif m < 0.83:
        pat = ""
    elif m < 0.9:
        pat = v[:rng.randrange(len(v) + 1)]
    elif m < 0.95:
        pat = v[1:] + "*" if v else "x*"
    else:
        pat = v + rng.choice(["x", " ", "*x", "**"])
    return f"{k}={pat}"


def gen_queries(rng, b):
    """queries for a /.well-known/core request: no filter, or 1..3 filter arguments (repeated
    names, one argument twice, arguments selecting different links), mixed with non-filter items"""
    r = rng.random()
    if r < 0.22:
        return []
    # collect attribute values in use
    vals = []
    for op in b.ops:
        if op[0] == "R" and not op[4]:
            vals.extend((k, v) for k, v in op[5])
    if r < 0.28:
        return [rng.choice(["obs", "rt", "", "x y", "*"])]
    n = rng.choice([1, 1, 1, 1, 1, 2, 2, 2, 3])
    qs = [gen_filter(rng, b, vals)]
    while len(qs) < n:
        u = rng.random()
        if u < 0.12:
            qs.append(rng.choice(qs))                               # the same argument twice
        elif u < 0.3:
            k = qs[0].split("=", 1)[0]                              # the same name, another pattern
            qs.append(k + "=" + gen_filter(rng, b, vals).split("=", 1)[1])
        elif u < 0.45:
            qs.append(rng.choice(["rt=*", "if=*", "href=/*", "title=*", "ct=40", "rt=temp"]))
        else:
            qs.append(gen_filter(rng, b, vals))
    if rng.random() < 0.08:
        qs.insert(rng.randrange(len(qs) + 1), rng.choice(["obs", "page", ""]))
    return qs


def gen_case(rng, impl_uri):
    b = Builder(rng, impl_info=impl_uri if rng.random() < 0.5 else "")
    if rng.random() < 0.75:
        b.add_wkc()
    n = rng.randrange(4, 30)
    for _ in range(n):
        nodes = list(b.nodes())
        addr, shape = rng.choice(nodes)
        depth = len(addr)
        r = rng.random()
        existing = list(shape["res"]) + list(shape["sub"].keys())
        if r < 0.33:
            b.add_res(addr, gen_reg_path(rng, existing, False))
        elif r < 0.45 and depth < 3:
            p = gen_reg_path(rng, existing, True)
            b.add_site(addr, p)
            # populate a little right away so that nesting is not empty
            for _ in range(rng.randrange(0, 3)):
                b.add_res(addr + [p], gen_reg_path(rng, list(b._shape_at(addr + [p])["res"]), False))
        elif r < 0.5:
            b.add_leaf(addr, gen_reg_path(rng, existing, True))
        elif r < 0.6:
            if existing and rng.random() < 0.8:
                b.remove(addr, list(rng.choice(existing)))
            else:
                b.remove(addr, gen_reg_path(rng, existing, False))
        elif r < 0.63 and b.case["wkc"] is not None:
            b.add_wkc(addr, gen_reg_path(rng, existing, False) if rng.random() < 0.5 else WK)
        elif r < 0.78 and b.case["wkc"] is not None:
            u = rng.random()
            if u < 0.15:
                b.get([], upa=0, queries=gen_queries(rng, b))
            else:
                wk = [p for p in b.full_paths() if p[-2:] == WK] or [WK]
                b.get(rng.choice(wk), queries=gen_queries(rng, b))
        else:
            u = rng.random()
            if u < 0.04:
                b.get([], upa=rng.choice([0, 1, 2, 301, 403, 5, 404, 65535]))
            elif u < 0.06:
                b.get(gen_request_path(rng, b) or ["a"], upa=rng.choice([0, 1, 7]))
            else:
                qs = [] if rng.random() < 0.9 else [rng.choice(["a=b", "x", "rt=temp"])]
                b.get(gen_request_path(rng, b), queries=qs)
    # always end with a sweep over some registered paths
    for p in list(b.full_paths())[:4]:
        b.get(p)
    return b.case


def boundary_routing_cases():
    """a path of n <= 4 components; sub-sites at every subset of its prefix lengths 0..n (the
    improper ones included); exact resource present or not; last component empty or not"""
    comps = ["a", "b", "c", "d"]
    cases = []
    for n in range(0, 5):
        for trailing in (False, True):
            if trailing and n == 0:
                continue
            p = comps[:n]
            if trailing:
                p = p[:-1] + [""]
            for mask in range(1 << (n + 1)):
                lens = [i for i in range(n + 1) if mask >> i & 1]
                if len(lens) > 3 and n == 4 and not trailing and mask % 3:
                    continue        # thin out the largest table a little
                for exact in (False, True):
                    for leafy in (False, True):
                        b = Builder(None)
                        for L in lens:
                            if leafy:
                                b.add_leaf([], p[:L])
                            else:
                                b.add_site([], p[:L])
                                for rl in range(0, n - L + 1):
                                    b.add_res([p[:L]], p[L:L + rl], hidden=False, attrs=[], kind="rec")
                        if exact:
                            b.add_res([], p, hidden=False, attrs=[], kind="rec")
                        b.get(p, entry="pipe")
                        b.get(p, entry="render")
                        if p:
                            b.get(p + [""], entry="pipe")
                            b.get(p[:-1], entry="pipe")
                        if exact:
                            b.remove([], p)
                            b.get(p, entry="pipe")
                        cases.append(b.case)
    return cases


def boundary_alias_cases():
    """one nested Site object registered under two paths (side by side, one below the other's parent, below
    different parents), with resources added before and after the second registration, removals through one
    name, discovery with and without filters; oracle only"""
    cases = []
    for where in ("siblings", "nested-parent", "two-parents"):
        for late in (False, True):
            for drop in (None, "first", "second"):
                b = Builder(None)
                if where == "siblings":
                    src, dst = ([], ["v1"]), ([], ["latest"])
                elif where == "nested-parent":
                    b.add_site([], ["p"])
                    src, dst = ([], ["v1"]), ([["p"]], ["again"])
                else:
                    b.add_site([], ["f1"]); b.add_site([], ["f2"])
                    src, dst = ([["f1"]], ["blk"]), ([["f2"]], ["blk"])
                b.add_site(src[0], src[1])
                inner = [list(x) for x in src[0]] + [src[1]]
                b.add_res(inner, ["temp"], hidden=False, attrs=[["rt", "temp"]], kind="rec")
                b.add_wkc()
                b.ops.append(["A", [list(a) for a in src[0]], list(src[1]), [list(a) for a in dst[0]], list(dst[1])])
                if late:
                    b.add_res(inner, ["hum"], hidden=False, attrs=[["rt", "hum"]], kind="rec")
                full1 = [c for a in src[0] for c in a] + src[1]
                full2 = [c for a in dst[0] for c in a] + dst[1]
                if drop == "first":
                    b.ops.append(["D", [list(a) for a in src[0]], list(src[1])])
                elif drop == "second":
                    b.ops.append(["D", [list(a) for a in dst[0]], list(dst[1])])
                for full in (full1, full2):
                    b.get(full + ["temp"], entry="pipe")
                    b.get(full + ["hum"], entry="pipe")
                b.get(WK, entry="pipe")
                b.ops.append(["G", None, list(WK), ["rt=temp"], "pipe"])
                b.ops.append(["G", None, list(WK), ["href=/" + "/".join(full2) + "/*"], "pipe"])
                cases.append(b.case)
    return cases


def boundary_upa_cases():
    """every registered Uri-Path-Abbrev value and its neighbours, with and without a resource at
    the expanded path, alone and together with a Uri-Path"""
    cases = []
    for registered in (False, True):
        b = Builder(None)
        b.add_wkc()
        b.add_site([], [".well-known"])     # never consulted: the exact resource wins
        if registered:
            for n, path in ORACLE_UPA.items():
                if n:
                    b.add_res([], path, hidden=False, attrs=[], kind="rec")
        else:
            b.add_res([[".well-known"]], ["est", "crts"], hidden=False, attrs=[], kind="rec")
            b.add_leaf([], [".well-known", "brski"])
        nums = sorted({m for n in ORACLE_UPA for m in (n - 1, n, n + 1) if m >= 0} | {65535, 2 ** 32 - 1})
        for n in nums:
            b.get([], upa=n)
        for n in (0, 1, 5):
            b.get(["a"], upa=n)
            b.get([""], upa=n)
        cases.append(b.case)
    return cases


def boundary_filter_cases(impl_uri):
    pats = ["temp", "light", "temp light", "tem*", "temp*", "temp l*", "*", "", "t", "emp*",
            "light*", "lig", "temp light*", "temp lightx", "TEMP", "t*", "ight*", " *", "temp *",
            "**", "temp**"]
    cases = []
    for k in ["rt", "if", "ct", "title", "rel", "foo", "obs", "href", "anchor"]:
        for impl in ("", impl_uri):
            b = Builder(None, impl_info=impl)
            b.add_wkc()
            b.add_res([], ["one"], hidden=False, attrs=[(k, "temp light")] if k != "href" else [], kind="rec")
            b.add_res([], ["two"], hidden=False, attrs=[(k, None)] if k != "href" else [("obs", None)], kind="rec")
            b.add_res([], ["three"], hidden=False, attrs=[("title", "temp light"), ("rt", "light temp")], kind="rec")
            b.add_res([], ["temp light"] if k == "href" else ["four"], hidden=False, attrs=[], kind="rec")
            b.add_res([], ["hidden"], hidden=True, attrs=[], kind="rec")
            b.add_site([], ["sub"])
            b.add_res([["sub"]], ["five"], hidden=False, attrs=[(k, "light")] if k != "href" else [], kind="rec")
            b.add_res([["sub"]], [], hidden=False, attrs=[(k, "temp")] if k != "href" else [], kind="rec")
            b.get(WK)
            for pat in pats:
                if k == "href":
                    for hp in ["/" + pat, "/sub/" + pat, "/sub" + pat]:
                        b.get(WK, queries=[f"href={hp}"])
                else:
                    b.get(WK, queries=[f"{k}={pat}"])
            b.get([], upa=0, queries=[f"{k}=*"])
            cases.append(b.case)
    return cases


def boundary_multifilter_cases(impl_uri):
    """a fixed set of links whose attributes make the filter arguments select overlapping,
    nested and disjoint subsets; every ordered pair of arguments (so "only the last one is
    applied" and "only the first one" both show), selected ordered triples, a non-filter item in
    between, the same argument twice"""
    args = ["rt=temp", "rt=light", "if=sensor", "if=actuator", "rt=t*", "rt=l*", "href=/t",
            "href=/sub/*", "href=/*", "title=multi", "title=m*", "obs=*", "nosuch=x", "rt=*",
            "ct=40", "rel=impl-info"]

    def site(impl):
        b = Builder(None, impl_info=impl)
        b.add_wkc()
        b.add_res([], ["t"], hidden=False, attrs=[("rt", "temp"), ("if", "sensor")], kind="rec")
        b.add_res([], ["l"], hidden=False, attrs=[("rt", "light"), ("if", "sensor")], kind="rec")
        b.add_res([], ["u"], hidden=False, attrs=[("rt", "temp"), ("if", "actuator")], kind="rec")
        b.add_res([], ["m"], hidden=False, attrs=[("rt", "temp light"), ("title", "multi")], kind="rec")
        b.add_res([], ["o"], hidden=False, attrs=[("obs", None), ("rt", "light")], kind="rec")
        b.add_res([], ["p"], hidden=False, attrs=[], kind="rec")
        b.add_res([], ["h"], hidden=True, attrs=[], kind="rec")
        b.add_site([], ["sub"])
        b.add_res([["sub"]], ["n"], hidden=False, attrs=[("rt", "temp"), ("if", "sensor actuator")], kind="rec")
        b.add_res([["sub"]], [], hidden=False, attrs=[("title", "multi"), ("if", "actuator")], kind="rec")
        return b
    cases = []
    for i, first in enumerate(args):
        b = site(impl_uri if i % 2 else "")
        b.get(WK, entry="pipe")
        b.get(WK, queries=[first], entry="pipe")
        for second in args:
            b.get(WK, queries=[first, second], entry="pipe" if i % 3 else "render")
        b.get(WK, queries=[first, "page", args[(i + 1) % len(args)]], entry="pipe")
        b.get([], upa=0, queries=[first, args[(i + 5) % len(args)]])
        cases.append(b.case)
    triple_args = ["rt=temp", "if=sensor", "href=/sub/*", "rt=l*", "title=m*", "if=actuator"]
    for x in triple_args:
        b = site("")
        for y in triple_args:
            for z in triple_args:
                if len({x, y, z}) >= 2:
                    b.get(WK, queries=[x, y, z], entry="pipe")
        cases.append(b.case)
    return cases


def boundary_escape_cases():
    """every ASCII character (alone and inside a component) and selected UTF-8 sequences as a path
    component of a root resource, of a resource below a nested site, and as the key of a nested
    site; components that differ only by what escaping has to keep apart"""
    comps = [chr(c) for c in range(128)] + ["x" + chr(c) + "y" for c in range(128)]
    comps = [c for c in comps if c not in (".", "..")]
    comps += ["ä", "日本", "\u20ac", "\U0001f600", "é/è", "\x80",
              "%41", "A", "%2F", "a%2Fb", "a/b", "%", "%%", "%4", "100%", "a b", "a+b", "a%20b",
              "x>y", "a,b", "s;t", "</y>;rt=\"z\"", "...", ".a", "a.", "%2e", "%2E%2E"]
    cases = []
    for start in range(0, len(comps), 12):
        chunk = comps[start:start + 12]
        b = Builder(None)
        b.add_wkc()
        b.add_site([], ["n"])
        n = 0
        for c in chunk:
            n += 1
            b.add_res([], [c], hidden=False, attrs=[("sz", str(n))], kind="rec")
            n += 1
            b.add_res([["n"]], [c, ""], hidden=False, attrs=[("sz", str(n))], kind="rec")
            b.add_site([], [c, "s"])
            n += 1
            b.add_res([[c, "s"]], ["r"], hidden=False, attrs=[("sz", str(n))], kind="rec")
        b.get(WK, entry="pipe")
        for c in chunk:
            b.get([c], entry="pipe")
            b.get(["n", c, ""], entry="pipe")
            b.get([c, "s", "r"], entry="pipe")
            b.get(WK, queries=["href=" + href_of([c]) + "*"], entry="pipe")
        cases.append(b.case)
    # pairs that unescaped joining would confuse
    b = Builder(None)
    b.add_wkc()
    for i, path in enumerate([["a/b"], ["a", "b"], ["%41"], ["A"], ["a%2Fb"], ["a", ""], ["a/"], ["a//"],
                              ["a", "", ""], ["q?x"], ["q"], ["f#g"], ["f"], ["a b"], ["a%20b"]]):
        b.add_res([], path, hidden=False, attrs=[("sz", str(i))], kind="rec")
    b.get(WK, entry="pipe")
    for op in list(b.ops):
        if op[0] == "R" and op[6] == "rec":
            b.get(op[2], entry="pipe")
    cases.append(b.case)
    return cases


def boundary_attr_value_cases():
    """attribute values over RFC 6690's quoted-string alphabet: every ASCII character alone, doubled,
    at the start, in the middle and at the end of a value, the strings made of backslashes and quotes up to
    length 3, values that look like link-format themselves, non-ASCII and empty values — as `title`
    (quoted-string), as a custom attribute (link-extension), as an entry of `rt`, in the description of a
    root resource, of a nested site's resource and in front of / between / behind other resources; the
    listing, an exact and a prefix filter on each value"""
    values = []
    for c in range(128):
        ch = chr(c)
        values += [ch, ch + ch, ch + "y", "x" + ch + "y", "x" + ch]
    bq = ["\\", '"']
    for a in bq:
        for b in bq:
            values.append("x" + a + b)
            values.append(a + b + "y")
            for c in bq:
                values.append(a + b + c)
                values.append("x" + a + b + c + "y")
    values += ["C:\\", "a\\b", "\\\\server\\share\\", 'say "hi"', '"quoted"', '\\"', '"\\', '",</y>;rt="z', '</y>;rt="z"',
               '";rt="z', ',</y>', ";obs", "a;b=c,d", "<>", "><", "ä", "日本", "\u20ac\\", "\U0001f600\"", "é\\è",
               "", " ", "  ", " a ", "a  b", "\r\n", "*", "a*", "\\*", '"*']
    seen, uniq = set(), []
    for v in values:
        if v not in seen:
            seen.add(v)
            uniq.append(v)
    cases = []
    for start in range(0, len(uniq), 6):
        chunk = uniq[start:start + 6]
        b = Builder(None)
        b.add_res([], ["first"], hidden=False, attrs=[("rt", "sentinel")], kind="rec")
        b.add_wkc()
        b.add_site([], ["n"])
        for i, v in enumerate(chunk):
            b.add_res([], ["t%d" % i], hidden=False, attrs=[("title", v), ("sz", str(i))], kind="rec")
            b.add_res([["n"]], ["e%d" % i], hidden=False, attrs=[("if", "core.s"), ("ext", v)], kind="rec")
            if " " not in v:
                b.add_res([], ["r%d" % i], hidden=False, attrs=[("rt", "a " + v if v else "a"), ("obs", None)],
                          kind="rec")
            b.add_res([["n"]], ["s%d" % i], hidden=False, attrs=[("rt", "sentinel")], kind="rec")
        b.add_res([], ["last"], hidden=False, attrs=[("rt", "sentinel")], kind="rec")
        b.get(WK, entry="pipe")
        b.get(WK, queries=["rt=sentinel"], entry="pipe")
        for i, v in enumerate(chunk):
            b.get(WK, queries=["title=" + v], entry="pipe")
            b.get(WK, queries=["ext=" + v[:max(1, len(v) - 1)] + "*"], entry="pipe" if i % 2 else "render")
            if " " not in v and v:
                b.get(WK, queries=["rt=" + v, "obs"], entry="pipe")
        b.get([], upa=0)
        cases.append(b.case)
    return cases


def boundary_root_spelling_cases():
    """the spellings of a site's root: resources at [] / [''] / ['',''] / ['a'] (every non-empty
    subset) in a nested site registered at [] / ['k'] / ['k',''], with and without root-level
    resources at [] and ['']; requests for every address around them, before and after the []
    resource is removed"""
    res_paths = [[], [""], ["", ""], ["a"]]
    cases = []
    for key in ([], ["k"], ["k", ""]):
        for mask in range(1, 16):
            for rootmask in range(4):
                b = Builder(None)
                b.add_wkc()
                b.add_site([], key)
                for i, rp in enumerate(res_paths):
                    if mask >> i & 1:
                        b.add_res([key], rp, hidden=False, attrs=[("sz", str(i))], kind="rec")
                if rootmask & 1:
                    b.add_res([], [], hidden=False, attrs=[("sz", "10")], kind="rec")
                if rootmask & 2:
                    b.add_res([], [""], hidden=False, attrs=[("sz", "11")], kind="rec")
                for rnd in range(2):
                    b.get(WK, entry="pipe")
                    for tail in ([], [""], ["", ""], ["a"], ["", "a"], ["a", ""]):
                        b.get(key + tail, entry="pipe" if (mask + rnd) % 2 else "render")
                    for p in ([], [""], ["", ""]):
                        b.get(p, entry="pipe")
                    if rnd == 0:
                        if mask & 1:
                            b.remove([key], [])
                        else:
                            b.add_res([key], [], hidden=False, attrs=[("sz", "20")], kind="rec")
                cases.append(b.case)
    return cases


# --------------------------------------------------------------------------- run

def classify(rep, case, outs, obs):
    rep.count("ops/case=%s" % min(len(case["ops"]) // 10 * 10, 40))
    depth = 0
    for op in case["ops"]:
        rep.count("op=" + op[0])
        if op[0] in "SFRD":
            depth = max(depth, len(op[1]) + (1 if op[0] in "SF" else 0))
        if op[0] in "SF" and not op[2]:
            rep.count("reg:site-at-empty-path")
        if op[0] == "R" and op[2] == [""] and op[1]:
            rep.count("reg:nested-lone-empty-component")
        if op[0] in "SFR" and any(any(ch not in PCHAR for ch in c) for c in op[2]):
            rep.count("reg:component-needs-escaping")
        if op[0] == "G":
            rep.count("entry=" + op[4])
            if op[1] is not None:
                rep.count("upa")
            if op[3]:
                f = [q for q in op[3] if "=" in q]
                rep.count("query:filters=%d" % len(f))
                for one in f:
                    k, v = one.split("=", 1)
                    rep.count("filter:key=" + (k if k in ("rt", "if", "ct", "title", "rel", "obs", "href")
                                               else "other"))
                    rep.count("filter:" + ("prefix" if v.endswith("*") else "exact"))
    rep.count("nesting-depth=%d" % depth)
    kinds = set()
    for t in outs:
        kind = t.split(":")[0]
        kinds.add(kind)
        rep.count("result=" + kind)
        if kind == "H" and t.split(":")[2] != ".":
            rep.count("hit:leaf-with-remainder")
    for o in obs.values():
        if o["kind"] == "links":
            rep.count("listing:links=%s" % min(len(o["links"]), 8))
            for _, attrs in o["links"]:
                for _, v in attrs:
                    if v is not None and ("\\" in v or '"' in v):
                        rep.count("listing:value-needs-quoted-pair")
    for op in case["ops"]:
        if op[0] == "R" and any(v is not None and ("\\" in v or '"' in v) for _, v in op[5]):
            rep.count("reg:attr-value-needs-quoted-pair")
    return ("H" in kinds or "L" in kinds) and (depth >= 1 or "404" in kinds)


def run(env, rep):
    aiocoap = env.import_repo()
    import aiocoap.pipe  # noqa: F401
    from aiocoap import meta
    __import__("common").quiet(logging.getLogger("coap-verif-c17"))
    impl_uri = meta.library_uri
    rng = env.rng
    from aiocoap import resource
    Builder.wkc_desc = list(resource.WKCResource(lambda: None).get_link_description().items())

    cases = []
    for fn, c in load_corpus("C17"):
        c = dict(c)
        if c.get("impl_info") == "<library_uri>":
            c["impl_info"] = impl_uri
        cases.append(c)
        rep.count("source=corpus")
    bt = (boundary_routing_cases() + boundary_upa_cases() + boundary_filter_cases(impl_uri) + boundary_alias_cases()
          + boundary_multifilter_cases(impl_uri) + boundary_escape_cases() + boundary_root_spelling_cases()
          + boundary_attr_value_cases())
    rep.count("source=boundary", len(bt))
    rep.exhaustive_parts.append(f"routing boundary table ({len(boundary_routing_cases())} histories), Uri-Path-Abbrev table, "
                                "filter pattern table, all ordered pairs of 16 filter arguments, every ASCII character as "
                                "path component, the []/['']/['',''] root-spelling table, and every ASCII character / all backslash-quote "
                                "strings up to length 3 as attribute value enumerated in full")
    cases += bt
    n = env.scale(4000, 60000)
    for _ in range(n):
        cases.append(gen_case(rng, impl_uri))
    rep.count("source=random", n)

    loop = asyncio.new_event_loop()
    try:
        lines, impl_outs, kept = [], [], []
        for case in cases:
            outs, obs = loop.run_until_complete(run_history(aiocoap, case))
            nontrivial = classify(rep, case, outs, obs)
            rep.case(case, nontrivial=nontrivial, sample_every=400)
            v = oracle(case, obs)
            if v:
                rep.oracle_fail(case, v[0], key=v[1])
            if any(op[0] == "A" for op in case["ops"]):
                # one Site object under two paths: the model's trees are values, judged by the oracle only
                rep.count("oracle-only:shared-site-object")
                continue
            lines.append(case_line(case))
            impl_outs.append(" ".join(outs) if outs else "-")
            kept.append(case)
            if len(lines) >= 2000:
                compare(env, rep, kept, lines, impl_outs, what="site history")
                lines, impl_outs, kept = [], [], []
        compare(env, rep, kept, lines, impl_outs, what="site history")
    finally:
        loop.close()
    if rep.oracle_failures or rep.disagreements:
        return      # implementation-derived counters mean nothing on a failing tree
    for need in ("result=H", "result=404", "result=L", "result=KeyError", "result=ok", "result=402",
                 "hit:leaf-with-remainder", "nesting-depth=3", "filter:prefix", "filter:exact",
                 "entry=render", "entry=pipe", "upa", "query:filters=0", "query:filters=1",
                 "query:filters=2", "query:filters=3", "reg:site-at-empty-path",
                 "reg:nested-lone-empty-component", "reg:component-needs-escaping",
                 "reg:attr-value-needs-quoted-pair", "listing:value-needs-quoted-pair"):
        if not rep.hist.get(need):
            raise HarnessError(f"generators produced no case with {need}")


def replay(env, case):
    aiocoap = env.import_repo()
    import aiocoap.pipe  # noqa: F401
    __import__("common").quiet(logging.getLogger("coap-verif-c17"))
    if case.get("impl_info") == "<library_uri>":
        from aiocoap import meta
        case = dict(case, impl_info=meta.library_uri)
    loop = asyncio.new_event_loop()
    try:
        outs, obs = loop.run_until_complete(run_history(aiocoap, case))
    finally:
        loop.close()
    v = oracle(case, obs)
    return v[0] if v else ""
