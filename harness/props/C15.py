"""C15 — CoAP over TCP: framing independent of segmentation, signalling rules enforced.

Correspondence (model ≈ code), all through the real code of `VERIF_REPO`:
  F  a whole session of the real `TcpConnection` (+ `_TCPPooling` glue of TCPServer/TCPClient)
     over a fake `asyncio.Transport` and a recording token manager vs Lean `session`
     (`connectionMade`, `feedAll`, `connectionLost`): same events in the same order and the
     same final state (spool, remote settings, closed);
  X/L/D/S  `_extract_message_size`, `_encode_length`, `_decode_message`, `_serialize`
     (via `TcpConnection._send_message`) vs the Lean functions;
  P  the sending side of the token interface, `_TCPPooling.send_message` of TCPClient and
     TCPServer, with requests and responses carrying No-Response values, vs Lean `poolSend`.
Oracle: an independent RFC 8323 §3.2 / RFC 7252 §3.1 framer (harness/c15_sim.py) reads the
joined stream and says what the property demands; the whole session is judged, including what
happens after the first close (nothing may be dispatched or written any more), and every
chunking of a stream is judged against that same reading.  "Send Abort and close", "answered by
Pong" are judged on what reaches the PEER: the fake transport has a write buffer (the peer may
have stopped reading), close() flushes it, abort() throws it away (keys tcp-abort-lost,
tcp-write-lost).  Sessions run with warnings as errors: a warning issued by library code while
it handles the peer's bytes escapes data_received like any exception.  `send_message` is judged against the
RFC framing of the message handed in (requests keep every option and are not modified).  A few
sessions run with the real TokenManager to see pending requests actually fail with a
NetworkError on Release/Abort.
"""
import itertools
import warnings

from common import compare, load_corpus, HarnessError
import c15_sim as sim
from c15_sim import spec, unspec, render, o_frame, o_body

RULE = ("Streams are built by an independent RFC 8323 framer from message sequences (requests, "
        "responses, empty, all signalling codes incl. unknown ones) whose option/payload sizes are "
        "steered onto the 12/13/268/269/65804/65805 body-length boundaries, the option delta/length "
        "boundaries and the max-message-size limit (+-1); malformed frames (TKL>8, option nibble 15, "
        "truncated options, invalid UTF-8 in requests/responses, oversize announcements, garbage) are inserted at every "
        "position (<= 50 % of sessions). Signalling messages (7.xx) draw their options from 2/4 and from every number that is "
        "a string or integer option of requests and responses (3 8 11 15 20 35 39 / 6 7 12 13 14 16 17 23 27 28 60 258) and "
        "unknown ones, elective and critical, with values that are well-formed and ill-formed for that ordinary format "
        "(non-UTF-8, leading zero bytes, 9+ byte integers); the full table number x value x {CSM, Ping, Pong, Release, Abort} "
        "is enumerated as first message and after a CSM. Empty messages are put ahead of the peer's CSM, between and behind "
        "other messages. Every kind of connection-ending signalling message (critical option in "
        "CSM/Ping/Pong/Release/Abort, unknown 7.xx code, valid Release/Abort) is followed in the same stream by a "
        "Ping / request / response / CSM / second such message, as first message and after a valid CSM, whole and in "
        "every 2-cut. send_message is called with every No-Response value of {absent,0,2,8,16,24,26,127,...} x "
        "request/response codes of every class x client/server role. Each stream is cut exhaustively into all chunkings when it is "
        "short (<= 11 bytes; 14 in the thorough tier), otherwise whole / single bytes / every 2-cut around the headers / random "
        "cuts. Pings carry tokens of every length 0..8 (zeros, ff, counting, random), with and without elective options, first "
        "and after the CSM. Back-pressure: every session shape of the tables (and 70 % of the random ones) also runs against a peer "
        "that stops reading after `room` bytes (0, 1, 6, 7 = exactly the endpoint's CSM, 8, 10, 12, 40, random < 300), so that "
        "whatever the endpoint writes next - Pong, Abort - waits in the transport's write buffer when the connection is closed. "
        "All sessions run with warnings turned into errors (as under python -W error). "
        "A case is non-trivial when the connection did something beyond its initial CSM; "
        "distinct by (max size, chunk list, room).")
TRUSTED = ["fake asyncio.Transport and recording token manager (harness/c15_sim.py); "
           "asyncio is represented by: is_closing() is true after close() or abort(), no data_received after that, "
           "connection_lost(None) after it; write() never blocks and queues what the socket does not take; close() flushes "
           "the write buffer before the connection ends, abort() discards it (asyncio's documented WriteTransport contract); "
           "the events compared and judged are the peer's view (bytes that reach it, end of connection)"]
ASSUMPTIONS = ["bytes are delivered in order and unmodified (TCP); only the segmentation varies",
               "option deltas / lengths above 65804 in *outgoing* messages cannot be encoded (RFC 7252 3.1); their "
               "refusal is C01's topic and not judged here"]

BODY_BOUNDS = [0, 1, 11, 12, 13, 14, 267, 268, 269, 270, 65803, 65804, 65805, 65806]
EXT_BOUNDS = [0, 1, 12, 13, 14, 268, 269, 270, 65803, 65804]
KNOWN_STR = [3, 8, 11, 15, 20, 35, 39]
KNOWN_UINT = [6, 7, 12, 13, 14, 16, 17, 23, 27, 28, 60, 258]
KNOWN_OPAQUE = [1, 4, 5, 9, 19, 21, 31, 252, 292, 548]
UNKNOWN = [2, 10, 18, 22, 40, 65, 300, 2049, 65000, 65001]
DEFAULT_MAX = 1024 * 1024
N_EXHAUSTIVE = 0
# Numbers that mean something in requests and responses mean nothing in a signalling message
# (RFC 8323 5.2).  Elective (even) and critical (odd) ones, with the ordinary format that must NOT
# be applied to them there.
SIG_ELECTIVE = [8, 20, 6, 12, 14, 16, 28, 60, 258, 10, 300, 2048]
SIG_CRITICAL = [3, 11, 15, 35, 39, 7, 13, 17, 23, 27, 1, 5, 65001]
BAD_UTF8 = [b"\xff", b"\xff\xfe", b"\xc0\x80", b"\xe0\x9f\xbf", b"\xed\xa0\x80", b"\xf4\x90\x80\x80", b"ab\xc3", b"\x80"]
ODD_UINT = [b"\x00", b"\x00\x01", b"\x00\x00\x00", b"\x80\x00\x00\x00\x00\x00\x00\x00\x01", b"\x00" * 9]

CSM0 = o_frame(225, b"", b"")


# --------------------------------------------------------------------------- generators

def gen_text(rng, n):
    out = bytearray()
    alphabet = ["a", "b", "/", "0", "é", "ß", "€", "가", "𝄞", "߿", "ࠀ", "￿", "\U00010000", "\U0010ffff"]
    while len(out) < n:
        c = rng.choice(alphabet).encode()
        if len(out) + len(c) > n:
            c = b"x"
        out += c
    return bytes(out)


def gen_value(rng, num, n=None):
    if num in KNOWN_STR:
        return gen_text(rng, rng.choice([0, 1, 3, 5, 12, 13, 14, 20]) if n is None else n)
    if num in KNOWN_UINT:
        if n is not None:
            return (bytes([rng.randrange(1, 256)]) + bytes(rng.randrange(256) for _ in range(n - 1))) if n else b""
        v = rng.choice([0, 1, 23, 255, 256, 65535, 65536, rng.getrandbits(32)])
        b = v.to_bytes((v.bit_length() + 7) // 8, "big")
        if rng.random() < 0.15:
            b = b"\0" * rng.randrange(1, 3) + b          # valid but not minimal
        return b
    if n is None:
        n = rng.choice([0, 0, 1, 2, 8, 12, 13, 14])
    return bytes(rng.randrange(256) for _ in range(n))


def gen_sig_value(rng, num):
    """value of an option in a signalling message: well-formed or ill-formed for the format the
    same number has in requests and responses -- which has no say there"""
    r = rng.random()
    if r < 0.4:
        if num in KNOWN_STR:
            return rng.choice(BAD_UTF8)
        if num in KNOWN_UINT:
            return rng.choice(ODD_UINT)
        return bytes(rng.randrange(256) for _ in range(rng.choice([1, 2, 3, 9])))
    if r < 0.5:
        return rng.choice(BAD_UTF8 + ODD_UINT)
    return gen_value(rng, num)


def gen_opts(rng, signalling=False, critical_ok=False):
    r = rng.random()
    if signalling:
        pool = [2, 4, 4, 6, 10, 300] + SIG_ELECTIVE + (SIG_CRITICAL if critical_ok else [])
        k = rng.choice([0, 0, 1, 1, 2, 3])
    else:
        pool = KNOWN_STR + KNOWN_UINT + KNOWN_OPAQUE + (UNKNOWN if r < 0.3 else [])
        k = rng.choice([0, 1, 2, 3, 4, 6])
    nums = sorted(rng.choice(pool) for _ in range(k))
    out = []
    for n in nums:
        if signalling and n == 2:
            v = rng.choice([16, 1152, 65536, 1 << 20, 1 << 32])
            out.append((n, v.to_bytes((v.bit_length() + 7) // 8, "big")))
        elif signalling and n == 4:
            out.append((n, b""))
        elif signalling:
            out.append((n, gen_sig_value(rng, n)))
        else:
            out.append((n, gen_value(rng, n)))
    return out


def gen_code(rng):
    r = rng.random()
    if r < 0.35:
        return rng.choice([1, 2, 3, 4, 5, 6, 7])
    if r < 0.65:
        return rng.choice([65, 68, 69, 95, 128, 132, 160, 165, 191, 64])
    if r < 0.75:
        return 0
    if r < 0.80:
        return rng.choice([31, 32, 63, 192, 223, 20])      # class borders / reserved classes
    if r < 0.985:
        return rng.choice([225, 226, 226, 227, 228, 229])
    return rng.choice([224, 230, 255])


def gen_token(rng):
    n = rng.choice([0, 0, 1, 2, 4, 8, 8])
    return bytes(rng.randrange(256) for _ in range(n))


def gen_message(rng, body_len=None, critical_ok=False):
    """(code, token, opts, payload); with body_len the options+payload are exactly that long"""
    code = gen_code(rng)
    token = gen_token(rng)
    opts = gen_opts(rng, signalling=code >= 224, critical_ok=critical_ok)
    if body_len is None:
        n = rng.choice([0, 0, 1, 5, 11, 12, 13, 14, 40, 267, 268, 269, 300]) if rng.random() < 0.8 else rng.randrange(0, 2000)
        payload = bytes(rng.randrange(256) for _ in range(n)) if n < 64 else bytes([rng.randrange(256)]) * n
        return code, token, opts, payload
    while len(sim.o_options(opts)) > body_len:
        opts = opts[:-1]
    rest = body_len - len(sim.o_options(opts))
    if rest == 0:
        payload = b""
    elif rest == 1:
        # a lone payload marker is not a legal way to fill one byte: repeat the last option
        # number (or use number 0) with an empty value, which is the single byte 0x00
        opts = opts + [(opts[-1][0] if opts else 0, b"")]
        payload = b""
    else:
        payload = bytes([rng.randrange(256)]) * (rest - 1)
    return code, token, opts, payload


def frame_of(m):
    code, token, opts, payload = m
    return o_frame(code, token, o_body(opts, payload))


def gen_malformed(rng, maxsize):
    """one malformed / oversized frame or garbage"""
    k = rng.randrange(9)
    token = gen_token(rng)
    code = rng.choice([1, 2, 69, 225, 226])
    if k == 0:      # TKL 9..15
        tkl = rng.randrange(9, 16)
        body = b""
        return bytes([len(body) << 4 | tkl, code]) + bytes(tkl) + body, "tkl>8"
    if k == 1:      # option nibble 15 (delta or length)
        b = rng.choice([0xF0, 0xF1, 0x1F, 0xFE, 0xEF])
        return o_frame(code, token, bytes([b]) + b"\x00\x00"), "nibble15"
    if k == 2:      # option value announced but absent
        return o_frame(code, token, bytes([0xB5]) + b"ab"), "opt-truncated"
    if k == 3:      # extended delta/length truncated
        return o_frame(code, token, rng.choice([b"\xd0", b"\xe0\x01", b"\x0d", b"\x0e\x00"])), "ext-truncated"
    if k == 4:      # invalid UTF-8 in a string option of a request, response or code-0.00 frame
        bad = rng.choice(BAD_UTF8)
        num = rng.choice(KNOWN_STR)
        return o_frame(rng.choice([1, 2, 69, 0]), token, sim.o_options([(num, bad)])), "bad-utf8"
    if k == 5:      # announces more than the local maximum
        over = maxsize + rng.choice([1, 1, 2, 100, 70000])
        for extra in (0, 1, 2, 4):
            bl = over - 2 - extra - len(token)
            if bl >= 0 and len(_hdr(bl, len(token))) == 1 + extra:
                # the header is enough: the body need not arrive
                return _hdr(bl, len(token)) + bytes([code]) + token + b"\x00" * rng.choice([0, 3]), "oversize"
        return b"\xf0\xff\xff\xff\xff", "oversize"
    if k == 6:
        return b"\xf0\xff\xff\xff\xff", "oversize"
    if k == 7:
        return rng.choice([b"GET /.well-known/core HTTP/1.0\r\n\r\n", b"\x16\x03\x01\x02\x00\x01\x00\x01\xfc\x03\x03"]), "garbage"
    return bytes(rng.randrange(256) for _ in range(rng.randrange(1, 12))), "random"


def _hdr(n, tkl):
    if n <= 12:
        return bytes([n << 4 | tkl])
    if n <= 268:
        return bytes([13 << 4 | tkl, n - 13])
    if n <= 65804:
        return bytes([14 << 4 | tkl]) + (n - 269).to_bytes(2, "big")
    return bytes([15 << 4 | tkl]) + (n - 65805).to_bytes(4, "big")


def all_chunkings(stream):
    n = len(stream)
    for mask in range(1 << (n - 1)):
        cuts = [i + 1 for i in range(n - 1) if mask >> i & 1]
        yield cut_at(stream, cuts)


def cut_at(stream, cuts):
    out = []
    last = 0
    for c in sorted(set(cuts)):
        if 0 < c < len(stream):
            out.append(stream[last:c])
            last = c
    out.append(stream[last:])
    return [c for c in out if c]


def some_chunkings(rng, stream, frame_starts, n_random):
    """whole, single bytes (when not huge), 2-cuts around every frame start/header, random"""
    n = len(stream)
    yield "whole", [stream]
    if n <= 600:
        yield "bytes", [stream[i:i + 1] for i in range(n)]
    for s in frame_starts:
        for d in (-1, 0, 1, 2, 3, 5, 7):
            if 0 < s + d < n:
                yield "2cut", cut_at(stream, [s + d])
    for _ in range(n_random):
        k = rng.choice([1, 2, 3, 5, 8, 20])
        cuts = [rng.randrange(1, n) for _ in range(min(k, n - 1))] if n > 1 else []
        yield "random", cut_at(stream, cuts)
    if n > 3:
        # small pieces at the start (headers byte by byte), the rest in one go
        yield "head-bytes", [stream[i:i + 1] for i in range(min(n - 1, 12))] + [stream[min(n - 1, 12):]]


# --------------------------------------------------------------------------- case tables

def session_case(maxsize, chunks, client=False, tag="", room=None):
    c = {"kind": "F", "maxsize": maxsize, "chunks": [spec(c) for c in chunks], "client": client, "tag": tag}
    if room is not None:
        c["room"] = room
    return c


def small_case(case):
    """what identifies an F case (and is stored as its replay)"""
    c = {"kind": "F", "maxsize": case["maxsize"], "chunks": case["chunks"], "client": case.get("client", False)}
    if case.get("room") is not None:
        c["room"] = case["room"]
    return c


# Back-pressure: the peer stops reading after `room` bytes, what the endpoint writes after that waits in the
# transport's write buffer.  The endpoint's own CSM is 7 bytes (5 with a one-byte maximum size), a Pong 2..10.
ROOMS = [0, 1, 6, 7, 8, 10, 12, 40]


def backpressure_sessions(env, cases):
    """Every session shape of the deterministic tables again with a peer that does not read: each distinct
    (max size, stream) once per table row in one delivery shape (whole and one cut), with every value of ROOMS for
    the streams that end the connection or make the endpoint write, and one drawn value for the others."""
    rng = env.rng
    out = []
    seen = set()
    for c in cases:
        if c.get("room") is not None or len(c["chunks"]) > 3:
            continue
        stream = "".join(c["chunks"])
        k = (c["maxsize"], stream, len(c["chunks"]) > 1)
        if k in seen or len(stream) > 800:
            continue
        seen.add(k)
        chunks = [unspec(x) for x in c["chunks"]]
        if sum(len(x) for x in chunks) > 2000:
            continue
        tag = "backpressure:" + c.get("tag", "corpus").split(":")[0]
        rooms = (ROOMS if c.get("tag") in ("corpus", "tkl", "maxsize-boundary", "exhaustive")
                 else rng.sample(ROOMS, 2) if c.get("tag") in ("signalling", "ping-token")
                 else [rng.choice(ROOMS)] if env.thorough or rng.random() < 0.4 else [])
        for room in rooms:
            out.append(session_case(c["maxsize"], chunks, client=c.get("client", False), tag=tag, room=room))
    return out


def boundary_sessions(env):
    rng = env.rng
    cases = []
    ping = o_frame(226, b"\x07", b"")
    # (a) body length boundaries x token lengths x payload-only / options+payload
    for L in BODY_BOUNDS:
        for tkl in (0, 1, 8):
            for with_opts in (False, True):
                token = bytes(range(1, tkl + 1))
                if with_opts and L >= 3:
                    opts = [(11, b"a")]                       # 2 bytes
                    rest = L - 2
                    payload = b"" if rest == 0 else (None if rest == 1 else b"p" * (rest - 1))
                    if payload is None:
                        opts = [(11, b"a"), (11, b"")]
                        payload = b""
                elif with_opts:
                    continue
                else:
                    if L == 1:
                        opts, payload = [(4, b"")], b""
                    else:
                        opts, payload = [], (b"" if L == 0 else b"q" * (L - 1))
                fr = o_frame(rng.choice([1, 2, 69]), token, o_body(opts, payload))
                assert len(fr) - len(_hdr(L, tkl)) - 1 - tkl == L
                stream = CSM0 + fr + ping
                starts = [2, 2 + len(fr)]
                for name, chunks in some_chunkings(rng, stream, starts, 1):
                    if name == "bytes" and L > 300:
                        continue
                    cases.append(session_case(DEFAULT_MAX, chunks, tag="len-boundary"))
    # (b) max-message-size boundaries: total length M-1, M, M+1 (the last one aborts as soon as the
    # header is readable, complete or not)
    for M in (2, 3, 16, 300, 70000, DEFAULT_MAX):
        for total in (M - 1, M, M + 1):
            for tkl in (0, 4):
                if total < 2 + tkl:
                    continue
                token = b"\xaa" * tkl
                # choose ext so that hdr + 1 + tkl + L == total
                for extra in (0, 1, 2, 4):
                    L = total - 2 - extra - tkl
                    if L < 0 or len(_hdr(L, tkl)) != 1 + extra:
                        continue
                    payload = b"" if L == 0 else b"z" * (L - 1)
                    opts = [(4, b"")] if L == 1 else []
                    fr = o_frame(2, token, o_body(opts, payload))
                    assert len(fr) == total, (len(fr), total)
                    stream = CSM0 + fr + ping
                    chunkings = [[stream], [CSM0, fr[:1 + extra], fr[1 + extra:] + ping],
                                 [CSM0 + fr[:1 + extra]], [CSM0 + fr[:1]] + ([fr[1:1 + extra]] if extra else []) + [fr[1 + extra:], ping]]
                    if total <= 20:
                        chunkings.append([stream[i:i + 1] for i in range(len(stream))])
                    for chunks in chunkings:
                        cases.append(session_case(M, [c for c in chunks if c], tag="maxsize-boundary"))
    # (c) option delta / length boundaries of the option walker
    for d in EXT_BOUNDS:
        for l in EXT_BOUNDS:
            if l > 300 and d > 300 and (d, l) != (65804, 65804):
                continue
            num = 2000 + d
            first = [(2000, b"")] if d else []
            val = b"v" * l
            body = o_body(first + [(num if d else 2000, val)], b"pl")
            if d == 0:
                body = o_body([(2000, b""), (2000, val)], b"pl")
            stream = CSM0 + o_frame(1, b"\x01", body) + ping
            cases.append(session_case(DEFAULT_MAX, [stream], tag="opt-boundary"))
            cases.append(session_case(DEFAULT_MAX, cut_at(stream, [3, len(stream) - 4]), tag="opt-boundary"))
    # (d) token length 0..15
    for tkl in range(0, 16):
        fr = bytes([0 << 4 | tkl, 1]) + bytes(range(tkl))
        stream = CSM0 + fr + ping
        for chunks in ([stream], [stream[i:i + 1] for i in range(len(stream))], [CSM0, fr[:1], fr[1:], ping]):
            cases.append(session_case(DEFAULT_MAX, [c for c in chunks if c], tag="tkl"))
    # (f) signalling table
    optsets = [[], [(2, b"\x04\x80")], [(4, b"")], [(2, b"\x10\x00\x00"), (4, b"")], [(6, b"\x01")], [(10, b"xyz")],
               [(1, b"")], [(5, b"")], [(2, b"\x01"), (65001, b"zz")], [(1, b""), (3, b"a"), (7, b"\x01")],
               [(3, b"\xff")], [(4, b""), (5, b"")]]
    get = o_frame(1, b"\x09", o_body([(11, b"x")], b""))
    for code in (224, 225, 226, 227, 228, 229, 230, 231, 255):
        for opts in optsets:
            for token in (b"", b"\x01\x02\x03\x04\x05\x06\x07\x08"):
                sig = o_frame(code, token, o_body(opts, b""))
                for pre in (b"", CSM0):
                    stream = pre + sig + get + ping
                    cases.append(session_case(DEFAULT_MAX, [stream], tag="signalling"))
                    cases.append(session_case(DEFAULT_MAX, [c for c in (pre, sig, get + ping) if c], tag="signalling"))
                    if len(stream) <= 24 and token == b"":
                        cases.append(session_case(DEFAULT_MAX, [stream[i:i + 1] for i in range(len(stream))], tag="signalling"))
    # (g) RFC 8323 5.2: option numbers of signalling messages are specific to the code.  Every number
    # that has a string / integer format in requests and responses (+ opaque and unknown ones), with
    # values that are well-formed and ill-formed for that format, in every known signalling message,
    # as first message and after a CSM.  Elective: ignored (Ping -> Pong, CSM accepted, Release ->
    # pending failed); critical: Abort and close as for any unknown critical option.
    table_nums = sorted(set(KNOWN_STR + KNOWN_UINT + [1, 4, 5, 9, 10, 18, 21, 252, 300, 2049]))
    table_vals = [b"", b"ok", b"\xc3\xa9"] + BAD_UTF8[:5] + ODD_UINT[:4]
    for code in (225, 226, 227, 228, 229):
        for num in table_nums:
            for val in table_vals:
                sig = o_frame(code, b"\x51", o_body([(num, val)], b""))
                for pre in (b"", CSM0):
                    stream = pre + sig + get + ping
                    cases.append(session_case(DEFAULT_MAX, [stream], tag="signalling-option-table"))
                    if val in (b"\xff\xfe", b"\x00\x01"):
                        cases.append(session_case(DEFAULT_MAX, [c for c in (pre + sig[:3], sig[3:] + get, ping) if c],
                                                  tag="signalling-option-table"))
    # two such options in one message, known ones around them, and a payload behind
    for code in (225, 226, 228):
        for opts in ([(2, b"\x04\x00"), (8, b"\xff\xfe"), (20, b"\x80")], [(4, b""), (8, b"\xff"), (12, b"\x00\x00")],
                     [(8, b"\xc0\x80"), (8, b"fine"), (60, b"\x00" * 9)], [(20, b"\xff"), (35, b"\xff")], [(8, b"\xff"), (11, b"\xff")]):
            sig = o_frame(code, b"", o_body(opts, b"diag"))
            for chunks in ([CSM0 + sig + get + ping], [CSM0, sig[:4], sig[4:], get + ping]):
                cases.append(session_case(DEFAULT_MAX, chunks, tag="signalling-option-table"))
    # (h) empty messages (code 0.00) are ignored wherever they are: ahead of the peer's CSM, between
    # and behind other messages; a code-0.00 frame with a token, a payload or options is no different
    empty = o_frame(0, b"", b"")
    empties = [empty, o_frame(0, b"\x01", b""), o_frame(0, b"\x01\x02\x03\x04\x05\x06\x07\x08", b"\xffpayload"),
               o_frame(0, b"", o_body([(11, b"a"), (12, b"")], b"")), o_frame(0, b"", o_body([(2049, b"zz")], b"x" * 13))]
    for e in empties:
        for k in (1, 2, 3):
            for tail in (CSM0 + get + e + ping, CSM0 + e + get, CSM0, get, ping + CSM0 + get, o_frame(228, b"", b""),
                         o_frame(225, b"", o_body([(1, b"")], b"")), b"\x10\x01\xf0", b""):
                stream = e * k + tail
                cases.append(session_case(DEFAULT_MAX, [stream], tag="empty-before-csm"))
                cases.append(session_case(DEFAULT_MAX, [c for c in (e * k, tail) if c], tag="empty-before-csm"))
                if len(stream) <= 40:
                    cases.append(session_case(DEFAULT_MAX, [stream[i:i + 1] for i in range(len(stream))], tag="empty-before-csm"))
                if e is empty and k == 1:
                    for cut in range(1, len(stream)):
                        cases.append(session_case(DEFAULT_MAX, [stream[:cut], stream[cut:]], tag="empty-before-csm"))
    # a code-0.00 frame that cannot be parsed is an unparsable frame like any other
    for pre in (b"", CSM0):
        for bad in (o_frame(0, b"", sim.o_options([(11, b"\xff")])), o_frame(0, b"", b"\xf0"), bytes([0x09, 0]) + bytes(9)):
            cases.append(session_case(DEFAULT_MAX, [pre + bad + get], tag="empty-before-csm"))
            cases.append(session_case(DEFAULT_MAX, [c for c in (pre, bad, get) if c], tag="empty-before-csm"))
    # (i) "Ping is answered by Pong with the same token": every token length, with and without elective options and
    # a diagnostic payload, as first message and after the CSM, several Pings in a row, whole / cut / byte by byte
    for tkl in range(0, 9):
        for token in sorted({bytes(tkl), b"\xff" * tkl, bytes(range(1, tkl + 1)), bytes(rng.randrange(256) for _ in range(tkl))}):
            for opts, payload in (([], b""), ([(2, b"e")], b""), ([(8, b"\xff"), (300, b"")], b"diagnostic")):
                pg = o_frame(226, token, o_body(opts, payload))
                for pre in (b"", CSM0):
                    stream = pre + pg + get + o_frame(226, token[::-1], b"") + pg
                    cases.append(session_case(DEFAULT_MAX, [stream], tag="ping-token"))
                    cases.append(session_case(DEFAULT_MAX, [c for c in (pre + pg[:1], pg[1:2 + tkl], pg[2 + tkl:] + get) if c], tag="ping-token"))
                    if not opts:
                        cases.append(session_case(DEFAULT_MAX, [stream[i:i + 1] for i in range(len(stream))], tag="ping-token"))
    # (j) a frame that ends in a bare payload marker (options, ff, nothing): RFC 7252 section 3 calls it a format error,
    # the shared option codec (C01's domain) reads an empty payload, and this check follows the code there (a position
    # stated in DESIGN section 7 and in the claim) -- the rows pin that model, code and oracle agree on it
    for code in (1, 69, 0, 226, 225):
        for body in (b"\xff", b"\xb1a\xff", b"\x40\xff"):
            fr = o_frame(code, b"\x09", body)
            for pre in (b"", CSM0):
                cases.append(session_case(DEFAULT_MAX, [pre + fr + get + ping], tag="bare-payload-marker"))
                cases.append(session_case(DEFAULT_MAX, [c for c in (pre + fr[:-1], fr[-1:] + get, ping) if c], tag="bare-payload-marker"))
    # signalling with payload (diagnostic) and a Ping across a length boundary
    for code in (226, 228, 229):
        for L in (12, 13, 14):
            sig = o_frame(code, b"\x33", b"\xff" + b"d" * (L - 1))
            cases.append(session_case(DEFAULT_MAX, [CSM0 + sig + get], tag="signalling"))
            cases.append(session_case(DEFAULT_MAX, [CSM0 + sig[:2], sig[2:] + get], tag="signalling"))
    return cases


def enders():
    """every kind of signalling message that ends the connection: (name, frame)"""
    out = []
    for code, name in ((225, "csm"), (226, "ping"), (227, "pong"), (228, "release"), (229, "abort")):
        out.append((name + "-crit", o_frame(code, b"", o_body([(1, b"")], b""))))
        out.append((name + "-crit2", o_frame(code, b"\x02", o_body([(2, b"\x10"), (3, b"a"), (5, b"")], b""))))
    out.append(("csm-crit-late", o_frame(225, b"", o_body([(2, b"\x04\x00"), (4, b""), (65001, b"z")], b""))))
    for code in (224, 230, 255):
        out.append(("unknown-%d" % code, o_frame(code, b"", b"")))
    out.append(("release", o_frame(228, b"", b"")))
    out.append(("abort", o_frame(229, b"", b"\xffbye")))
    out.append(("release-elective", o_frame(228, b"", o_body([(2, b"alt")], b""))))
    return out


def after_close_sessions(env):
    """a connection-ending signalling message followed in the same stream by something that must
    not be looked at any more; as first message and after a valid CSM; whole and in every 2-cut"""
    cases = []
    followers = [("ping", o_frame(226, b"\x07", b"")),
                 ("request", o_frame(1, b"\xbb", o_body([(11, b"x")], b""))),
                 ("response", o_frame(69, b"\xbb", b"\xffhi")),
                 ("csm", o_frame(225, b"", o_body([(2, b"\x04\x00")], b""))),
                 ("empty", o_frame(0, b"", b"")),
                 ("unparsable", b"\x10\x01\xf0"),
                 ("tkl9", bytes([0x09, 1]) + bytes(9)),
                 ("oversize", b"\xf0\xff\xff\xff\xff")]
    ends = enders()
    for ename, e in ends:
        for fname, f in followers + [("2nd:" + n, fr) for n, fr in ends]:
            for pre in (b"", CSM0):
                stream = pre + e + f
                cases.append(session_case(DEFAULT_MAX, [stream], tag="after-close"))
                if fname.startswith("2nd:") and (ename, fname[4:]) not in (("csm-crit", "ping-crit"), ("ping-crit", "csm-crit"),
                                                                          ("release", "abort"), ("unknown-230", "release")):
                    # second ending message: the border cut and the whole stream only (the full 2-cut set below)
                    cases.append(session_case(DEFAULT_MAX, [pre + e, f], tag="after-close"))
                    continue
                for cut in range(1, len(stream)):
                    cases.append(session_case(DEFAULT_MAX, [stream[:cut], stream[cut:]], tag="after-close"))
    # request + Ping behind the ending message, three frames in one chunk, and byte by byte
    for ename, e in ends:
        stream = CSM0 + e + followers[1][1] + followers[0][1]
        cases.append(session_case(DEFAULT_MAX, [stream], tag="after-close"))
        cases.append(session_case(DEFAULT_MAX, [CSM0, e + followers[1][1] + followers[0][1]], tag="after-close"))
        cases.append(session_case(DEFAULT_MAX, [stream[i:i + 1] for i in range(len(stream))], tag="after-close"))
    return cases


def exhaustive_sessions(env):
    """all chunkings of short streams"""
    empty = o_frame(0, b"", b"")
    get1 = o_frame(1, b"\x05", b"")
    resp = o_frame(69, b"\x05", b"\xffhi")
    ping = o_frame(226, b"\x07", b"")
    rel = o_frame(228, b"", b"")
    abt = o_frame(229, b"", b"\xffx")
    badtkl = bytes([0x09, 1]) + bytes(9)
    streams = [
        CSM0 + get1 + ping + empty,                      # 2+3+3+2 = 10
        CSM0 + resp + get1,                              # 2+6+3 = 11
        CSM0 + empty + empty + get1,                     # 9
        get1 + CSM0 + get1,                              # request before CSM
        empty + CSM0,                                    # empty before CSM
        CSM0 + rel + get1 + ping,                        # data after Release
        CSM0 + abt + get1,                               # data after Abort
        CSM0 + badtkl[:9],                               # tkl 9
        CSM0 + b"\x10\x01\xf0" + get1,                   # option nibble 15
        CSM0 + b"\x20\x01\xb1\xff" + get1,               # invalid UTF-8 in Uri-Path
        b"\x10\xe1\x10" + get1,                          # CSM with critical option 1
        CSM0 + b"\x10\xe2\x10" + get1,                   # Ping with critical option
        CSM0 + b"\xd0\x00\x01" + b"\xff" + b"p" * 12,    # body length 13 via extended length: 3+13 = 16 -> too long
        CSM0 + b"\x00\xe6" + get1,                       # unknown signalling code
        CSM0 + b"\xf0\xff\xff\xff\xff",                  # oversize announcement
        b"\x10\xe1\x10" + ping + get1,                    # rejected CSM, then Ping and request
        CSM0 + b"\x10\xe4\x10" + get1,                    # Release with critical option, then request
        CSM0 + b"\x20\xe1\x10\x20" + ping,                # CSM with two critical options, then Ping
        CSM0 + b"\x00\xe6" + ping + get1,                 # unknown signalling code, then Ping and request
        CSM0 + rel + ping + get1,                          # Release, then Ping and request
        CSM0 + b"\x10\xe2\x10" + b"\x10\xe3\x10",         # two offending messages
        # (well-formed streams, so that sessions ending in an Abort stay below one half)
        o_frame(225, b"", o_body([(2, b"\x04\x00"), (4, b"")], b"")) + get1 + ping,
        CSM0 + o_frame(227, b"\x07", b"") + get1 + empty + ping,
        CSM0 + ping + o_frame(226, b"\x01\x02", b"") + get1,
        CSM0 + o_frame(225, b"", o_body([(4, b"")], b"")) + resp,
        CSM0 + o_frame(1, b"", o_body([(11, b"a")], b"")) + resp,
        CSM0 + o_frame(226, b"", o_body([(2, b"e")], b"")) + get1 + get1,      # elective option on a Ping
        CSM0 + b"\x20\xe2\x81\xff" + get1,              # Ping with elective option 8 = ff (no Location-Path there)
        b"\x30\xe1\xd1\x07\xff" + get1 + ping,          # CSM with elective option 20 = ff, request, Ping
        CSM0 + b"\x20\xe2\xb1\xff" + get1,              # Ping with critical option 11 = ff
        empty + CSM0 + get1 + ping,                       # empty ahead of the CSM, then request and Ping
        empty + empty + get1 + CSM0,                      # empties, then a request without CSM
        empty + ping + empty + CSM0 + get1,               # empty, Ping, empty, CSM, request
    ]
    cases = []
    global N_EXHAUSTIVE
    N_EXHAUSTIVE = len(streams) + 2
    limit = env.scale(11, 14)
    for s in streams:
        if env.thorough:
            s = s + ping + empty + get1
        s = s[:limit]
        for chunks in all_chunkings(s):
            cases.append(session_case(DEFAULT_MAX, chunks, tag="exhaustive"))
    # small max size, so that the limit is hit inside short streams
    for s in (CSM0 + o_frame(1, b"", b"\xffabc") + get1, CSM0 + get1 + o_frame(1, b"\x01\x02", b"\xffab")):
        for chunks in all_chunkings(s[:limit]):
            cases.append(session_case(6, chunks, tag="exhaustive"))
    return cases


def random_sessions(env, n):
    rng = env.rng
    cases = []
    for _ in range(n):
        maxsize = rng.choice([DEFAULT_MAX] * 6 + [64, 300, 2000])
        nmsg = rng.choice([1, 2, 3, 4, 6])
        malformed_at = rng.randrange(nmsg + 1) if rng.random() < 0.25 else None
        have_csm = rng.random() < 0.96
        parts = []
        if rng.random() < 0.15:
            # empty messages can always be sent: also ahead of the CSM
            parts.extend(o_frame(0, gen_token(rng) if rng.random() < 0.3 else b"", b"") for _ in range(rng.choice([1, 1, 2, 3])))
        if have_csm:
            parts.append(o_frame(225, b"", o_body(gen_opts(rng, signalling=True, critical_ok=rng.random() < 0.05), b"")))
        for i in range(nmsg):
            if malformed_at == i:
                parts.append(gen_malformed(rng, maxsize)[0])
            bl = rng.choice(BODY_BOUNDS[:10]) if rng.random() < 0.25 else None
            parts.append(frame_of(gen_message(rng, bl, critical_ok=rng.random() < 0.05)))
        if malformed_at == nmsg:
            parts.append(gen_malformed(rng, maxsize)[0])
        if rng.random() < 0.1:
            parts[-1] = parts[-1][:rng.randrange(1, len(parts[-1]) + 1)]    # stream ends inside a frame
        stream = b"".join(parts)
        starts = list(itertools.accumulate(len(p) for p in parts))[:-1]
        chs = list(some_chunkings(rng, stream, starts[:3], 3))
        picks = [chs[0]] + rng.sample(chs[1:], min(3, len(chs) - 1))
        for name, chunks in picks:
            cases.append(session_case(maxsize, chunks, client=rng.random() < 0.3,
                                      tag="random" + ("-malformed" if malformed_at is not None else ""),
                                      room=rng.choice([None, None, None] + ROOMS + [rng.randrange(0, 300)])))
    return cases


def big_sessions(env):
    """frames around 65805 and around the real 1 MiB limit, few chunks"""
    cases = []
    ping = o_frame(226, b"\x07", b"")
    for L in (65804, 65805, 65806, 100000, DEFAULT_MAX - 6 - 1, DEFAULT_MAX - 6, DEFAULT_MAX - 6 + 1):
        fr = o_frame(2, b"", o_body([(11, b"big")], b"B" * (L - 5)))
        stream = CSM0 + fr + ping
        cases.append(session_case(DEFAULT_MAX, [stream], tag="big"))
        cases.append(session_case(DEFAULT_MAX, [stream[:4], stream[4:7], stream[7:70000], stream[70000:]], tag="big"))
    return cases


def stream_features(stream, maxsize):
    """what the audit-E classes of input a stream contains (for the distribution gates), read with
    the oracle's framer up to the first frame that is structurally broken or oversized"""
    feats = set()
    pos = 0
    csm = False
    while True:
        h = sim.o_header(stream, pos)
        if h is None:
            break
        off, tkl, bl = h
        total = off + tkl + bl
        if total > maxsize or pos + total > len(stream) or tkl > 8:
            break
        frame = stream[pos:pos + total]
        pos += total
        code = frame[off - 1]
        try:
            opts, _ = sim.o_parse_body(frame[off + tkl:], signalling=True)
        except sim.OUnparsable:
            break
        if code >= 224:
            for n, v in opts:
                ill = False
                if n in sim.O_STRING:
                    try:
                        v.decode("utf-8")
                    except UnicodeDecodeError:
                        ill = True
                elif n in sim.O_UINT:
                    ill = v[:1] == b"\0" or len(v) > 8
                else:
                    continue
                feats.add("sig-opt:%s:%s:%s" % ("str" if n in sim.O_STRING else "uint", "critical" if n % 2 else "elective",
                                                "ill-formed" if ill else "well-formed"))
            if any(n % 2 for n, _ in opts) or code in (228, 229) or not 225 <= code <= 229:
                break                                   # the connection ends here
            if code == 225:
                csm = True
        elif code == 0:
            feats.add("empty:" + ("after-csm" if csm else "before-csm"))
        elif not csm:
            break
    return feats


# --------------------------------------------------------------------------- running the code

def run_F(tcp, case):
    """-> (canonical string, events, connection, transport, stream).  The session runs in a process that
    turns warnings into errors (`python -W error`, pytest `filterwarnings = error`): nothing a peer sends
    may make library code warn, and a warning raised inside data_received is an escaping exception."""
    chunks = [unspec(c) for c in case["chunks"]]
    with warnings.catch_warnings():
        warnings.simplefilter("error")
        return sim.run_session(tcp, case["maxsize"], chunks, client=case.get("client", False),
                               room=case.get("room")) + (b"".join(chunks),)


def f_line(case):
    return "C15 F %d %s" % (case["maxsize"], " ".join(case["chunks"]))


def judge_F(aiocoap, case, events, stream):
    return sim.oracle_session(case["maxsize"], stream, events,
                              lambda e: isinstance(e, aiocoap.error.NetworkError))


def build_message(aiocoap, code, token, opts, payload):
    from aiocoap.numbers.optionnumbers import OptionNumber
    from aiocoap.optiontypes import OpaqueOption
    msg = aiocoap.Message(code=code, _token=token, payload=payload)
    for n, v in opts:
        if code >= 224:
            # the way rfc8323common builds its own signalling messages: explicit option objects,
            # not the formats registered for requests and responses
            msg.opt.add_option(OpaqueOption(OptionNumber(n), v))
        else:
            msg.opt.add_option(OptionNumber(n).create_option(decode=v))
    return msg


def run_S(aiocoap, tcp, case):
    """serialise through the connection's `_send_message` → transport.write"""
    events = []
    pool, conn, transport = sim.make_connection(tcp, DEFAULT_MAX, False, events)
    conn.connection_made(transport)
    del events[:]
    with warnings.catch_warnings():
        warnings.simplefilter("ignore")
        msg = build_message(aiocoap, case["code"], unspec(case["token"]), [(n, unspec(v)) for n, v in case["opts"]],
                            unspec(case["payload"]))
        fields = sim.msg_fields(msg)
        try:
            conn._send_message(msg)
        except ValueError:
            return "err", fields, None
        except Exception as e:
            return "exception:" + type(e).__name__, fields, None
    if len(events) != 1 or events[0][0] != "W":
        return "events:" + sim.render_events(events), fields, None
    return render(events[0][1]), fields, events[0][1]


def s_cases(env):
    rng = env.rng
    cases = []

    def mk(code, token, opts, payload, tag):
        cases.append({"kind": "S", "code": code, "token": spec(token), "payload": spec(payload),
                      "opts": [[n, spec(v)] for n, v in opts], "tag": tag})
    for L in sorted(set(b + d for b in (12, 13, 268, 269, 65804, 65805) for d in (-1, 0, 1))) + [0, 1, 2]:
        for tkl in (0, 1, 8, 9):
            token = bytes(range(tkl))
            if L == 1:
                mk(1, token, [(4, b"")], b"", "len-boundary")
            else:
                mk(69, token, [], b"" if L == 0 else b"s" * (L - 1), "len-boundary")
            if L >= 4:
                mk(2, token, [(11, b"ab")], b"t" * (L - 4), "len-boundary")
    for d in EXT_BOUNDS + [65805]:
        for l in (0, 12, 13, 268, 269, 65803, 65804, 65805):
            if d > 300 and l > 300 and d != l:
                continue
            mk(1, b"\x01", [(2000, b""), (2000 + d, b"w" * l)], b"x", "opt-boundary")
    for _ in range(env.scale(300, 6000)):
        code, token, opts, payload = gen_message(rng, rng.choice(BODY_BOUNDS[:10]) if rng.random() < 0.3 else None)
        if rng.random() < 0.05:
            token = token + bytes(9)
        mk(code, token, opts, payload, "random")
    return cases


NO_RESPONSE_VALUES = [None, 0, 2, 8, 16, 24, 26, 127]


def p_cases(env):
    """messages for `send_message`: every No-Response value x request/response codes x role"""
    rng = env.rng
    cases = []

    def mk(code, token, opts, payload, client, tag):
        cases.append({"kind": "P", "code": code, "token": spec(token), "payload": spec(payload),
                      "opts": [[n, spec(v)] for n, v in opts], "client": client, "tag": tag})

    def nr_opt(v):
        return [] if v is None else [(258, v.to_bytes((v.bit_length() + 7) // 8, "big"))]
    req_codes = [1, 2, 3, 4, 5, 7]
    resp_codes = [65, 68, 69, 95, 99, 128, 132, 143, 160, 165, 191]
    for v in NO_RESPONSE_VALUES + [1, 4, 32, 64, 128, 255, 256, 65535]:
        for client in (True, False):
            for code in req_codes + resp_codes + [0]:
                mk(code, b"\x01", [(11, b"x")] + nr_opt(v), b"", client, "no-response-table")
                mk(code, b"\xaa\xbb", nr_opt(v), b"pl", client, "no-response-table")
                mk(code, b"", [(6, b"\x01"), (12, b"")] + nr_opt(v) + [(292, b"rt")], b"p" * 13, client, "no-response-table")
    for _ in range(env.scale(400, 6000)):
        code, token, opts, payload = gen_message(rng, rng.choice(BODY_BOUNDS[:10]) if rng.random() < 0.3 else None)
        if code >= 224:
            opts = gen_opts(rng)                    # (signalling messages draw other option values)
        if code >= 224 or rng.random() < 0.5:
            code = rng.choice(req_codes + resp_codes)
        opts = [o for o in opts if o[0] != 258]
        if rng.random() < 0.7:
            opts = sorted(opts + nr_opt(rng.choice(NO_RESPONSE_VALUES[1:] + [rng.randrange(256)])), key=lambda o: o[0])
        mk(code, token, opts, payload, rng.random() < 0.5, "random")
    return cases


def run_P(aiocoap, tcp, case):
    """`pool.send_message(msg, None)` with msg.remote = a connected TcpConnection of that pool"""
    events = []
    pool, conn, transport = sim.make_connection(tcp, DEFAULT_MAX, case["client"], events)
    conn.connection_made(transport)
    with warnings.catch_warnings():
        warnings.simplefilter("ignore")
        conn.data_received(CSM0)
        del events[:]
        msg = build_message(aiocoap, case["code"], unspec(case["token"]), [(n, unspec(v)) for n, v in case["opts"]],
                            unspec(case["payload"]))
        msg.remote = conn
        before = sim.msg_fields(msg)
        try:
            pool.send_message(msg, None)
        except ValueError:
            return "err", before, sim.msg_fields(msg), None
        except Exception as e:
            return "exception:" + type(e).__name__, before, sim.msg_fields(msg), None
        after = sim.msg_fields(msg)
    return (sim.render_events(events) or "-"), before, after, list(events)


def judge_P(before, after, r, events):
    code, token, opts, payload = before
    deltas = [b[0] - a[0] for a, b in zip([(0, b"")] + opts, opts)]
    if len(token) > 8:
        return ("", "") if r == "err" else ("message with a %d byte token was sent" % len(token), "tcp-serialize")
    if any(d > 65804 for d in deltas) or any(len(v) > 65804 for _, v in opts):
        return ("", "")                             # C01's domain (beyond the extended field limit: refused)
    if events is None:
        return ("send_message failed (%s) for %s" % (r, sim.render_fields(*before)), "tcp-send-event")
    return sim.oracle_send(before, after, events)


def x_cases(env):
    rng = env.rng
    cases = []
    for b0 in range(256):
        for ext in (b"", b"\x00", b"\xff", b"\x01\x02", b"\xff\xff\xff", b"\x00\x00\x00\x00", b"\x01\x02\x03\x04\x05", b"\xff\xff\xff\xff"):
            cases.append(bytes([b0]) + ext)
    cases.append(b"")
    for _ in range(env.scale(200, 5000)):
        cases.append(bytes(rng.randrange(256) for _ in range(rng.randrange(0, 8))))
    return cases


def utf8_table():
    """byte sequences around every boundary of the UTF-8 automaton (RFC 3629)"""
    leads = [0x7f, 0x80, 0xbf, 0xc0, 0xc1, 0xc2, 0xdf, 0xe0, 0xe1, 0xec, 0xed, 0xee, 0xef, 0xf0, 0xf1, 0xf3, 0xf4, 0xf5, 0xff]
    seconds = [0x7f, 0x80, 0x8f, 0x90, 0x9f, 0xa0, 0xbf, 0xc0]
    later = [0x7f, 0x80, 0xbf, 0xc0]
    for a in leads:
        yield bytes([a])
        for b in seconds:
            yield bytes([a, b])
            if a < 0xdf:
                continue
            for c in later:
                yield bytes([a, b, c])
                if a < 0xef:
                    continue
                for d in later:
                    yield bytes([a, b, c, d])


def d_cases(env):
    """complete frames for `_decode_message`"""
    rng = env.rng
    cases = []
    for v in utf8_table():
        for tail in (b"", b"a"):
            cases.append((o_frame(1, b"", sim.o_options([(11, v + tail)])), "utf8"))
    for n in sorted(set(KNOWN_STR + KNOWN_UINT + KNOWN_OPAQUE + UNKNOWN + list(range(0, 64)))):
        for v in (b"", b"\x00", b"\x00\x01", b"\x01\x00", b"\xff", b"abc", b"\x00\x00\x00", b"\x80\x00\x00\x00\x00\x00\x00\x00\x01"):
            cases.append((o_frame(2, b"\x01", sim.o_options([(n, v)]) + b"\xffp"), "format-table"))
    # the same tables in signalling messages, where those formats do not apply
    for v in utf8_table():
        cases.append((o_frame(226, b"", sim.o_options([(8, v)])), "signalling-utf8"))
        cases.append((o_frame(225, b"", sim.o_options([(11, v + b"a")])), "signalling-utf8"))
    for code in (224, 225, 226, 227, 228, 229, 255):
        for n in sorted(set(KNOWN_STR + KNOWN_UINT + KNOWN_OPAQUE + UNKNOWN + list(range(0, 64)))):
            for v in (b"", b"\x00", b"\x00\x01", b"\xff", b"\xff\xfe", b"abc", b"\x80\x00\x00\x00\x00\x00\x00\x00\x01"):
                cases.append((o_frame(code, b"\x01", sim.o_options([(n, v)]) + b"\xffp"), "signalling-format-table"))
    for tkl in range(16):
        cases.append((bytes([tkl, 1]) + bytes(tkl), "tkl"))
    for _ in range(env.scale(3000, 40000)):
        if rng.random() < 0.8:
            cases.append((frame_of(gen_message(rng, critical_ok=True)), "random"))
        else:
            body = bytes(rng.randrange(256) for _ in range(rng.randrange(0, 10)))
            cases.append((o_frame(rng.randrange(256), gen_token(rng), body), "random-body"))
    return cases


# --------------------------------------------------------------------------- glue: real TokenManager

def glue_sessions(env, aiocoap, tcp, rep):
    """Real TokenManager between the pool and a fake context: requests sent through it must be
    written as RFC frames, answered by matching responses, and failed with a NetworkError when
    the peer releases or aborts."""
    from aiocoap.tokenmanager import TokenManager
    from aiocoap.pipe import Pipe
    rng = env.rng

    class Ctx:
        log = sim._LOG
        loop = None
        client_credentials = None

        def __init__(self):
            self.rendered = []

        def render_to_pipe(self, pipe):
            self.rendered.append(pipe.request)

    for it in range(env.scale(60, 600)):
        events = []
        ctx = Ctx()
        tman = TokenManager(ctx)
        client = rng.random() < 0.5
        pool, conn, transport = sim.make_connection(tcp, DEFAULT_MAX, client, events, tokenmanager=tman)
        tman.token_interface = pool
        with warnings.catch_warnings():
            warnings.simplefilter("ignore")
            conn.connection_made(transport)
            conn.data_received(CSM0)
            nreq = rng.randrange(1, 5)
            pipes = []
            for i in range(nreq):
                code, token, opts, payload = gen_message(rng)
                ropts = [o for o in opts if o[0] != 258] if code < 224 else []
                if rng.random() < 0.5:
                    # the client asks the server not to answer (RFC 7967): the option has to reach the server
                    ropts = sorted(ropts + [(258, bytes([rng.choice([2, 8, 16, 24, 26, 127])]))], key=lambda o: o[0])
                    rep.count("G:request-with-no-response")
                msg = build_message(aiocoap, rng.choice([1, 2, 3, 4]), b"", ropts, payload)
                sent_opts = sim.msg_fields(msg)[2]
                msg.remote = conn
                pipe = Pipe(msg, sim._LOG)
                got = []
                pipe.on_event(lambda ev, got=got: (got.append(ev), True)[1])
                tman.request(pipe)
                pipes.append((msg, got, sent_opts))
            case = {"kind": "G", "iteration": it, "seed": env.seed}
            rep.case(case, nontrivial=True, sample_every=200)
            rep.count("G:sessions")
            # every request went out as exactly one RFC 8323 frame carrying the token the manager chose
            writes = [e[1] for e in events if e[0] == "W"][1:]
            if len(writes) != nreq:
                rep.oracle_fail(case, "requests were not written one frame each", key="tcp-glue-write")
                continue
            bad = False
            for (msg, got, sent_opts), w in zip(pipes, writes):
                fr = sim.o_single_frame(w)
                if fr is None or fr[0] != int(msg.code) or fr[1] != msg.token or fr[3] != msg.payload:
                    rep.oracle_fail(case, "request written as %s" % w.hex()[:80], key="tcp-glue-write")
                    bad = True
                elif fr[2] != sent_opts or sim.msg_fields(msg)[2] != sent_opts:
                    rep.oracle_fail(case, "request with options %s written with options %s (caller's message now has %s)"
                                    % (sim.render_fields(0, b"", sent_opts, b""), sim.render_fields(0, b"", fr[2], b""),
                                       sim.render_fields(0, b"", sim.msg_fields(msg)[2], b"")), key="tcp-send-request-options")
                    bad = True
            if bad:
                continue
            if client and rng.random() < 0.4:
                # two requests to a not yet connected host were started at the same time: each opened a connection,
                # the pool now names the later one (TCPClient._spawn_protocol stores after its await) -- this
                # connection lives on outside the pool, and its requests still have to hear about its end
                rep.count("G:connection-not-in-pool")
                other = tcp.TcpConnection(pool, sim._LOG, None, is_server=False)
                for k in list(pool._pool):
                    pool._pool[k] = other
            # answer one of them, then Release or Abort (possibly cut in two chunks)
            answered = rng.randrange(nreq)
            resp = o_frame(69, pipes[answered][0].token, b"\xffok")
            fin = o_frame(rng.choice([228, 229]), b"", b"")
            plain_loss = rng.random() < 0.2         # no Release/Abort: the connection just breaks
            stream = resp + (b"" if plain_loss else fin)
            cut = rng.randrange(1, len(stream))
            escaped = None
            if plain_loss:
                rep.count("G:plain-connection-loss")
            for ch in (stream[:cut], stream[cut:]):
                if not transport.closed:
                    try:
                        with warnings.catch_warnings():
                            warnings.simplefilter("error")
                            conn.data_received(ch)
                    except Exception as e:
                        escaped = type(e).__name__
                        break
            if escaped:
                rep.oracle_fail(case, "exception %s escaped data_received (response + Release cut at %d)" % (escaped, cut),
                                key="tcp-exception-escaped:" + escaped)
                continue
            if transport.closed:
                conn.connection_lost(None)
            elif plain_loss:
                transport.closed = True
                conn.connection_lost(rng.choice([None, ConnectionResetError("reset by peer")]))
        for idx, (msg, got, _) in enumerate(pipes):
            if idx == answered:
                if not (len(got) == 1 and got[0].message is not None and got[0].message.payload == b"ok"):
                    rep.oracle_fail(case, "response was not delivered to the request with its token", key="tcp-glue-response")
            else:
                excs = [g.exception for g in got if g.exception is not None]
                if not excs or not isinstance(excs[0], aiocoap.error.NetworkError):
                    rep.oracle_fail(case, "pending request not failed with a NetworkError after Release/Abort: %r" % (got,),
                                    key="tcp-glue-release")
        if not transport.closed:
            rep.oracle_fail(case, "connection not closed after Release/Abort", key="tcp-glue-release")


# --------------------------------------------------------------------------- entry points

def reconnect_cases(aiocoap, tcp, rep):
    """The client pool over time: a connection to a server on which its CSM was received ends (Release, Abort, loss),
    and the next request to the same host and port opens a new one through the real `TCPClient._spawn_protocol`.
    The new connection is a new connection: a request or response on it before the peer's CSM is answered with
    Abort and not dispatched; after a CSM it is dispatched.  Oracle only (the model has one connection)."""
    import asyncio

    class FakeLoop:
        def __init__(self, events):
            self.events = events
            self.made = []

        async def create_connection(self, factory, host, port, ssl=None):
            conn = factory()
            transport = sim.FakeTransport(self.events)
            conn.connection_made(transport)
            self.made.append((conn, transport))
            return transport, conn

    def drive(coro):
        try:
            coro.send(None)
        except StopIteration as e:
            return e.value
        coro.close()
        raise HarnessError("TCPClient._spawn_protocol suspended (the harness has no event loop here)")

    csm = sim.o_frame(225, b"", b"")
    resp = sim.o_frame(69, b"\x07", sim.o_body([], b"answer-2"))
    req = sim.o_frame(1, b"\x08", sim.o_body([(11, b"x")], b""))
    ends = {"release": sim.o_frame(228, b"", b""), "abort": sim.o_frame(229, b"", b""), "loss": None}
    for how, end_frame in ends.items():
        for early_name, early in (("response", resp), ("request", req)):
            for with_csm in (False, True):
                case = {"kind": "RC", "end": how, "early": early_name, "csm_first": with_csm}
                rep.case(case, nontrivial=True, sample_every=5)
                rep.count("reconnect:" + how)
                events = []
                conn_ref = [None]
                pool = tcp.TCPClient()
                pool._tokenmanager = sim.RecordingTokenManager(events, conn_ref)
                pool.log = sim._LOG
                pool.loop = FakeLoop(events)
                pool._default_port = 5683
                msg = aiocoap.Message(code=aiocoap.GET)
                msg.unresolved_remote = "server.example:5683"
                with warnings.catch_warnings():
                    warnings.simplefilter("ignore")
                    c1 = drive(pool._spawn_protocol(msg))
                    conn_ref[0] = c1
                    c1.data_received(csm)
                    t1 = pool.loop.made[0][1]
                    if end_frame is not None:
                        c1.data_received(end_frame)
                    if not t1.closed:
                        t1.close()
                    c1.connection_lost(None)
                    c2 = drive(pool._spawn_protocol(msg))
                    if c2 is c1:
                        rep.oracle_fail(case, "the pool handed out the connection that has ended", key="tcp-reconnect")
                        continue
                    conn_ref[0] = c2
                    del events[:]
                    if with_csm:
                        c2.data_received(csm)
                    c2.data_received(early)
                dispatched = [e for e in events if e[0] in ("Q", "R")]
                aborts = [e for e in events if e[0] == "W" and (sim.o_single_frame(e[1]) or (None,))[0] == 229]
                closed = pool.loop.made[1][1].closed
                if with_csm:
                    if len(dispatched) != 1 or aborts or closed:
                        rep.oracle_fail(case, f"second connection, {early_name} after its CSM: dispatched "
                                        f"{len(dispatched)}, aborts {len(aborts)}, closed {closed}", key="tcp-reconnect")
                elif dispatched or len(aborts) != 1 or not closed:
                    rep.oracle_fail(case, f"second connection to the server ({how} ended the first): a {early_name} "
                                    f"before any CSM on THIS connection was "
                                    f"{'dispatched' if dispatched else 'not dispatched'}, aborts {len(aborts)}, "
                                    f"closed {closed} -- expected Abort and close, nothing dispatched",
                                    key="tcp-reconnect")


def run(env, rep):
    aiocoap = env.import_repo()
    from aiocoap.transports import tcp
    import aiocoap.error
    reconnect_cases(aiocoap, tcp, rep)

    if tcp.TcpConnection._my_max_message_size != DEFAULT_MAX:
        # not an error: the model is configured with what the code says
        rep.notes.append("max message size of the implementation is %d" % tcp.TcpConnection._my_max_message_size)
    real_max = tcp.TcpConnection._my_max_message_size

    # ---- F: sessions
    corpus = [c for _, c in load_corpus("C15") if c.get("kind") == "F"]
    for c in corpus:
        c.setdefault("tag", "corpus")
    cases = corpus + boundary_sessions(env) + after_close_sessions(env) + exhaustive_sessions(env) + big_sessions(env)
    cases = cases + backpressure_sessions(env, cases) + random_sessions(env, env.scale(2000, 60000))
    for c in cases:
        if c["maxsize"] == DEFAULT_MAX:
            c["maxsize"] = real_max
    lines, impl = [], []
    malformed = 0
    for case in cases:
        out, events, conn, transport, stream = run_F(tcp, case)
        lines.append(f_line(case))
        impl.append(out)
        nontrivial = len(events) > 1
        rep.case(small_case(case), nontrivial=nontrivial, sample_every=3000)
        rep.count("F:tag=" + case.get("tag", "corpus"))
        rep.count("F:room=%s" % ("unlimited" if case.get("room") is None else case["room"] if case["room"] in ROOMS else "other"))
        if transport.max_buffered:
            # what the endpoint did while earlier output of its own was still waiting in the write buffer
            rep.count("F:write-buffer=%s" % ("<=7" if transport.max_buffered <= 7 else "<=40" if transport.max_buffered <= 40 else ">40"))
            if transport.closed:
                ci = next(n for n, e in enumerate(events) if e[0] == "C")
                rep.count("F:backpressure:closed-by=" + ("peer" if events[ci - 1][0] == "E" else "own-abort"))
        rep.count("F:chunks=%s" % ("1" if len(case["chunks"]) == 1 else "2-4" if len(case["chunks"]) <= 4 else "5-16" if len(case["chunks"]) <= 16 else ">16"))
        rep.count("F:stream=%s" % ("<=11" if len(stream) <= 11 else "<=300" if len(stream) <= 300 else "<=66000" if len(stream) <= 66000 else ">66000"))
        for feat in stream_features(stream, case["maxsize"]):
            rep.count("F:" + feat)
        for e in events[1:]:
            if e[0] == "W":
                fr = sim.o_single_frame(e[1])
                rep.count("F:write=%s" % ({227: "pong", 229: "abort"}.get(fr[0], "other") if fr else "unframed"))
                if fr and fr[0] == 229:
                    rep.count("F:abort=" + fr[3].decode("ascii", "replace"))
            elif e[0] == "E":
                rep.count("F:fail=" + sim.fail_kind(e[1]))
            else:
                rep.count("F:event=" + e[0])
        if any(e[0] == "W" and (sim.o_single_frame(e[1]) or (0,))[0] == 229 for e in events):
            malformed += 1
        verdict, key = judge_F(aiocoap, case, events, stream)
        if verdict:
            rep.oracle_fail(small_case(case), verdict, key=key)
    compare(env, rep, cases, lines, impl, what="session")
    rep.exhaustive_parts.append("all chunkings (2^(n-1) each) of %d short streams (n <= %d bytes)" % (N_EXHAUSTIVE, env.scale(11, 14)))
    # distribution gates (only meaningful when model and implementation agree; a disagreement is
    # reported by ./check and must not be masked by a harness error)
    if not rep.disagreements and not rep.oracle_failures:
        if malformed * 2 > len(cases):
            raise HarnessError("more than half of the sessions end in an Abort (%d of %d)" % (malformed, len(cases)))
        for need in ("F:event=Q", "F:event=R", "F:write=pong", "F:fail=released", "F:fail=aborted",
                     "F:abort=Overly large message announced", "F:abort=Failed to parse message",
                     "F:abort=No CSM received", "F:abort=Option not supported", "F:abort=Unknown critical option",
                     "F:abort=Unknown signalling code", "F:empty:before-csm", "F:empty:after-csm",
                     "F:tag=signalling-option-table", "F:tag=empty-before-csm", "F:tag=ping-token",
                     "F:backpressure:closed-by=own-abort", "F:backpressure:closed-by=peer",
                     "F:write-buffer=<=7", "F:write-buffer=<=40", "F:write-buffer=>40") \
                + tuple("F:room=%s" % r for r in ROOMS + ["unlimited"]) \
                + tuple("F:sig-opt:%s:%s:%s" % (f, c, w) for f in ("str", "uint") for c in ("elective", "critical")
                        for w in ("well-formed", "ill-formed")):
            if not rep.hist.get(need):
                raise HarnessError("generator never reached " + need)

    # ---- X: _extract_message_size
    xs = x_cases(env)
    lines, impl = [], []
    for b in xs:
        lines.append("C15 X " + spec(b))
        try:
            r = tcp._extract_message_size(b)
        except Exception as e:
            impl.append("exception:" + type(e).__name__)
            rep.case({"kind": "X", "data": b.hex()}, nontrivial=True)
            rep.oracle_fail({"kind": "X", "data": b.hex()}, "_extract_message_size(%s) raised %s" % (b.hex(), type(e).__name__),
                            key="tcp-extract-size")
            continue
        impl.append("none" if r is None else "%d %d %d" % r)
        rep.case({"kind": "X", "data": b.hex()}, nontrivial=r is not None, sample_every=4000)
        rep.count("X:" + ("none" if r is None else "ext%d" % (r[0] - 2)))
        h = sim.o_header(b, 0)
        if (r is None) != (h is None) or (r is not None and tuple(r) != h):
            rep.oracle_fail({"kind": "X", "data": b.hex()}, "_extract_message_size(%s) = %r, RFC 8323 says %r" % (b.hex(), r, h),
                            key="tcp-extract-size")
    compare(env, rep, xs, lines, impl, what="extract_message_size")

    # ---- L: _encode_length
    ls = sorted(set(list(range(0, 16)) + [b + d for b in (0, 12, 13, 268, 269, 65804, 65805, 1 << 20, 65805 + (1 << 24)) for d in (-2, -1, 0, 1, 2) if b + d >= 0])) \
        + [env.rng.randrange(0, 200000) for _ in range(env.scale(100, 2000))]
    lines, impl = [], []
    for n in ls:
        lines.append("C15 L %d" % n)
        try:
            nib, ext = tcp._encode_length(n)
        except Exception as e:                      # an exception is an observation
            impl.append("exception:" + type(e).__name__)
            rep.case({"kind": "L", "n": n}, nontrivial=True)
            rep.oracle_fail({"kind": "L", "n": n}, "_encode_length(%d) raised %s" % (n, type(e).__name__),
                            key="tcp-encode-length")
            continue
        impl.append("%d %s" % (nib, render(ext)))
        rep.case({"kind": "L", "n": n}, nontrivial=True, sample_every=1000)
        rep.count("L:nibble=%d" % nib)
        hdr = _hdr(n, 0)
        if bytes([nib << 4]) + ext != hdr:
            rep.oracle_fail({"kind": "L", "n": n}, "_encode_length(%d) = (%d, %s), RFC 8323 header is %s" % (n, nib, ext.hex(), hdr.hex()),
                            key="tcp-encode-length")
    compare(env, rep, ls, lines, impl, what="encode_length")

    # ---- D: _decode_message on complete frames
    ds = d_cases(env)
    lines, impl = [], []
    for fr, tag in ds:
        lines.append("C15 D " + spec(fr))
        fields = None
        try:
            with warnings.catch_warnings():
                warnings.simplefilter("error")
                m = tcp._decode_message(fr)
            fields = sim.msg_fields(m)
            r = sim.render_fields(*fields)
        except aiocoap.error.UnparsableMessage:
            r = "unparsable"
        except Exception as e:
            r = "exception:" + type(e).__name__
        impl.append(r)
        case = {"kind": "D", "frame": spec(fr)}
        rep.case(case, nontrivial=r != "unparsable", sample_every=3000)
        rep.count("D:%s:%s" % (tag, "unparsable" if r == "unparsable" else "exception" if r.startswith("exception") else "ok"))
        v = judge_D(fr, r, fields)
        if v:
            rep.oracle_fail(case, v, key="tcp-decode:" + v.split(":")[0])
    compare(env, rep, ds, lines, impl, what="decode_message")

    # ---- S: _serialize via _send_message
    ss = [c for _, c in load_corpus("C15") if c.get("kind") == "S"] + s_cases(env)
    lines, impl = [], []
    for case in ss:
        r, fields, blob = run_S(aiocoap, tcp, case)
        code, token, opts, payload = fields
        lines.append("C15 S %d %s %s %s" % (code, spec(token), spec(payload), " ".join("%d:%s" % (n, spec(v)) for n, v in opts)))
        impl.append(r)
        rep.case({k: case[k] for k in ("kind", "code", "token", "payload", "opts")}, nontrivial=r != "err", sample_every=1500)
        rep.count("S:%s:%s" % (case.get("tag", "corpus"), "err" if r == "err" else "ok"))
        v = judge_S(fields, r, blob)
        if v:
            rep.oracle_fail({k: case[k] for k in ("kind", "code", "token", "payload", "opts")}, v, key="tcp-serialize")
    compare(env, rep, ss, lines, impl, what="serialize")

    # ---- P: _TCPPooling.send_message (requests keep No-Response, responses use it as a marker)
    ps = [c for _, c in load_corpus("C15") if c.get("kind") == "P"] + p_cases(env)
    lines, impl = [], []
    for case in ps:
        r, before, after, events = run_P(aiocoap, tcp, case)
        code, token, opts, payload = before
        lines.append("C15 P %d %s %s %s" % (code, spec(token), spec(payload), " ".join("%d:%s" % (n, spec(v)) for n, v in opts)))
        impl.append(r)
        small = {k: case[k] for k in ("kind", "code", "token", "payload", "opts", "client")}
        rep.case(small, nontrivial=r not in ("err",), sample_every=1500)
        nr = next((int.from_bytes(v, "big") for n, v in opts if n == 258), None)
        rep.count("P:%s:%s:%s" % ("client" if case["client"] else "server",
                                  "response" if 64 <= code < 192 else "request" if 1 <= code < 32 else "other",
                                  "written" if r.startswith("W") else "dropped" if r == "-" else r.split(":")[0]))
        rep.count("P:no-response=%s" % ("absent" if nr is None else nr if nr in NO_RESPONSE_VALUES else "other"))
        v, key = judge_P(before, after, r, events)
        if v:
            rep.oracle_fail(small, v, key=key)
    compare(env, rep, ps, lines, impl, what="send_message")
    if not rep.disagreements and not rep.oracle_failures:
        for need in ["P:%s:%s:%s" % (role, kind, res) for role in ("client", "server")
                     for kind, res in (("request", "written"), ("response", "written"), ("response", "dropped"))] \
                + ["P:no-response=%s" % ("absent" if v is None else v) for v in NO_RESPONSE_VALUES] + ["F:tag=after-close"]:
            if not rep.hist.get(need):
                raise HarnessError("generator never reached " + need)

    # ---- G: glue with the real TokenManager (oracle only)
    glue_sessions(env, aiocoap, tcp, rep)


def judge_D(fr, r, fields=None):
    """independent reading of one complete frame; with `fields` (what the implementation decoded)
    also: identical code, token, options and payload -- option values of a signalling frame byte
    for byte, those of other frames as the value their format denotes"""
    h = sim.o_header(fr, 0)
    off, tkl, bl = h
    if r.startswith("exception"):
        return "exception: _decode_message raised %s on %s" % (r.split(":")[1], fr.hex()[:80])
    try:
        if tkl > 8:
            raise sim.OUnparsable("tkl")
        opts, payload = sim.o_parse_body(fr[off + tkl:], signalling=fr[off - 1] >= 224)
    except sim.OUnparsable:
        return "" if r == "unparsable" else "accepted: unparsable frame %s decoded as %s" % (fr.hex()[:80], r)
    if r == "unparsable":
        return "rejected: well-formed frame %s reported unparsable" % fr.hex()[:80]
    if fields is not None:
        code, token = fr[off - 1], fr[off:off + tkl]
        c2, t2, o2, p2 = fields
        same = (c2 == code and t2 == token and p2 == payload and len(o2) == len(opts)
                and all(a[0] == b[0] and (a[1] == b[1] if code >= 224 else sim.o_same_value(a[0], a[1], b[1]))
                        for a, b in zip(o2, opts)))
        if not same:
            return "mismatch: frame %s decoded as %s, it says %s" % (fr.hex()[:80], r, sim.render_fields(code, token, opts, payload))
    return ""


def judge_S(fields, r, blob):
    code, token, opts, payload = fields
    deltas = [b[0] - a[0] for a, b in zip([(0, b"")] + opts, opts)]
    if len(token) > 8:
        return "" if r == "err" else "message with a %d byte token was serialised" % len(token)
    if any(d >= 65804 for d in deltas) or any(len(v) >= 65804 for _, v in opts):
        return ""                                   # C01's domain (extended field limit)
    if blob is None:
        return "serialisation failed (%s) for %s" % (r, sim.render_fields(*fields))
    want = o_frame(code, token, o_body(opts, payload))
    if blob != want:
        return "serialised as %s, RFC 8323 framing is %s" % (render(blob) if len(blob) > 60 else blob.hex(),
                                                             render(want) if len(want) > 60 else want.hex())
    return ""


def replay(env, case):
    aiocoap = env.import_repo()
    from aiocoap.transports import tcp
    import aiocoap.error
    k = case.get("kind")
    if k == "RC":
        class Sink:
            def __init__(self):
                self.failures = []

            def case(self, *a, **kw):
                pass

            def count(self, *a, **kw):
                pass

            def oracle_fail(self, c, text, key=None):
                if c == case:
                    self.failures.append(text)

        sink = Sink()
        reconnect_cases(aiocoap, tcp, sink)
        return sink.failures[0] if sink.failures else ""
    if k == "F":
        out, events, conn, transport, stream = run_F(tcp, case)
        return judge_F(aiocoap, case, events, stream)[0]
    if k == "X":
        b = bytes.fromhex(case["data"])
        try:
            r = tcp._extract_message_size(b)
        except Exception as e:
            return "_extract_message_size(%s) raised %s" % (b.hex(), type(e).__name__)
        h = sim.o_header(b, 0)
        return "" if (r is None and h is None) or (r is not None and tuple(r) == h) else "_extract_message_size(%s) = %r, RFC 8323 says %r" % (b.hex(), r, h)
    if k == "L":
        try:
            nib, ext = tcp._encode_length(case["n"])
        except Exception as e:
            return "_encode_length(%d) raised %s" % (case["n"], type(e).__name__)
        return "" if bytes([nib << 4]) + ext == _hdr(case["n"], 0) else "_encode_length(%d) = (%d, %s)" % (case["n"], nib, ext.hex())
    if k == "D":
        fr = unspec(case["frame"])
        fields = None
        try:
            with warnings.catch_warnings():
                warnings.simplefilter("error")
                fields = sim.msg_fields(tcp._decode_message(fr))
            r = sim.render_fields(*fields)
        except aiocoap.error.UnparsableMessage:
            r = "unparsable"
        except Exception as e:
            r = "exception:" + type(e).__name__
        return judge_D(fr, r, fields)
    if k == "S":
        r, fields, blob = run_S(aiocoap, tcp, case)
        return judge_S(fields, r, blob)
    if k == "P":
        r, before, after, events = run_P(aiocoap, tcp, case)
        return judge_P(before, after, r, events)[0]
    if k == "G":
        from common import Report, Env
        rep = Report("C15")
        env2 = Env("C15", "quick", case.get("seed", 0), env.repo)
        glue_sessions(env2, aiocoap, tcp, rep)
        return rep.oracle_failures[0]["verdict"] if rep.oracle_failures else ""
    return "unknown case kind"
