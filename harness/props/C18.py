"""C18 — shutdown at any moment fails pending work and leaves nothing running.

Correspondence: busy two-sided scenarios (requests awaiting ACK / separate response, backlog,
incoming requests with pending empty-ACK timers, running handlers, observations, unexpired
deduplication entries) with Context.shutdown() injected at a random instant (often 1 tick around
another event or the EMPTY_ACK_DELAY timer); afterwards virtual time runs for 700 s; real UDP stack
vs the Lean message-layer model.
Oracle: shutdown completes within SHUTDOWN_TIMEOUT; every request future is done with a result or
an aiocoap.error.Error when it returns; nothing is transmitted afterwards; nothing reaches the
loop's exception handler; later submissions fail at once with LibraryShutdown; running handlers are
cancelled; a second context in the same loop still answers a request.
"""
import msglayer
import msglayer_gen as G
import msglayer_props as P
from common import load_corpus
from props._msgl import replay_with

RULE = ("random busy scripts with one shutdown at a random tick; a second context lives in the same loop. "
        "Non-trivial: at shutdown at least one request, handler or timer was pending.")
TRUSTED = ["virtual-clock event loop and fake-socket UDP stack of the harness (vloop.py, netsim.py)"]
ASSUMPTIONS = ["task cancellation and 'no callback raises' are asyncio runtime facts decided by the oracle on the real loop, not by the model"]


def scripts(env):
    cfg = msglayer.default_cfg()
    out = [c["script"] for _, c in load_corpus("C18") if "script" in c]
    for i in range(env.scale(280, 6000)):
        s = G.c18_random(env.rng, cfg)
        s["second_context"] = "busy" if i % 3 == 0 else True
        out.append(s)
    for _ in range(env.scale(60, 900)):
        s = G.c18_twice(env.rng, cfg)
        s["second_context"] = True
        out.append(s)
    out += [G.c18_handler(env.rng) for _ in range(env.scale(40, 600))]
    out += [G.c18_obs_cancelled(env.rng) for _ in range(env.scale(40, 600))]
    out += [G.c18_obs_consumer(env.rng) for _ in range(env.scale(40, 600))]
    out += [G.c18_blockwise(env.rng) for _ in range(env.scale(60, 900))]
    return out


def nontrivial(res):
    st = res.get("futures_at_shutdown", {})
    return any(k == "LibraryShutdown" for v in P.fails(res).values() for (_, k) in v) or bool(P.outs(res, "x:"))


def run(env, rep):
    env.import_repo()
    P.check_scripts(env, rep, "C18", scripts(env), P.oracle_c18, nontrivial)


def replay(env, case):
    return replay_with(env, case, P.oracle_c18)
