"""C18 — shutdown at any moment fails pending work and leaves nothing running.

Correspondence: busy two-sided scenarios (requests awaiting ACK / separate response, backlog,
incoming requests with pending empty-ACK timers, running handlers, observations, unexpired
deduplication entries) with Context.shutdown() injected at a random instant (often 1 tick around
another event or the EMPTY_ACK_DELAY timer); afterwards virtual time runs for 700 s; real UDP stack
vs the Lean message-layer model.
Oracle: shutdown completes within SHUTDOWN_TIMEOUT; every request future is done with a result or
an aiocoap.error.Error when it returns; nothing is transmitted afterwards; nothing reaches the
loop's exception handler; later submissions fail at once with LibraryShutdown; running handlers are
cancelled; a second context in the same loop still answers a request.
"""
import msglayer
import msglayer_gen as G
import msglayer_props as P
from common import load_corpus
from props._msgl import replay_with

RULE = ("random busy scripts with one shutdown at a random tick; a second context lives in the same loop. "
        "Non-trivial: at shutdown at least one request, handler or timer was pending.")
TRUSTED = ["virtual-clock event loop and fake-socket UDP stack of the harness (vloop.py, netsim.py)"]
ASSUMPTIONS = ["task cancellation and 'no callback raises' are asyncio runtime facts decided by the oracle on the real loop, not by the model"]


def scripts(env):
    cfg = msglayer.default_cfg()
    out = [c["script"] for _, c in load_corpus("C18") if "script" in c]
    for i in range(env.scale(280, 6000)):
        s = G.c18_random(env.rng, cfg)
        s["second_context"] = "busy" if i % 3 == 0 else True
        out.append(s)
    for _ in range(env.scale(60, 900)):
        s = G.c18_twice(env.rng, cfg)
        s["second_context"] = True
        out.append(s)
    out += [G.c18_handler(env.rng) for _ in range(env.scale(40, 600))]
    out += [G.c18_obs_cancelled(env.rng) for _ in range(env.scale(40, 600))]
    out += [G.c18_obs_consumer(env.rng) for _ in range(env.scale(40, 600))]
    out += [G.c18_blockwise(env.rng) for _ in range(env.scale(60, 900))]
    return out


def nontrivial(res):
    st = res.get("futures_at_shutdown", {})
    return any(k == "LibraryShutdown" for v in P.fails(res).values() for (_, k) in v) or bool(P.outs(res, "x:"))


# -- a server context with several endpoints (oracle only) ----------------------------------------------------------
# `create_server_context(bind=<name resolving to several addresses>)` gives one context with several udp6 endpoints:
# the shutdown is the context's, whichever endpoint the work came in through.

def multi_cases():
    out = []
    for n in (1, 2, 3):
        for busy in range(1 << n):                 # which endpoints have a handler running at shutdown
            for client in (None, 0, n - 1):        # through which endpoint an own request is outstanding
                out.append({"level": "multi-endpoint", "endpoints": n, "busy": [bool(busy >> i & 1) for i in range(n)],
                            "client": client})
    return out


def run_multi(case):
    import asyncio
    import aiocoap
    import netsim
    import vloop
    import wire as W

    started, cancelled = [], []

    class SlowSite:
        async def render_to_pipe(self, pipe):
            tag = bytes(pipe.request.payload).decode()
            started.append(tag)
            try:
                await asyncio.get_running_loop().create_future()
            except asyncio.CancelledError:
                cancelled.append(tag)
                raise

        def get_resources_as_linkheader(self):
            return []

    n = case["endpoints"]

    async def main(loop):
        ctx, nets = await netsim.make_server_context_multi(loop, SlowSite(), n)
        peer = netsim.peer(0)
        for i, net in enumerate(nets):
            if case["busy"][i]:
                net.inject(W.build("CON", 1, 100 + i, bytes([0x70 + i]), [], b"pre%d" % i), peer)
        fut = None
        if case["client"] is not None:
            msg = aiocoap.Message(code=aiocoap.GET, payload=b"own")
            msg.remote = netsim.remote_for(nets[case["client"]], netsim.peer(1))
            fut = ctx.request(msg, handle_blockwise=False).response
        await asyncio.sleep(0.5)
        res = {"started_before": sorted(started)}
        try:
            await asyncio.wait_for(ctx.shutdown(), 30)
            res["shutdown"] = "returned"
        except BaseException as e:
            res["shutdown"] = "raised " + type(e).__name__
        for _ in range(5):
            await asyncio.sleep(0)
        if fut is not None:
            res["own"] = ("pending" if not fut.done() else "cancelled" if fut.cancelled() else
                          type(fut.exception()).__name__ if fut.exception() else "response")
        mark = [len(net.sent) for net in nets]
        res["cancelled"] = sorted(cancelled)
        # the context is gone: datagrams that still arrive (if anything still listens) and time passing
        for i, net in enumerate(nets):
            if not net.sock.closed:                     # (nothing arrives through a closed socket)
                try:
                    net.inject(W.build("CON", 1, 200 + i, bytes([0x50 + i]), [], b"post%d" % i), peer)
                except Exception as e:
                    res.setdefault("inject_errors", []).append(type(e).__name__)
        await asyncio.sleep(300)
        res["sent_after"] = [[d.hex() for (_, _, d) in net.sent[mark[i]:]] for i, net in enumerate(nets)]
        res["started_after"] = sorted(t for t in started if t.startswith("post"))
        res["sockets_closed"] = [net.sock.closed for net in nets]
        return res

    res, loop = vloop.run(main)
    res["loop_errors"] = [repr(c.get("exception") or c.get("message")) for c in loop.exceptions]
    return res


def oracle_multi(case, res):
    want = sorted("pre%d" % i for i, b in enumerate(case["busy"]) if b)
    if res["started_before"] != want:
        return f"multi-endpoint harness: handlers started before shutdown: {res['started_before']}, expected {want}"
    if res["shutdown"] != "returned":
        return f"shutdown of a context with {case['endpoints']} endpoints {res['shutdown']}"
    if res["cancelled"] != want:
        return (f"handlers-alive: handlers running at shutdown {want}, cancelled by it {res['cancelled']} "
                f"({case['endpoints']} endpoints)")
    if res.get("own") not in (None, "LibraryShutdown"):
        return f"own request through endpoint {case['client']} after shutdown: {res['own']}"
    if any(res["sent_after"]):
        return (f"transmits-after-shutdown: endpoints sent {[len(x) for x in res['sent_after']]} datagrams after "
                f"shutdown had returned (a request arriving on a still open socket is answered)")
    if res["started_after"]:
        return f"handlers {res['started_after']} were started after shutdown had returned"
    if not all(res["sockets_closed"]):
        return f"sockets-open: after shutdown the sockets of endpoints are closed: {res['sockets_closed']}"
    if res["loop_errors"]:
        return f"loop-exception: {res['loop_errors'][0]}"
    return ""


# -- requests addressed by host name (oracle only) -------------------------------------------------------------------
# A request whose destination is still being determined (its name is being resolved) is outstanding like any other;
# one submitted after the shutdown fails at once, whatever the resolver does.  The resolver is the harness's
# (`udp6.getaddrinfo` replaced): it answers after a scripted delay, or never.

def byname_cases():
    out = []
    for api in ("plain", "blockwise"):
        for when in ("during", "after"):
            for resolver in (10, 1, None):           # seconds until the resolver answers (None: never)
                out.append({"level": "by-name", "api": api, "submitted": when, "resolver": resolver})
    return out


def run_byname(case):
    import asyncio
    import aiocoap
    import netsim
    import vloop
    from aiocoap.transports import udp6

    async def main(loop):
        ctx, net = await netsim.make_context(loop)
        asked = []
        gates = []

        async def slow_getaddrinfo(loop_, log, host, port):
            asked.append(host)
            gate = loop.create_future()
            gates.append(gate)
            if case["resolver"] is not None:
                loop.call_later(case["resolver"], lambda: gate.done() or gate.set_result(None))
            await gate
            yield ("2001:db8::7", port or 5683, 0, 0)

        orig = udp6.getaddrinfo
        udp6.getaddrinfo = slow_getaddrinfo
        res = {}
        try:
            def submit():
                msg = aiocoap.Message(code=aiocoap.GET, uri="coap://slow.example/x")
                return ctx.request(msg, handle_blockwise=case["api"] == "blockwise").response

            def state(f):
                return ("pending" if not f.done() else "cancelled" if f.cancelled() else
                        ",".join(c.__name__ for c in type(f.exception()).__mro__) if f.exception() else "response")

            fut = None
            if case["submitted"] == "during":
                fut = submit()
                await asyncio.sleep(0.25)
                res["asked_before"] = list(asked)
            t0 = loop.time()
            await ctx.shutdown()
            res["shutdown_took"] = loop.time() - t0
            if case["submitted"] == "after":
                fut = submit()
            for _ in range(6):
                await asyncio.sleep(0)
            res["at_once"] = state(fut)
            res["asked_after_shutdown"] = asked[len(res.get("asked_before", [])):]
            mark = len(net.sent)
            await asyncio.sleep(60)
            res["later"] = state(fut)
            res["sent_after"] = len(net.sent) - mark
        finally:
            udp6.getaddrinfo = orig
        return res

    res, loop = vloop.run(main)
    res["loop_errors"] = [repr(c.get("exception") or c.get("message")) for c in loop.exceptions]
    return res


def oracle_byname(case, res):
    what = f"request to coap://slow.example/x ({case['api']}) submitted {case['submitted']} shutdown"
    if case["submitted"] == "during" and res.get("asked_before") != ["slow.example"]:
        return f"by-name harness: the resolver was asked {res.get('asked_before')} before shutdown"
    if res["shutdown_took"] > 3.0:
        return f"shutdown-slow: shutdown took {res['shutdown_took']} s"
    for moment in ("at_once", "later"):
        st = res[moment]
        if st == "pending":
            return (f"hangs: {what} is still pending {'when shutdown has returned' if moment == 'at_once' else '60 s later'}"
                    f" (resolver answers after {case['resolver']} s)")
        if st in ("cancelled", "response") or "Error" not in st.split(","):
            return f"foreign-exception: {what} ended with {st}"
    if res["asked_after_shutdown"]:
        return f"late-submit: {what} still asked the resolver for {res['asked_after_shutdown']}"
    if res["sent_after"]:
        return f"sent-after-shutdown: {res['sent_after']} datagrams after shutdown"
    if res["loop_errors"]:
        return f"loop-exception: {res['loop_errors'][0]}"
    return ""


def run(env, rep):
    env.import_repo()
    P.check_scripts(env, rep, "C18", scripts(env), P.oracle_c18, nontrivial)
    for case in byname_cases():
        rep.case(case)
        rep.count("by-name:" + case["submitted"])
        verdict = oracle_byname(case, run_byname(case))
        if verdict:
            rep.oracle_fail(case, verdict, key="by-name:" + verdict.split(":")[0].split(" ")[0])
    for case in multi_cases():
        rep.case(case, nontrivial=any(case["busy"]) or case["client"] is not None)
        rep.count("multi-endpoint:%d" % case["endpoints"])
        verdict = oracle_multi(case, run_multi(case))
        if verdict:
            rep.oracle_fail(case, verdict, key="multi-endpoint:" + verdict.split(":")[0].split(" ")[0])


def replay(env, case):
    if case.get("level") == "by-name":
        env.import_repo()
        return oracle_byname(case, run_byname(case))
    if case.get("level") == "multi-endpoint":
        env.import_repo()
        return oracle_multi(case, run_multi(case))
    return replay_with(env, case, P.oracle_c18)
