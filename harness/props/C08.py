"""C08 — Observe server: rising numbers, latest state sent, cancellation final, no leak.

Correspondence: a test `ObservableResource` under a real `Site` on the real UDP stack (netsim +
virtual clock) with 1-3 scripted observers, against the Lean observe-server model
(lean/AiocoapModel/Observe/Server.lean composed with the message-layer model).  The concrete event
sequence the implementation executed — including the order in which asyncio ran the render tasks,
which is hash-dependent when `updated_state` iterates its set — is replayed on the model; every
datagram, pipe event, `update_observation_count` call, cancellation callback and render start must
agree, in order.  Oracle: harness/c08_oracle.py (RFC 7641 section 4 read independently); it judges the
latest state also for registrations that ended by a last-marked notification (the final notification must be as new
as the last change before it) and looks at retransmissions, not only first transmissions, after the end.
"""
import multiprocessing
import os

import c08_observe as O
import c08_oracle
import c08_gen as G
from common import HarnessError, load_corpus

RULE = ("corpus, then a boundary table enumerated in full (CON/NON registrations x first-render behaviour x "
        "accept/decline; a second state change at every offset relative to the transmission and the "
        "acknowledgement of a notification; bursts of 2-5 changes in one callback / one tick apart / during a "
        "suspended render / mixed with explicit responses; every observer reaction ACK, Reset, silence, "
        "re-registration, deregistration, plain GET on the token x the phase of the render task (idle, rendering, "
        "woken, notification queued); acknowledgement of the k-th copy; transport error and shutdown in every "
        "phase; 2-3 observers incl. shared response objects; unsuccessful/raising/last notifications; "
        "trigger(..., is_last=True) x the phase of the render task when it arrives (idle; the previous change's render "
        "suspended, with the final render immediate / suspended / failing, after an update or a single trigger; a second "
        "plain or last-marked change in the same window; during the FINAL render; woken before/after another change; "
        "earlier notifications unacknowledged or queued; during the first render) x rendered / explicit final message x "
        "CON / NON x one or two observers; Reset of "
        "a NON notification; duplicates and noise; a resource whose add_observation suspends after accepting x every "
        "ending cause inside and after that window - oracle only; a transport error reported SYNCHRONOUSLY from inside the "
        "send of a datagram (sendmsg() raises: udp6 calls dispatch_error before send() returns) x which datagram (first "
        "response piggy-backed / separate / NON, a notification, a last-marked / explicit / unsuccessful / raising one, "
        "the answer to a new request on the token) x what the task still does in that step (nothing; renders again "
        "immediately / suspending / raising / for a last-marked or unsuccessful pending trigger) x CON / NON x other "
        "registrations of the endpoint (none, second token, other endpoint), twice in a row, for an unrelated endpoint, "
        "disarmed, followed by shutdown; on the message layer's own transmissions (retransmission, backlog, empty ACK) - "
        "oracle only; long bursts of 8-100 separately rendered changes (sizes around powers of two and round decimal "
        "numbers) while the observer's ACK is late (slow ACK / ACK of the retransmission) x alone / a prompt second "
        "observer / a second token of the same endpoint / a NON observer, then quiet), then random scripts from env.rng "
        "(incl. armed send failures). Non-trivial: at least one "
        "notification beyond the first response was put on a pipe, or a registration ended.")
TRUSTED = ["virtual-clock event loop and fake-socket UDP stack of the harness (vloop.py, netsim.py)",
           "instance-level wrappers the harness installs on Context.render_to_pipe / Site.render_to_pipe / "
           "ServerObservation.accept / the request pipe's add_response to log pipe events and attribute log records "
           "to render tasks; the iteration counter on the harness's own loop (one task step per loop iteration); the "
           "fake network's delivery hook that makes sendmsg() raise for an armed destination"]
ASSUMPTIONS = ["asyncio task semantics: a step is atomic between awaits; a cancelled task gets CancelledError at "
               "its next step and runs only `finally`; a task cancelled before its first step never runs",
               "asyncio timer order as on the virtual clock; runs with two inputs at one tick are not compared",
               "Task.cancel() called from inside the running task takes effect at its next suspension (the model "
               "records it at the end of the step); a send failure outside a render task's step (retransmission, "
               "empty ACK, backlog) is not an input of the shared message-layer model: oracle only"]


def _worker(args):
    repo, script = args
    import sys
    if sys.path[0] != repo:
        sys.path.insert(0, repo)
    try:
        res = O.run_script(script)
    except Exception as e:
        import traceback
        return {"crash": f"{type(e).__name__}: {e}", "tb": traceback.format_exc()[-1500:], "script": script}
    res["script"] = script
    return res


def run_scripts(env, scripts):
    env.import_repo()
    jobs = [(env.repo, s) for s in scripts]
    if len(jobs) > 40:
        with multiprocessing.get_context("fork").Pool(min(16, os.cpu_count() or 4)) as pool:
            return pool.map(_worker, jobs, chunksize=4)
    return [_worker(j) for j in jobs]


def oracle(res):
    bad = [("escaped-exception", "exception escaped into the transport: " + e) for e in res["errors"]]
    bad += [("loop-exception", "exception reached the event loop: " + e) for e in res["loop_exceptions"]]
    # library code raising inside the render task (not the resource's own render): run_driving_pipe turns it into a
    # 5.00 or drops it, the registration dies of an accident
    bad += [("C08:render-task-exception", e) for e in res.get("task_errors", [])]
    return bad + c08_oracle.check(res)


def nontrivial(res):
    later = [r for r in res["records"] if "/n:" in r and r.split(":")[3] not in ("-", "0")]
    ended = [r for r in res["records"] if "/k:" in r or "/x:" in r]
    return bool(later or ended)


def run(env, rep):
    env.import_repo()
    scripts = [c["script"] for _, c in load_corpus("C08") if "script" in c]
    table = G.boundary_table()
    scripts += table
    scripts += [G.random_script(env.rng, i) for i in range(env.scale(1200, 30000))]
    # every fourth script again with a resource that keeps its renderings and hands the same object to every observer
    # it notifies of a state (the model works on values; the implementation has to make them so)
    scripts += [dict(s, cached_render=True, tag="cached:" + s.get("tag", "")) for i, s in enumerate(scripts) if i % 4 == 3]
    # ... and every eighth with notifications rendered as messages that cannot be deep-copied
    scripts += [dict(s, uncopyable_render=True, tag="uncopyable:" + s.get("tag", ""))
                for i, s in enumerate(scripts) if i % 8 == 5 and not s.get("cached_render")]
    results = run_scripts(env, scripts)
    lines, cases, impl, fails = [], [], [], []
    for res in results:
        script = res["script"]
        tag = script.get("tag", "")
        if "crash" in res:
            raise HarnessError(f"scenario crashed: {res['crash']}\n{res.get('tb')}\nscript={script}")
        case = {"script": script}
        rep.count("script:" + tag.split(":")[0])
        for c in res["concrete"]:
            rep.count("event:" + c.split("@")[0])
        for r in res["records"]:
            rep.count("record:" + r.split("/", 1)[1][0])
        rep.count("tasks:%d" % len([c for c in res["concrete"] if c.startswith("R@") and ":1:" in c]))
        rep.case({"tag": tag, "events": res["concrete"][:14], "trace": res["impl_line"][:300]},
                 nontrivial=nontrivial(res), sample_every=60)
        seen = set()
        for key, verdict in oracle(res):
            if key in seen:
                continue
            seen.add(key)
            fails.append((case, key, verdict))
        want = script.get("finding_key")
        if want:
            # a corpus replay of a recorded known finding: say whether the oracle still sees it
            rep.count(("known-finding-reproduced:" if want in seen else "known-finding-NOT-reproduced:") + want)
        if script.get("slow_add"):
            rep.count("oracle-only:add_observation-suspends")
            continue
        if res["same_tick_inputs"]:
            rep.count("discarded:same-tick-inputs")
            continue
        if res["fail_outside_task"]:
            # sendmsg() failed for a datagram the message layer sent on its own (a retransmission, an empty ACK,
            # the backlog going on): the shared message-layer model has no such input
            rep.count("oracle-only:send-failed-outside-a-task-step")
            continue
        lines.append("C08 " + " ".join(res["args"]))
        cases.append(case)
        impl.append(res["impl_line"])
    # Report keeps the first 50 failures only: one failure of every distinct key that is not a recorded known
    # finding goes first, then a few of every known finding (not one per script that runs into it), then the rest
    known = _known_keys()
    heads, kn, rest, per_key = [], [], [], {}
    for f in fails:
        per_key[f[1]] = per_key.get(f[1], 0) + 1
        if f[1] in known:
            rep.count("known-finding-seen:" + f[1])
            if per_key[f[1]] <= 3:
                kn.append(f)
        else:
            (heads if per_key[f[1]] == 1 else rest).append(f)
    for case, key, verdict in heads + kn + rest:
        rep.oracle_fail(case, verdict, key=key)
    outs = env.lean(lines)
    for case, line, m, i in zip(cases, lines, outs, impl):
        if m == "bad-op":
            raise HarnessError(f"driver answered {m} for {line[:300]}")
        if m == "out-of-model":
            rep.out_of_model += 1
            continue
        cm, tie, starved = O.canon_model_line(m)
        if tie:
            rep.count("discarded:timer-tie")
            continue
        if starved:
            # the model opened a CON exchange the implementation never drew a time-out for
            rep.traces += 1
            rep.disagree({"case": case, "line": line}, "model needs more ACK time-out draws than the "
                         "implementation made", i[:300], what="observe server trace")
            continue
        rep.traces += 1
        if cm != i:
            a, b = cm.split(";"), i.split(";")
            k = next((j for j in range(min(len(a), len(b))) if a[j] != b[j]), min(len(a), len(b)))
            rep.disagree({"case": case, "line": line}, "…" + ";".join(a[max(0, k - 3):k + 4]),
                         "…" + ";".join(b[max(0, k - 3):k + 4]), what="observe server trace")
    if rep.out_of_model * 2 > len(lines):
        raise HarnessError("more than half of the scripts are outside the model")
    rep.exhaustive_parts.append("boundary table of %d scripts (see RULE)" % len(table))


def _known_keys():
    """keys of the findings that are recorded as known (reported by ./check as KNOWN-FINDING)"""
    import json
    from common import VERIF
    keys = set()
    for fn in ("known_findings.json", os.path.join("findings", "C08.json")):
        try:
            data = json.load(open(os.path.join(VERIF, fn)))
        except (OSError, ValueError):
            continue
        for e in (data["findings"] if isinstance(data, dict) else data):
            if e.get("property") == "C08" and e.get("status") == "known":
                keys.add(e["key"])
    return keys


def replay(env, case):
    """re-run one recorded case on the implementation; verdicts of known findings are not what a
    replay file was written for and are left out"""
    env.import_repo()
    res = O.run_script(case["script"])
    res["script"] = case["script"]
    known = _known_keys()
    bad = [(k, v) for k, v in oracle(res) if k not in known]
    return "; ".join(f"[{k}] {v}" for k, v in bad[:3])
