"""C13 — OSCORE nonces are never reused across restarts, crashes and exhaustion.

Correspondence (model ≈ code): event histories (load / protect / request arrival / clean
shutdown / kill, with a crash after the j-th file-system effect of an operation's `_store`)
are run on the REAL `FilesystemSecurityContext` in a scratch directory (`tempfile.mkdtemp`,
removed after each case) and on the Lean model `Persist.step`; compared per event: the result
(issued number read from the partial IV of the protected message, exhausted, accepted by
strike / by Echo recovery, refused kind, locked, …), the directory contents whenever they
change (parsed `sequence.json` and every stray temp file), and the in-memory state at `M`
queries (`sender_sequence_number`, `sequence_number_persisted`, chunk size,
`replay_window_persisted`, window).

Responses: `A<n>` protects a response / notification / the 4.01 + Echo challenge with the newest request
identifiers of request `n` (model: `PersistAead.gstep`); every event's token carries the (key, nonce)
pairs the implementation handed to the transparent AEAD under the sender key in that event, decoded
with the harness's own RFC 8613 section 5.2 reader into `o<n>` (own number) / `p<n>` (the peer's
partial IV, i.e. a re-used request nonce), and is compared with the model's ghost log.

Oracle (independent reading of the property over the observations): no sequence number twice and no
(key, nonce) pair handed to the AEAD twice across all lifetimes - runs before a crash included; strictly increasing within a lifetime; nothing at
or above 2^40-1 and a refusal changes nothing; after an unclean stop of a lifetime that accepted
a request from its window the next window is uninitialised; no request number accepted again
without an Echo recovery in between; after a clean stop every number accepted in that lifetime
is invalid in the loaded window; nothing accepted on an uninitialised window without the echo
value issued by that process.
"""
import json
import os
import shutil
import tempfile

from common import compare, load_corpus, HarnessError
import c13_fs
from c13_fs import Crash, Effects

RULE = ("Histories of load/protect/arrival/response/clean-shutdown/kill events on the real "
        "FilesystemSecurityContext; corpus first. Responses (table, always): requests accepted and answered once and "
        "twice, then every kind of stop (kill, crash inside a protect / a response / an arrival's store, clean stop, "
        "aborted clean stop), reload, THE SAME requests replayed before any Echo exchange completes, their Echo "
        "challenges, completion of the Echo exchange, responses, a second crash and replays again - starting 0, 9 "
        "and 10 numbers into the first chunk; challenge and response stores at a chunk boundary dying after each "
        "effect; responses without request identifiers / without a process / at exhaustion. Boundary table (always, in full): for every chunk "
        "boundary 0/10/30/70/150/310 of the default configuration and every boundary of the small "
        "configurations (1,4) (2,16) (3,10) (5,5) (1,1), the store at the boundary dies after each of "
        "its 0..5 effects (plus a kill and no crash) and is followed by reload, protects, clean "
        "shutdown, reload; boundaries 630/1270 with crash points 1/3/4 in the quick tier (all, up to "
        "5110, in the thorough tier); one lifetime through all boundaries up to 30230 (chunk limit "
        "10000) dying in the store there; crash sweeps over the first-strike store and over the "
        "clean-shutdown store; repeated crash/reload cycles; the null-window corner; chunk size 0 "
        "(assert); exhaustion from 2^40-1-k, k=0..12; lock; window sizes 1/2/8/33. Random: "
        "state-aware event lists (numbers around the live window, replays of accepted numbers, "
        "current/stale/no echo, responses to the request just received or an older one - once or twice, "
        "crashes with probability ~8 %); a quarter of them is the malformed "
        "stream (operations without a process, second loads, forged tags). A case is non-trivial "
        "when it has at least one store and one reload after a stop; distinct by full event list.")
TRUSTED = ["harness shims for cbor2/cryptography/filelock (lock = lock-file existence), the transparent AEAD "
           "(harness/oscore_util.py) and the effect interception proxies (harness/c13_fs.py)"]
ASSUMPTIONS = ["the peer's sender sequence numbers increase and it cannot know an Echo value before it was issued: a "
               "request accepted through Echo recovery carries a number above every number accepted before "
               "(hypothesis EchoFresh of C13_aead_nonces_never_repeat; histories of the random stream that break it "
               "are not judged for re-used REQUEST nonces, own numbers are judged unconditionally)",
               "sender and recipient id differ, so nonces built from own numbers and from the peer's partial IVs "
               "never coincide (nonce construction is C11's subject)",
               "process-crash file semantics: os.replace is atomic and a completed os.replace survives the crash; "
               "power failure (fsync ordering) and I/O errors returned by _store are outside the quantifier",
               "one process per context directory (the lock file); contexts are never copied/rolled back",
               "sequence.json is only written by the implementation (no tampering); (window size >= 1 is no longer an "
               "assumption: since d4a2c42 the implementation refuses to load a smaller one)"]

MAXSEQ = 2 ** 40 - 1
SECRET = "0123456789abcdef"
ALG = "verif-transparent"


# ------------------------------------------------------------------------------------------
# running a case on the implementation

class Runner:
    def __init__(self, env):
        self.aiocoap = env.import_repo(shims=True)
        import aiocoap.oscore as oscore
        import oscore_util
        self.oscore = oscore
        self.TA, self.HC = oscore_util.make(oscore)
        self.alg = self.TA()
        import inspect
        sig = inspect.signature(oscore.FilesystemSecurityContext.__init__).parameters
        self.def_start = sig["sequence_number_chunksize_start"].default
        self.def_limit = sig["sequence_number_chunksize_limit"].default
        self.def_window = oscore.DEFAULT_WINDOWSIZE

    def cfg(self, case):
        """(start, limit, size) as the implementation will use them"""
        return (self.def_start if case.get("start") is None else case["start"],
                self.def_limit if case.get("limit") is None else case["limit"],
                self.def_window if case.get("window") is None else case["window"])

    def line(self, case):
        s, l, w = self.cfg(case)
        disk = case.get("disk") or "-"
        return f"C13 {s} {l} {w} {disk} " + " ".join(case["events"])

    def run(self, case):
        """→ (tokens, log).  tokens: one per event as the driver prints them."""
        oscore = self.oscore
        fx = Effects()
        # a memory-backed scratch directory when there is one: every store fsyncs
        shm = "/dev/shm"
        basedir = tempfile.mkdtemp(prefix="c13-", dir=shm if os.access(shm, os.W_OK | os.X_OK) else None)
        basedir = os.path.realpath(basedir)
        if basedir.startswith("/repo") or basedir.startswith("/verif"):
            raise HarnessError("scratch directory inside /repo or /verif")
        had_alg = ALG in oscore.algorithms
        oscore.algorithms[ALG] = self.alg
        fx.install(oscore)
        self.TA.log.clear()
        try:
            return self._run(case, basedir, fx)
        finally:
            fx.uninstall(oscore)
            if not had_alg:
                del oscore.algorithms[ALG]
            self.TA.log.clear()
            shutil.rmtree(basedir, ignore_errors=True)

    def _write_settings(self, case, basedir):
        settings = {"algorithm": ALG, "sender-id_hex": "01", "recipient-id_hex": "02",
                    "secret_ascii": SECRET}
        if case.get("window") is not None:
            settings["window"] = case["window"]
        with open(os.path.join(basedir, "settings.json"), "w") as f:
            json.dump(settings, f)
        disk = case.get("disk")
        if disk:
            parts = disk.split(":")
            nxt = int(parts[0])
            if parts[1] == "u":
                rec = "unknown"
            elif parts[1] == "n":
                rec = {"index": None, "bitfield": None}
            else:
                rec = {"index": int(parts[1]), "bitfield": int(parts[2])}
            with open(os.path.join(basedir, "sequence.json"), "w") as f:
                json.dump({"next-to-send": nxt, "received": rec}, f)

    def _construct(self, case, basedir):
        kw = {}
        if case.get("start") is not None:
            kw["sequence_number_chunksize_start"] = case["start"]
        if case.get("limit") is not None:
            kw["sequence_number_chunksize_limit"] = case["limit"]
        return self.oscore.FilesystemSecurityContext(basedir, **kw)

    @staticmethod
    def _neutralise(ctx, basedir):
        ctx.lockfile = None
        try:
            os.unlink(os.path.join(basedir, "lock"))
        except FileNotFoundError:
            pass

    @staticmethod
    def _mem(ctx):
        if ctx is None:
            return "m:-"
        w = ctx.recipient_replay_window
        win = "u" if not w.is_initialized() else "%d:%d" % (w.persist()["index"], w.persist()["bitfield"])
        return "m:%d:%d:%d:%d:%s" % (ctx.sender_sequence_number, ctx.sequence_number_persisted,
                                     ctx.sequence_number_chunksize,
                                     1 if ctx.replay_window_persisted else 0, win)

    def _run(self, case, basedir, fx):
        from aiocoap import Message, GET
        oscore = self.oscore
        self._write_settings(case, basedir)
        client = self.HC.Peer(b"\x02", b"\x01", secret=SECRET.encode("ascii"), alg=self.alg)
        ctx = None
        rids = {}                    # partial IV of a request -> its newest request identifiers (this lifetime)
        skey = civ = None            # sender key / common IV of the context (the same in every lifetime)
        lifetime = 0
        tokens, log = [], []
        numbers = set()              # every request number that ever arrived
        prev_snap = c13_fs.snapshot(basedir, fx)
        prev_stamp = (fx.total, c13_fs.dir_stamp(basedir))
        for tok in case["events"]:
            ev, _, cr = tok.partition("!")
            crash = int(cr) if cr else None
            kind = ev[0]
            obs = {"ev": kind, "lifetime": lifetime}
            if kind == "M":
                tokens.append(self._mem(ctx))
                continue
            if kind == "W":
                # the operator edits settings.json (used by C12's restart histories only: the `window` setting
                # takes effect at the next load; the persistence model has one window size per history)
                self._write_settings(dict(case, window=int(ev[1:]), disk=None), basedir)
                tokens.append("w")
                log.append({"ev": "W", "lifetime": lifetime, "res": "w", "window": int(ev[1:])})
                continue
            if kind == "L":
                fx.echo = int(ev[1:]).to_bytes(8, "big")
                if ctx is None:
                    lifetime += 1
                    ctx = self._construct(case, basedir)
                    res = "l"
                    rids = {}
                    skey, civ = bytes(ctx.sender_key), bytes(ctx.common_iv)
                    w = ctx.recipient_replay_window
                    obs.update(lifetime=lifetime, win_init=w.is_initialized(),
                               ssn=ctx.sender_sequence_number,
                               valid={n: (w.is_initialized() and w.is_valid(n)) for n in numbers})
                else:
                    try:
                        second = self._construct(case, basedir)
                    except BaseException as e:       # filelock.Timeout is what is expected
                        res = "k"
                        obs["exc"] = type(e).__name__
                    else:
                        second.lockfile = None       # never let it shut down "cleanly"
                        res = "l"
                        obs["second_process"] = True
            elif ctx is None:
                res = "-"
            elif kind == "K":
                self._neutralise(ctx, basedir)
                ctx = None
                rids = {}
                res = "z"
                obs["stop"] = "unclean"
            else:
                fx.begin(crash)
                nlog = len(self.TA.log)
                try:
                    entry = rids.get(int(ev[1:])) if kind == "A" else None
                    if kind == "P" or (kind == "A" and entry is None):
                        # (a response for a number without request identifiers is an own request)
                        before = self._mem(ctx)
                        msg = Message(code=GET, uri="coap://example.org/x")
                        try:
                            prot, rid = ctx.protect(msg)
                        except oscore.ContextUnavailable:
                            res = "x"
                            obs["mem_changed"] = before != self._mem(ctx)
                        except AssertionError:
                            res = "a"
                        else:
                            opt = prot.opt.oscore
                            piv = opt[1:1 + (opt[0] & 7)]
                            n = int.from_bytes(piv, "big")
                            if int.from_bytes(rid.partial_iv, "big") != n:
                                raise HarnessError("partial IV of the option and of the request id differ")
                            res = f"i{n}"
                            obs.update(issued=n, pivlen=len(piv))
                    elif kind == "A":
                        # a response / notification to an accepted request, or the 4.01 + Echo challenge the
                        # server sends for a request it refused with ReplayErrorWithEcho
                        before = self._mem(ctx)
                        what, thing = entry
                        obs["answers"] = int(ev[1:])
                        try:
                            if what == "echo":
                                prot = thing.to_message()
                            else:
                                from aiocoap import CONTENT
                                prot, _ = ctx.protect(Message(code=CONTENT, payload=b"r"), thing)
                        except oscore.ContextUnavailable:
                            res = "x"
                            obs["mem_changed"] = before != self._mem(ctx)
                        except AssertionError:
                            res = "a"
                        else:
                            opt = prot.opt.oscore or b""
                            piv = opt[1:1 + (opt[0] & 7)] if opt else b""
                            if piv:
                                n = int.from_bytes(piv, "big")
                                res = f"i{n}"
                                obs.update(issued=n, pivlen=len(piv))
                            else:
                                res = "r%d" % int(ev[1:])
                    elif kind == "R":
                        seq, auth, echo = ev[1:].split(":")
                        seq, auth = int(seq), auth == "1"
                        numbers.add(seq)
                        echo = None if echo == "-" else int(echo).to_bytes(8, "big")
                        inc = self._request(client, seq, echo, not auth)
                        init_before = ctx.recipient_replay_window.is_initialized()
                        obs.update(seq=seq, auth=auth, init_before=init_before,
                                   echo_ok=(echo is not None and echo == ctx.echo_recovery))
                        try:
                            _, rid = ctx.unprotect(inc)
                            res = "As" if init_before else "Ae"
                            rids[seq] = ("resp", rid)
                        except oscore.ReplayErrorWithEcho as e:
                            res = "E"
                            rids[seq] = ("echo", e)
                        except oscore.ReplayError:
                            res = "R"
                        except oscore.ProtectionInvalid:
                            res = "P"
                        except Exception as e:           # anything else is an observation the oracle judges
                            res = "X"
                            obs["exc"] = type(e).__name__
                    elif kind == "S":
                        ctx.__del__()
                        ctx = None
                        rids = {}
                        res = "s"
                        obs["stop"] = "clean"
                    else:
                        raise HarnessError(f"unknown event {tok!r}")
                except Crash:
                    res = "d"
                # every (key, nonce) pair the implementation handed to the AEAD under the sender key in this event
                used = [(e[3], e[4]) for e in self.TA.log[nlog:] if e[0] == "enc" and e[3] == skey]
                obs["nonces"] = used
                obs["used"] = [self._nonce_name(civ, nonce) for _, nonce in used]
                if crash is not None or res == "d":
                    # the process dies inside the operation (after `crash` effects, or at its end
                    # if it has fewer): its result is never delivered
                    rids = {}
                    if ctx is not None:
                        self._neutralise(ctx, basedir)
                        ctx = None
                    elif kind == "S":
                        # died inside / at the end of _destroy
                        try:
                            os.unlink(os.path.join(basedir, "lock"))
                        except FileNotFoundError:
                            pass
                    res = "d"
                    # a shutdown whose os.replace completed has persisted everything: for the
                    # disk it is a clean stop even though the process died right afterwards
                    obs["stop"] = "clean" if (kind == "S" and "replace" in fx.oplog) else "unclean"
                    obs.pop("issued", None)
                fx.end()
                obs["effects"] = list(fx.oplog)
            obs["res"] = res
            res = res + "".join("~" + u for u in obs.get("used", ()))
            stamp = (fx.total, c13_fs.dir_stamp(basedir))
            if stamp != prev_stamp:
                prev_stamp = stamp
                snap = c13_fs.snapshot(basedir, fx)
                if snap != prev_snap:
                    prev_snap = snap
                    res = res + "@" + snap
            tokens.append(res)
            log.append(obs)
        if ctx is not None:
            self._neutralise(ctx, basedir)
        return tokens, log

    @staticmethod
    def _nonce_name(common_iv, nonce):
        """RFC 8613 section 5.2 read backwards: nonce = common IV xor (len(id) | id padded to len-6 | partial IV
        padded to 5); `o<n>` for the context's own id 01, `p<n>` for the peer's id 02"""
        x = bytes(a ^ b for a, b in zip(nonce, common_iv))
        if len(nonce) != len(common_iv) or len(x) < 7:
            return "?" + nonce.hex()
        idlen = x[0]
        idfield = x[1:len(x) - 5]
        if idlen > len(idfield) or any(idfield[:len(idfield) - idlen]):
            return "?" + nonce.hex()
        ident = idfield[len(idfield) - idlen:]
        piv = int.from_bytes(x[-5:], "big")
        if ident == b"\x01":
            return "o%d" % piv
        if ident == b"\x02":
            return "p%d" % piv
        return "?" + nonce.hex()

    def _request(self, client, seq, echo, forge):
        from aiocoap import Message, GET
        msg = Message(code=GET, uri="coap://example.org/x")
        if echo is not None:
            msg.opt.echo = echo
        client.sender_sequence_number = seq
        prot, _ = client.protect(msg)
        if forge:
            prot.payload = prot.payload[:-1] + bytes([prot.payload[-1] ^ 0x01])
        prot.mid = 1
        prot.mtype = self.aiocoap.CON
        return Message.decode(prot.encode())


# ------------------------------------------------------------------------------------------
# oracle: the property read over the observation log (no model, no aiocoap code)

def oracle(log):
    """→ (verdict, key) — ("", None) when the property holds on this history."""
    issued_all = {}
    nonces = {}
    ever_accepted = set()        # every request number accepted so far, all lifetimes
    stale_echo = False           # the peer broke the freshness assumption (see C13_aead_nonces_never_repeat)
    last_in_life = {}
    seen = set()                 # accepted and not yet superseded by an Echo recovery
    life_strike = False          # this lifetime accepted a request from an initialised window
    life_accepted = []           # numbers accepted in this lifetime
    prev_stop = None             # how the previous lifetime ended, with its observations
    for o in log:
        ev, res = o["ev"], o["res"]
        if o.get("second_process"):
            return "a second process obtained the context while the first was alive", "lock"
        if ev == "L" and res == "l":
            if prev_stop is not None:
                kind, struck, accepted = prev_stop
                if kind == "unclean" and struck and o["win_init"]:
                    return ("replay window is initialised after an unclean stop of a lifetime that "
                            "accepted a request"), "unclean-window-initialised"
                if kind == "clean":
                    for n in accepted:
                        if not o["win_init"] or o["valid"][n]:
                            return (f"request number {n}, accepted before the clean shutdown, is valid "
                                    "again after reload"), "clean-window-lost"
            life_strike, life_accepted, prev_stop = False, [], None
        if "stop" in o:
            prev_stop = (o["stop"], life_strike, list(life_accepted))
        if "issued" in o:
            n = o["issued"]
            if n in issued_all:
                return (f"sender sequence number {n} issued twice (lifetimes {issued_all[n]} and "
                        f"{o['lifetime']})"), "seqno-reuse"
            issued_all[n] = o["lifetime"]
            if n >= MAXSEQ or o["pivlen"] > 5:
                return f"sequence number {n} issued at or beyond 2^40-1", "wrap"
            if o["lifetime"] in last_in_life and last_in_life[o["lifetime"]] >= n:
                return f"sequence numbers not increasing within a lifetime ({last_in_life[o['lifetime']]} then {n})", "not-increasing"
            last_in_life[o["lifetime"]] = n
        for kn, name in zip(o.get("nonces", ()), o.get("used", ())):
            if kn in nonces and name[0] == "p" and stale_echo:
                # outside the assumption about the PEER (it completed an Echo exchange with a number that is not
                # above everything it had used before, i.e. it re-uses its own sequence numbers): not judged
                continue
            if kn in nonces:
                what = {"o": "own sequence number ", "p": "partial IV of the peer's request "}.get(name[0], "") + name[1:]
                return (f"AEAD nonce {kn[1].hex()} ({what}) handed to the AEAD twice under the sender key "
                        f"(first in lifetime {nonces[kn]}, again in lifetime {o['lifetime']}, event {o['ev']})"), \
                    "aead-nonce-reuse"
            nonces[kn] = o["lifetime"]
        if res == "x" and (o.get("mem_changed") or o.get("effects")):
            return "refusing at exhaustion changed the context state", "exhaustion-state-changed"
        if ev == "R" and res in ("As", "Ae"):
            n = o["seq"]
            if not o["auth"]:
                return f"forged request {n} accepted", "forgery-accepted"
            if res == "Ae":
                if not o["echo_ok"]:
                    return (f"request {n} accepted on an uninitialised window without the echo value "
                            "of this process"), "accepted-without-echo"
                if ever_accepted and n <= max(ever_accepted):
                    stale_echo = True
                seen = {n}
            else:
                if n in seen:
                    return (f"request number {n} accepted again without an Echo recovery in "
                            "between"), "reaccepted-without-echo"
                seen.add(n)
                life_strike = True
            life_accepted.append(n)
            ever_accepted.add(n)
    return "", None


# ------------------------------------------------------------------------------------------
# case generation

def boundaries(start, limit, upto):
    """protect counts at which a fresh lifetime stores: 0, start, 3*start, … (as the property
    statement lists them: 10, 30, 70, 150, …)"""
    out, b, c = [], 0, start
    while b <= upto:
        out.append(b)
        b += c
        c = min(2 * c, limit)
    return out


def P(n):
    return ["P"] * n


def boundary_cases(env):
    cases = []

    def add(events, tag, **kw):
        c = {"events": events, "tag": tag}
        c.update(kw)
        cases.append(c)

    crashes = [None, "K"] + list(range(0, 6))

    def after(op, cr):
        if cr is None:
            return [op]
        if cr == "K":
            return [op, "K"]
        return [f"{op}!{cr}"]

    # crash at every effect of the store at every chunk boundary, then reload and go on
    for (start, limit, upto) in [(None, None, env.scale(1300, 5200)), (1, 4, 24), (2, 16, 80), (3, 10, 40),
                                 (5, 5, 20), (1, 1, 4)]:
        s, l = (10, 10000) if start is None else (start, limit)
        for b in boundaries(s, l, upto):
            # quick tier: the two largest default boundaries get a reduced set of crash points
            # (the doubling logic is the same code as at the smaller ones, swept in full)
            for cr in (crashes if (b <= 310 or env.thorough) else [None, 1, 3, 4]):
                add(["L100", "M"] + P(b) + ["M"] + after("P", cr) + ["M", "L101", "M", "P", "P", "M", "S", "L102", "M", "P"],
                    f"boundary:{s}:{l}:{b}", start=start, limit=limit)
            # one before the boundary: no store in that protect
            if b > 0:
                add(["L100"] + P(b - 1) + ["P!1", "L101", "P", "M"], f"boundary-1:{s}:{l}:{b}",
                    start=start, limit=limit)
    # chunk size 0 (a misconfiguration): the assert in post_seqnoincrease fires, nothing is issued
    add(["L100", "M", "P", "M", "P", "K", "L101", "P", "M", "S", "L102", "M"], "assert", start=0, limit=5)
    add(["L100", "P", "P", "M", "P", "M"], "assert", start=3, limit=0)
    # repeated crash/reload cycles: every lifetime dies in (or right after) its first store
    for cr in crashes:
        ev = []
        for k in range(6):
            ev += [f"L{100 + k}"] + P(k % 3) + after("P", cr) + ["M"]
        add(ev + ["L200", "P", "P", "M"], "cycles")
    for pattern in ([0, 1, 2, 3, 4], [4, 3, 2, 1, 0], [2, 2, 2, 2], [3, 4, 3, 4], [1, 5, 0, 4]):
        ev = []
        for k, cr in enumerate(pattern):
            ev += [f"L{100 + k}", "P", "P", f"P!{cr}" if k % 2 else "P", "R%d:1:-" % (5 + k)] + P(9) + [f"P!{cr}"]
        add(ev + ["L200", "M", "P", "S", "L201", "M", "P"], "cycles-mixed")
    # first strike of a lifetime stores "unknown": crash sweep, then replay
    for cr in crashes:
        add(["L100", "P", "P"] + after("R5:1:-", cr) + ["M", "L101", "M", "R5:1:-", "R5:1:101", "R5:1:-",
            "R6:1:-", "P", "S", "L102", "M", "R5:1:-", "R6:1:-", "R7:1:-", "K", "L103", "R7:1:-", "M"],
            "first-strike")
        # clean shutdown store: crash sweep
        add(["L100"] + P(3) + ["R5:1:-", "R9:1:-", "M"] + after("S", cr) + ["L101", "M", "R5:1:-", "R9:1:-",
            "R8:1:-", "P", "M"], "clean-shutdown")
        # window persisted by a clean shutdown, next lifetime strikes and dies
        add(["L100", "R5:1:-", "S", "L101", "M"] + after("R7:1:-", cr) + ["L102", "M", "R7:1:-", "R5:1:-",
            "R7:1:102", "R5:1:-", "M"], "strike-after-clean")
    # the null-window corner: unknown → clean shutdown without traffic → Echo recovery → protect stores the window
    for cr in crashes:
        add(["L100", "R5:1:-", "K", "L101", "M", "S", "L102", "M", "R9:1:-", "R9:1:102", "M"] + P(10)
            + after("P", cr) + ["M", "L103", "M", "R9:1:-", "R5:1:-", "R9:1:103", "R12:1:-", "M", "K",
                                "L104", "R12:1:-", "M"], "null-window")
    # responses, notifications and Echo challenges: which (key, nonce) pairs reach the AEAD.  Request 5 (and 6) accepted
    # and answered (the response re-uses the request's nonce; a second response takes an own number), the process
    # stops in every way, the next one gets the SAME requests again before any Echo exchange has completed: it must
    # challenge them with an own number; then the Echo exchange completes and its request is answered
    for stop in (["K"], ["P!0"], ["A5!0"], ["A6!2"], ["S"], ["R7:1:-!1"], ["R7:1:-", "A7", "K"], ["S!2"]):
        for pre in (0, 9, 10):
            add(["L100"] + P(pre) + ["R5:1:-", "A5", "R6:1:-", "A6", "A5", "M"] + stop +
                ["L101", "M", "R5:1:-", "A5", "R6:1:-", "A6", "A5", "R5:1:-", "A5", "M",
                 "R9:1:101", "A9", "A9", "R5:1:-", "R6:1:-", "R10:1:-", "A10", "A10", "M", "K",
                 "L102", "R10:1:-", "A10", "R9:1:-", "A9", "R11:1:102", "A11", "R12:1:-", "A12", "M"],
                f"respond:{stop[0]}")
    # the challenge / the response crosses a chunk boundary: its store dies after every effect
    for cr in crashes:
        add(["L100", "R5:1:-", "A5", "K", "L101"] + P(9) + ["R5:1:-", "M"] + after("A5", cr) +
            ["M", "L102", "M", "R5:1:-", "A5", "M"], "respond-boundary")
        add(["L100"] + P(10) + ["R5:1:-", "A5", "M"] + after("A5", cr) + ["M", "L101", "R5:1:-", "A5", "M"],
            "respond-boundary")
    # answering without any request identifiers, before a load, and at exhaustion
    add(["A5", "L100", "A5", "R5:0:-", "A5", "R5:1:-", "R5:1:-", "A5", "A5", "M", "S", "A5", "L101", "A5", "M"],
        "respond-misc")
    for k in (0, 1):
        add(["L100", "R5:1:-", "K", "L101", "R5:1:-", "M", "A5", "A5", "A5", "M", "R9:1:101", "A9", "M"],
            "respond-exhaustion", disk=f"{MAXSEQ - k}:0:0")
    # exhaustion
    for k in range(0, 13):
        for rec in ("u", "0:0"):
            add(["L100", "M"] + P(k + 2) + ["M", "P", "S", "L101", "M", "P", "K", "L102", "P", "M"],
                f"exhaustion:{k}", disk=f"{MAXSEQ - k}:{rec}")
    add(["L100", "P", "P!2", "L101", "P", "M"], "exhaustion:beyond", disk=f"{MAXSEQ + 7}:u")
    # lock, operations without a process
    add(["P", "R5:1:-", "S", "K", "M", "L100", "L101", "M", "P", "L102", "K", "L103", "M", "S", "S", "L104", "M"], "lock")
    # replay-window sizes, forged and stale-echo arrivals
    for w in (1, 2, 8, 33):
        add(["L100", "R0:1:-", "R0:1:-", f"R{w}:1:-", "R0:0:-", f"R{w + 1}:0:-", f"R{w + 1}:1:-", "M", "S", "L101",
             "M", "R0:1:-", f"R{w}:1:-", f"R{2 * w + 5}:1:-", "K", "L102", f"R{2 * w + 5}:1:100",
             f"R{2 * w + 5}:1:102", f"R{2 * w + 5}:1:102", "M"], f"window:{w}", window=w)
    return cases


def long_case(env):
    """one lifetime through every boundary up to the chunk limit, ending in a crash"""
    top = 30230
    ev = ["L100"]
    bs = set(boundaries(10, 10000, top))
    for i in range(top):
        if i in bs:
            ev.append("M")
        ev.append("P")
    j = env.rng.randrange(0, 5)
    ev += ["M", f"P!{j}", "L101", "M", "P", "M"]
    return {"events": ev, "tag": "long"}


def random_case(rng, malformed):
    cfgs = [(None, None), (None, None), (1, 4), (2, 16), (3, 10), (1, 1), (7, 9)]
    start, limit = rng.choice(cfgs)
    window = rng.choice([None, None, 1, 4, 32])
    size = 32 if window is None else window
    ev = []
    alive = False
    life = 0
    accepted = []
    top = 0
    idx = 0
    n = rng.randrange(8, 60)
    for _ in range(n):
        r = rng.random()
        if not alive:
            if malformed and r < 0.25:
                ev.append(rng.choice(["P", "S", "K", "R3:1:-"]))
                continue
            life += 1
            ev.append(f"L{100 + life}")
            alive = True
            if rng.random() < 0.3:
                ev.append("M")
            continue
        crash = ""
        if rng.random() < 0.08:
            crash = "!%d" % rng.randrange(0, 6)
        if r < 0.50:
            k = rng.choice([1, 1, 1, 1, 2, 3, 5, 9, 11])
            ev += ["P"] * (k - 1) + ["P" + crash]
        elif r < 0.80:
            q = rng.random()
            if accepted and q < 0.35:
                seq = rng.choice(accepted)
            elif q < 0.7:
                seq = idx + rng.randrange(size)
            elif q < 0.85:
                seq = top + 1 + rng.randrange(2 * size + 2)
            else:
                seq = rng.randrange(idx + 2 * size + 2)
            auth = 0 if (malformed and rng.random() < 0.3) else 1
            e = rng.random()
            echo = str(100 + life) if e < 0.3 else (str(100 + life - 1) if e < 0.4 else "-")
            ev.append(f"R{seq}:{auth}:{echo}" + crash)
            if not crash and rng.random() < 0.45:
                # the server answers (a response, or the Echo challenge if that is what the request got); sometimes
                # twice (a notification), sometimes an older request, rarely with a crash inside
                for _ in range(rng.choice([1, 1, 2])):
                    target = seq if (not accepted or rng.random() < 0.8) else rng.choice(accepted)
                    ev.append(f"A{target}" + ("!%d" % rng.randrange(0, 6) if rng.random() < 0.05 else ""))
                    if "!" in ev[-1]:
                        crash = "!"
                        break
            if auth:
                accepted.append(seq)
                top = max(top, seq)
                if seq >= idx + size:
                    idx = seq - size + 1
        elif r < 0.88:
            ev.append("S" + crash)
            alive = False
            crash = ""
        elif r < 0.95:
            ev.append("K")
            alive = False
        elif malformed:
            ev.append(f"L{100 + life + 50}")
        else:
            ev.append("M")
        if crash:
            alive = False
        if rng.random() < 0.15:
            ev.append("M")
    ev.append("M")
    return {"events": ev, "tag": "malformed" if malformed else "random", "start": start, "limit": limit,
            "window": window}


# ------------------------------------------------------------------------------------------

def public(case):
    return {k: v for k, v in case.items() if k in ("events", "start", "limit", "window", "disk", "tag")}


def run(env, rep):
    runner = Runner(env)
    cases = [c for _, c in load_corpus("C13")]
    cases += boundary_cases(env)
    cases.append(long_case(env))
    nrand = env.scale(700, 8000)
    for i in range(nrand):
        cases.append(random_case(env.rng, malformed=(i % 4 == 3)))

    lines, impl, pub = [], [], []
    for case in cases:
        tokens, log = runner.run(case)
        lines.append(runner.line(case))
        impl.append(" ".join(tokens))
        pc = public(case)
        if len(pc["events"]) > 400:       # the long run: keep the evidence readable
            pc = dict(pc, events=pc["events"][:40] + ["…(%d events)" % len(pc["events"])])
        pub.append(pc)
        stores = sum(1 for o in log if o.get("effects"))
        reloads = sum(1 for k, o in enumerate(log) if o["ev"] == "L" and o["res"] == "l" and k > 0)
        rep.case(pc, nontrivial=(stores > 0 and reloads > 0), sample_every=400)
        tag = case.get("tag", "corpus").split(":")[0]
        rep.count("kind=" + tag)
        rep.count("cfg=%s/%s" % runner.cfg(case)[:2])
        for o in log:
            rep.count("ev=" + o["ev"])
            r = o["res"]
            rep.count("res=" + ("issued" if r.startswith("i") else "reused" if r.startswith("r") else r))
            if o["ev"] == "A" and o.get("answers") is not None:
                rep.count("respond=" + ("own-number" if r.startswith("i") else "reused-nonce" if r.startswith("r") else r))
            if o.get("effects"):
                rep.count("effects=" + ",".join(o["effects"]) + ("" if r != "d" else " (died)"))
        verdict, key = oracle(log)
        if verdict:
            rep.oracle_fail(public(case) if len(case["events"]) <= 400 else case, verdict, key=key)
    outs = compare(env, rep, pub, lines, impl, what="FilesystemSecurityContext")
    # branch coverage of the MODEL (so that a defect in the implementation cannot turn into a
    # harness error): every kind of result must have been produced
    for line in outs:
        for t in line.split():
            t = t.split("@")[0]
            for u in t.split("~")[1:]:
                rep.count("model-nonce=" + u[0])
            t = t.split("~")[0]
            rep.count("model=" + ("issued" if t[0] == "i" else "m" if t[0] == "m" else "reused" if t[0] == "r" else t))
    need = ["issued", "x", "As", "Ae", "E", "R", "P", "d", "k", "s", "z", "-", "a", "l", "m", "reused"]
    missing = [k for k in need if not rep.hist.get("model=" + k)]
    if missing:
        raise HarnessError("generator did not reach model outcomes: " + ",".join(missing))
    if rep.hist.get("kind=malformed", 0) * 2 > len(cases):
        raise HarnessError("malformed stream exceeds 50 % of the cases")


def replay(env, case):
    runner = Runner(env)
    _, log = runner.run(case)
    return oracle(log)[0]
