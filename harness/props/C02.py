"""C02 — a response reaches exactly the request it answers; every request completes once.

Correspondence: up to 5 concurrent requests to 3 servers with per-answer network decisions
(lost / delayed / duplicated; piggybacked, separate CON, separate NON), forged responses (guessed
and sniffed tokens, wrong source, retired tokens, multicast), ICMP errors, cancellation and
shutdown, on the real UDP stack vs the Lean message-layer model.
Oracle: every response event on a request's pipe coincides with a datagram carrying that request's
token from that request's endpoint while it is outstanding; unmatched CON responses get a Reset;
each response future completes exactly once with a result or an aiocoap.error.Error; tokens of
simultaneously outstanding requests to one endpoint differ.
"""
import msglayer
import msglayer_gen as G
import msglayer_props as P
from common import load_corpus
from props._msgl import replay_with

RULE = ("random scripts of 1-5 concurrent requests (CON/NON/observing) to 3 endpoints, answers lost, "
        "delayed, duplicated, forged responses, transport errors, cancellation, shutdown at a random point. "
        "Non-trivial: at least one response was delivered and one datagram was refused or a request failed.")
TRUSTED = ["virtual-clock event loop and fake-socket UDP stack of the harness (vloop.py, netsim.py)"]
ASSUMPTIONS = ["fewer than 2^64 requests per TokenManager lifetime (token distinctness)",
               "asyncio future semantics (set_result once) are exercised, not modelled"]


def scripts(env):
    cfg = msglayer.default_cfg()
    out = [c["script"] for _, c in load_corpus("C02") if "script" in c]
    out += G.c02_boundary() + G.c02_copied_messages()
    out += [G.c02_random(env.rng, cfg) for _ in range(env.scale(200, 6000))]
    out += [G.c02_sendfail(env.rng, cfg) for _ in range(env.scale(80, 2000))]
    return out


def run(env, rep):
    env.import_repo()
    P.check_scripts(env, rep, "C02", scripts(env), P.oracle_c02,
                    lambda res: bool(P.responses(res)) and (bool(P.fails(res)) or any(
                        s["mtype"] == "RST" for s in P.sends(res))))


def replay(env, case):
    return replay_with(env, case, P.oracle_c02)
