"""C02 — a response reaches exactly the request it answers; every request completes once.

Correspondence: up to 5 concurrent requests to 3 servers with per-answer network decisions
(lost / delayed / duplicated; piggybacked, separate CON, separate NON), forged responses (guessed
and sniffed tokens, wrong source, retired tokens, multicast), ICMP errors, cancellation and
shutdown, on the real UDP stack vs the Lean message-layer model.
Oracle: every response event on a request's pipe coincides with a datagram carrying that request's
token from that request's endpoint while it is outstanding; unmatched CON responses get a Reset;
each response future completes exactly once with a result or an aiocoap.error.Error; tokens of
simultaneously outstanding requests to one endpoint differ.
"""
import msglayer
import msglayer_gen as G
import msglayer_props as P
from common import load_corpus
from props._msgl import replay_with

RULE = ("random scripts of 1-5 concurrent requests (CON/NON/observing) to 3 endpoints, answers lost, "
        "delayed, duplicated, forged responses, transport errors, cancellation, shutdown at a random point. "
        "Non-trivial: at least one response was delivered and one datagram was refused or a request failed.")
TRUSTED = ["virtual-clock event loop and fake-socket UDP stack of the harness (vloop.py, netsim.py)"]
ASSUMPTIONS = ["fewer than 2^64 requests per TokenManager lifetime (token distinctness)",
               "asyncio future semantics (set_result once) are exercised, not modelled"]


def scripts(env):
    cfg = msglayer.default_cfg()
    out = [c["script"] for _, c in load_corpus("C02") if "script" in c]
    out += G.c02_boundary() + G.c02_copied_messages()
    out += [G.c02_random(env.rng, cfg) for _ in range(env.scale(200, 6000))]
    out += [G.c02_sendfail(env.rng, cfg) for _ in range(env.scale(80, 2000))]
    return out


# -- requests that never get as far as the wire (oracle only) ---------------------------------------------------------
# "every request completes exactly once ... or with an error derived from the library's error base class": also the
# request whose destination cannot be determined.  Only names that name resolution refuses before it asks anybody
# (the IDNA step: empty label, label over 63 characters) are used, so that no resolver is involved.

UNRESOLVABLE = ["a..b", "x" * 64 + ".example", ".lead", "a." + "b" * 64, "..", "a.b..c.example"]


def unresolvable_cases():
    return [{"level": "unresolvable", "host": h, "blockwise": bw, "code": c} for h in UNRESOLVABLE
            for bw in (False, True) for c in (1, 3)]


def run_unresolvable(case):
    import asyncio
    import time
    import aiocoap
    import netsim
    import vloop

    async def main(loop):
        ctx, net = await netsim.make_context(loop)
        msg = aiocoap.Message(code=aiocoap.Code(case["code"]), uri="coap://%s/x" % case["host"],
                              payload=b"p" if case["code"] == 3 else b"")
        req = ctx.request(msg, handle_blockwise=case["blockwise"])
        done_calls = []
        req.response.add_done_callback(lambda f: done_calls.append(1))
        for _ in range(8000):                  # (name resolution runs in a thread: real time, not the virtual clock)
            if req.response.done():
                break
            await asyncio.sleep(0)
            time.sleep(0.0005)
        for _ in range(5):
            await asyncio.sleep(0)
        fut = req.response
        res = {"sent": len(net.sent), "done_calls": len(done_calls)}
        if not fut.done():
            res["outcome"] = "pending"
        elif fut.cancelled():
            res["outcome"] = "cancelled"
        elif fut.exception() is not None:
            res["outcome"] = "exception:" + ",".join(c.__name__ for c in type(fut.exception()).__mro__)
        else:
            res["outcome"] = "response"
        await ctx.shutdown()
        return res

    res, loop = vloop.run(main)
    res["loop_errors"] = [repr(c.get("exception") or c.get("message")) for c in loop.exceptions]
    return res


def oracle_unresolvable(case, res):
    if res["outcome"] == "pending":
        return f"hangs: the request to coap://{case['host']}/x never completed"
    if not res["outcome"].startswith("exception:") or res["sent"]:
        return f"the request to the unresolvable name {case['host']!r}: {res['outcome']}, {res['sent']} datagrams sent"
    if "Error" not in res["outcome"].split(":")[1].split(","):
        return (f"foreign-exception: the request to coap://{case['host']}/x ended with {res['outcome']}, which does not "
                f"derive from aiocoap.error.Error")
    if res["done_calls"] != 1:
        return f"completed {res['done_calls']} times"
    if res["loop_errors"]:
        return f"loop-exception: {res['loop_errors'][0]}"
    return ""


def run(env, rep):
    env.import_repo()
    P.check_scripts(env, rep, "C02", scripts(env), P.oracle_c02,
                    lambda res: bool(P.responses(res)) and (bool(P.fails(res)) or any(
                        s["mtype"] == "RST" for s in P.sends(res))))
    for case in unresolvable_cases():
        rep.case(case)
        rep.count("unresolvable")
        verdict = oracle_unresolvable(case, run_unresolvable(case))
        if verdict:
            rep.oracle_fail(case, verdict, key="unresolvable:" + verdict.split(":")[0].split(" ")[0])


def replay(env, case):
    if case.get("level") == "unresolvable":
        env.import_repo()
        return oracle_unresolvable(case, run_unresolvable(case))
    return replay_with(env, case, P.oracle_c02)
