"""C03 — confirmable messages: bounded exponential back-off that always terminates.

Correspondence: event scripts (submit CON requests with several TransportTunings; scripted
peers that ACK / Reset / answer the k-th copy one tick before or after each retransmission
timer, or with a wrong message id / from a wrong address) run on the real UDP stack over the
fake socket and the virtual clock; the concrete input sequence (with the recorded time-out
draws) is replayed on the Lean message-layer model and the traces are compared.
Oracle: RFC 7252 §4.2 read off the wire (copy count, byte identity, first gap in
[ACK_TIMEOUT, ACK_TIMEOUT*ACK_RANDOM_FACTOR], doubling, silence after ACK/RST, Reset fails the
request, give-up time and exception class).
"""
import msglayer_gen as G
import msglayer_props as P
from common import load_corpus

RULE = ("boundary table: for 5 tunings x 3 time-out draws: silence, ACK/RST one tick before/after "
        "every retransmission timer, wrong-mid/wrong-source ACK and RST after every copy; then random "
        "scripts with 1-3 parallel exchanges. Non-trivial: at least one retransmission or give-up on the "
        "wire; distinct by concrete event sequence and trace.")
TRUSTED = ["virtual-clock event loop and fake-socket UDP stack of the harness (vloop.py, netsim.py)"]
ASSUMPTIONS = ["asyncio fires timers at their deadline in deadline order (virtual clock); real-time timer accuracy is outside the model"]


def scripts(env):
    out = [c["script"] for _, c in load_corpus("C03") if "script" in c]
    out += G.c03_boundary()
    out += [G.c03_random(env.rng) for _ in range(env.scale(60, 3000))]
    return out


def nontrivial(res):
    cons = {}
    for s in P.sends(res):
        if s["mtype"] == "CON":
            cons[(s["remote"], s["mid"])] = cons.get((s["remote"], s["mid"]), 0) + 1
    return any(v > 1 for v in cons.values()) or bool(P.fails(res))


def run(env, rep):
    env.import_repo()
    P.check_scripts(env, rep, "C03", scripts(env), P.oracle_c03, nontrivial)


def replay(env, case):
    env.import_repo()
    import msglayer
    res = msglayer.run_script(case["script"])
    res["wire"] = [(t, d, b.hex()) for (t, d, b) in res["wire"]]
    res["script"] = case["script"]
    bad = res["errors"] + res["loop_exceptions"]
    return (bad[0] if bad else "") or P.oracle_c03(res)
