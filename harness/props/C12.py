"""C12 — OSCORE replay protection.

Correspondence (model ≈ code):
  W  real `ReplayWindow` vs Lean `RW` on generated is_valid/strike_out sequences
     (state-aware generator: numbers around the current window, jumps beyond it);
  M  like U, with protected responses of the peer (answers to a request of the context under test, with and
     without their own partial IV, authentic and forged) interleaved: Lean `runMsgs`;
  U  real `CanUnprotect.unprotect` (harness context, transparent AEAD, shims for
     cbor2/cryptography/filelock) vs Lean `unprotect` on arrival sequences of
     authentic / forged / echoing requests, initialised and uninitialised windows.
Every arrival of U and M carries the OUTER code it is delivered under (not integrity protected: whoever re-sends a
recorded message picks it): request-style FETCH/POST, the other request codes, 0.00, class 1, the response classes
2-5, reserved class 6, signalling class 7 - for every window state incl. uninitialised.  Lean: `runWire`.
Oracle (searches for a failing input once something differs, and always runs):
  at most one success per sequence number; forged arrivals leave persist() unchanged;
  uninitialised window accepts only with the issued echo; anything above all
  accepted numbers is accepted; numbers a window below an accepted one are refused.
"""
from common import compare, load_corpus

RULE = ("restart: the real FilesystemSecurityContext over process lifetimes (kill / clean stop / reload, "
        "replays before and after; the `window` setting reduced or enlarged between an orderly stop and the next "
        "load), judged by the oracle (model side: C13's persistence model); "
        "W: op sequences (is_valid/strike_out) drawn relative to the live window edge "
        "(inside, below, just above, far above) for sizes 1..64, from start states loaded through "
        "initialize_from_persisted - also states persisted by a LARGER window (bitfield wider than the size: table "
        "of all pairs of sizes, random widths); U: arrival sequences "
        "(seq, authentic?, echo?) through the real unprotect (and the real option decoder), start states as for W, "
        "numbers around every partial-IV length boundary 2^8, 2^16, 2^24, 2^32 and the last number 2^40-1 "
        "(table: approach from below, cross, replay, jump from 0); M: the same context in both roles - protected "
        "responses (authentic / forged, with a partial IV of their own that is late / current / future, or none) "
        "between the requests, boundary table enumerated in full. U and M: every arrival is delivered under an OUTER "
        "code (unauthenticated) - table: every code class boundary (0, 1, 2, 5, 31, 32, 63, 64, 191, 192, 223, 224, "
        "255 and named codes) x window state (uninitialised with / without Echo recovery, empty, part-filled) x "
        "authentic / forged x echoing or not, followed by unmodified replays, the genuine Echo exchange and fresh "
        "numbers; a recorded request re-sent under a response code, a recorded response re-sent under a request "
        "code; random codes on 15 % of the arrivals. Window sizes 0 and below: refused when configured, or a working "
        "window. A case is non-trivial when at "
        "least one number is accepted and one refused; distinct by full op sequence.")
TRUSTED = ["harness shims for cbor2/cryptography/filelock and the transparent AEAD (harness/oscore_util.py)"]
ASSUMPTIONS = ["AEAD decryption of a forged message fails (modelled as the `authentic` flag)",
               "the peer is honest about its own numbers: one sender sequence number, one request",
               "a message the peer made as a request does not verify as the response to a request of this process "
               "and vice versa (the AAD differs; the transparent AEAD of the harness checks the AAD)"]

SIZES = [1, 2, 3, 8, 31, 32, 33, 64]

# outer codes: what RFC 7252 / 8323 / 8613 say about the code byte, not what aiocoap does with it
POST, FETCH = 2, 5
CODE_TABLE = [0,                                   # 0.00 Empty
              1, 2, 3, 4, 5, 6, 7, 31,             # request class 0.01-0.31 (POST, FETCH: what an OSCORE sender uses)
              32, 33, 63,                          # class 1 (reserved)
              64, 65, 68, 69, 95, 96, 128, 129, 132, 159, 160, 191,     # response classes 2-5
              192, 200, 223,                       # class 6 (reserved)
              224, 225, 226, 227, 229, 255]        # class 7 (signalling)


def code_class(code):
    """how a receiver has to take a message under this outer code: 'style' - a request as OSCORE senders make
    them (RFC 8613 4.2: POST or FETCH); 'response' - class 2-5; 'request-other' - another request code; 'other' -
    neither request nor response (empty, reserved, signalling)"""
    if code is None or code in (POST, FETCH):
        return "style"
    if 64 <= code < 192:
        return "response"
    if 1 <= code < 32:
        return "request-other"
    return "other"


def code_name(code):
    return "%d.%02d" % (code >> 5, code & 31)


def arr(a):
    """(seq, authentic, echo[, code]) -> 4-tuple, code None = as the peer sent it"""
    a = tuple(a)
    return a if len(a) == 4 else a + (None,)


def gen_number(rng, index, size, top):
    k = rng.randrange(10)
    if k < 4:
        return index + rng.randrange(size)              # inside the window
    if k < 5:
        return max(0, index - 1 - rng.randrange(3))     # just below
    if k < 7:
        return index + size + rng.randrange(3)          # just above the edge
    if k < 8:
        return index + size - 1                         # the edge itself
    if k < 9:
        return top + 1 + rng.randrange(2 * size + 2)    # jump
    return rng.randrange(index + 2 * size + 2)


PIV_EDGES = [1 << 8, 1 << 16, 1 << 24, 1 << 32, (1 << 40) - 1]
MAXSEQ = (1 << 40) - 1


def recorded(index, bitfield):
    """numbers >= index that a persisted state {index, bitfield} records as seen - read off the bits, whatever the
    size of the window that is going to load it (everything below index counts as seen as well)"""
    return {index + k for k in range(bitfield.bit_length()) if (bitfield >> k) & 1}


def oracle_window(size, index, bitfield, ops, toks):
    """a struck number is invalid; nothing valid after being invalid; nothing the start state records as seen is
    valid or can be struck"""
    pre = recorded(index, bitfield)
    struck = set()
    for op, t in zip(ops, toks):
        n = int(op[1:])
        old = n < index or n in pre
        if op[0] == "s" and t == "ok":
            if n in struck:
                return f"ReplayWindow.strike_out({n}) succeeded twice", "window-double-strike"
            if old:
                return (f"strike_out({n}) succeeded although the persisted start state (index {index}, bitfield "
                        f"{bitfield:#x}, loaded into a window of {size}) records {n} as seen"), "window-start-state-lost"
            struck.add(n)
        if op[0] == "v" and t == "1":
            if n in struck:
                return f"is_valid({n}) is true after strike_out({n})", "window-valid-after-strike"
            if old:
                return (f"is_valid({n}) is true although the persisted start state (index {index}, bitfield "
                        f"{bitfield:#x}, loaded into a window of {size}) records {n} as seen"), "window-start-state-lost"
    return "", None


def run_window(oscore, size, index, bitfield, ops):
    try:
        w = oscore.ReplayWindow(size, lambda: None)
        w.initialize_from_persisted({"index": index, "bitfield": bitfield})
    except ValueError:
        if size < 1:
            return "size-refused"                    # a window without slots cannot be configured / loaded
        raise
    out = []
    for op in ops:
        n = int(op[1:])
        if op[0] == "v":
            out.append("1" if w.is_valid(n) else "0")
        else:
            try:
                w.strike_out(n)
                out.append("ok")
            except ValueError:
                out.append("err")
    p = w.persist()
    return " ".join(out) + f" |{p['index']}:{p['bitfield']}"


def window_cases(env, rep):
    rng = env.rng
    n = env.scale(1500, 40000)
    cases = []
    # boundary table: every size, every position relative to the window, with and without overshoot
    for size in SIZES:
        for start in (0, 5, 1 << 20):
            for delta in (-1, 0, 1, size - 1, size, size + 1, 2 * size, 3 * size + 1):
                if start + delta < 0:
                    continue
                ops = [f"s{start + delta}", f"v{start + delta}", f"s{start + delta}",
                       f"v{start}", f"s{start}", f"v{start + delta - size if start + delta >= size else 0}"]
                cases.append((size, start, 0, ops))
                cases.append((size, start, 1, ops))
    # start states persisted by a window of another size: every pair (size that wrote it, size that loads it); the
    # writer had accepted every second number of its window plus its two topmost ones
    for wrote in SIZES:
        for size in SIZES:
            for start in (0, 1000):
                bitfield = (sum(1 << k for k in range(0, wrote, 2)) | (1 << (wrote - 1)) | (1 << max(0, wrote - 2)))
                top = start + wrote - 1
                probe = sorted({start, start + 1, top, top - 1, top - size, top - size + 1, top - size + 2,
                                top + 1, start + size - 1, start + size, start + size + 1} - set(range(start)))
                ops = [f"v{x}" for x in probe if x >= 0] + [f"s{x}" for x in probe if x >= 0] + \
                      [f"v{x}" for x in probe if x >= 0]
                cases.append((size, start, bitfield, ops))
    # a window without slots: either it cannot be configured, or every rule of the window holds for it
    for size in (0, -1, -32):
        for start in (0, 5):
            cases.append((size, start, 0, [f"v{start}", f"s{start}", f"v{start}", f"s{start}", f"s{start + 1}",
                                           f"v{start + 1}", f"s{start + 3}", f"s{start + 2}"]))
    for _ in range(n):
        size = rng.choice(SIZES)
        index = rng.choice([0, 0, 3, 1000, (1 << 32) - 5, (1 << 40) - 70])
        r = rng.random()
        if r < 0.4:
            bitfield = rng.getrandbits(size)
        elif r < 0.6:
            bitfield = rng.getrandbits(size + rng.choice([1, 2, 7, 24, 56]))      # written by a larger window
        else:
            bitfield = 0
        ops = []
        # track state with a small reference to steer the generator (not an oracle)
        idx, top = index, index + max(size, bitfield.bit_length())
        for _ in range(rng.randrange(4, 40)):
            num = gen_number(rng, idx, size, top)
            if bitfield >> size and rng.random() < 0.4:
                num = index + rng.randrange(bitfield.bit_length() + 2)       # where the wide state has its bits
            if rng.random() < 0.5:
                ops.append(f"v{num}")
            else:
                ops.append(f"s{num}")
                if num >= idx + size:
                    idx = num - size + 1
                top = max(top, num)
        cases.append((size, index, bitfield, ops))
    return cases


def make_ctx_pair(oscore, HarnessContext, size):
    client = HarnessContext.Peer(b"\x01", b"\x02")
    server = HarnessContext(b"\x02", b"\x01", window=size)
    return client, server


def protected_request(aiocoap, client, seq, echo, forge, code=None):
    """A protected GET with sender sequence number `seq`, serialised and re-parsed; `code`: the outer code it is
    delivered under (rewritten after the peer protected it; None: left as the peer set it)"""
    from aiocoap import Message, GET
    msg = Message(code=GET, uri="coap://example.org/x")
    if echo is not None:
        msg.opt.echo = echo
    client.sender_sequence_number = seq
    prot, _ = client.protect(msg)
    if forge:
        # valid-looking sequence number, broken tag
        prot.payload = prot.payload[:-1] + bytes([prot.payload[-1] ^ 0x01])
    prot.mid = 1
    prot.mtype = aiocoap.CON
    wire = prot.encode()
    inc = Message.decode(wire)
    if code is not None:
        inc.code = aiocoap.numbers.codes.Code(code)
    return inc


def classify_exception(oscore, e):
    if isinstance(e, oscore.ReplayErrorWithEcho):
        return "E"
    if isinstance(e, oscore.ReplayError):
        return "R"
    if isinstance(e, oscore.ProtectionInvalid):
        return "P"
    if type(e) is ValueError:
        return "V"                                   # CodeStyle.from_request: outer code neither FETCH nor POST
    return "X<" + type(e).__name__ + ">"             # e.g. the AssertionError of strike_out


def run_unprotect(aiocoap, oscore, HarnessContext, size, win, echo_recovery, arrivals):
    client, server = make_ctx_pair(oscore, HarnessContext, 32 if size < 1 else size)
    try:
        w = oscore.ReplayWindow(size, lambda: None)
        if win is not None:
            w.initialize_from_persisted({"index": win[0], "bitfield": win[1]})
    except ValueError:
        if size < 1:
            return "size-refused", []                # a window without slots cannot be configured: nothing to judge
        raise
    server.recipient_replay_window = w
    server.echo_recovery = None if echo_recovery is None else echo_recovery.to_bytes(8, "big")
    out = []
    log = []
    peer = None
    for (seq, auth, echo, code) in map(arr, arrivals):
        before = w.persist() if w.is_initialized() else None
        inc = protected_request(aiocoap, client, seq,
                                None if echo is None else echo.to_bytes(8, "big"), not auth, code)
        try:
            if code_class(code) == "response":
                # a caller hands a message under a response code to unprotect together with the identifiers of
                # the request it claims to answer: a request of this context that the peer has seen
                if peer is None:
                    peer = Peer(aiocoap, oscore, client, server)
                server.unprotect(inc, peer.request_id_local)
            else:
                server.unprotect(inc)
            o = "A"
        except Exception as e:
            o = classify_exception(oscore, e)
        after = w.persist() if w.is_initialized() else None
        log.append((seq, auth, echo, code, o, before, after))
        out.append(o)
    p = w.persist() if w.is_initialized() else None
    fin = "u" if p is None else f"i:{p['index']}:{p['bitfield']}"
    return "".join(out) + " |" + fin, log


class Peer:
    """the other side of the security context under test, for mixed traffic: it sends protected requests with
    chosen sequence numbers and answers requests of the context under test with protected responses that carry
    (or do not carry) a sequence number of their own"""

    def __init__(self, aiocoap, oscore, client, server):
        self.aiocoap, self.oscore, self.client, self.server = aiocoap, oscore, client, server
        # a request of the context under test for the peer to answer (the peer's own replay window is irrelevant
        # here; it gets a fresh, wide one so that the request is accepted)
        from aiocoap import Message, GET
        self.client.recipient_replay_window = oscore.ReplayWindow(64, lambda: None)
        self.client.recipient_replay_window.initialize_empty()
        req = Message(code=GET, uri="coap://example.org/y", observe=0)
        prot, self.request_id_local = server.protect(req)
        prot.mid, prot.mtype = 2, aiocoap.CON
        inc = Message.decode(prot.encode())
        _, self.request_id_peer = self.client.unprotect(inc)

    def response(self, seq, forge, code=None):
        from aiocoap import Message, CONTENT
        msg = Message(code=CONTENT, payload=b"r")
        rid = self.request_id_peer
        if seq is None:
            rid.can_reuse_nonce = True
        else:
            rid.can_reuse_nonce = False           # forces a partial IV of the peer's own
            self.client.sender_sequence_number = seq
        prot, _ = self.client.protect(msg, rid)
        if forge:
            prot.payload = prot.payload[:-1] + bytes([prot.payload[-1] ^ 0x01])
        prot.mid, prot.mtype, prot.token = 3, self.aiocoap.NON, b""
        inc = Message.decode(prot.encode())
        if code is not None:
            inc.code = self.aiocoap.numbers.codes.Code(code)
        return inc


def msg(m):
    """("q", seq, authentic, echo[, code]) / ("p", seq|None, authentic[, code]) -> with the code slot filled"""
    m = tuple(m)
    if m[0] == "q":
        return m if len(m) == 5 else m + (None,)
    return m if len(m) == 4 else m + (None,)


def run_mixed(aiocoap, oscore, HarnessContext, size, win, echo_recovery, msgs):
    """msgs: ("q", seq, authentic, echo[, code]) messages the peer made as requests and ("p", seq|None,
    authentic[, code]) messages it made as responses to a request of this context, each delivered under the outer
    `code` (None: as the peer set it), through the real unprotect of ONE context used in both roles.  Under a
    response code the caller passes the identifiers of the request of this context, otherwise none."""
    client, server = make_ctx_pair(oscore, HarnessContext, size)
    peer = Peer(aiocoap, oscore, client, server)
    w = oscore.ReplayWindow(size, lambda: None)
    if win is not None:
        w.initialize_from_persisted({"index": win[0], "bitfield": win[1]})
    server.recipient_replay_window = w
    server.echo_recovery = None if echo_recovery is None else echo_recovery.to_bytes(8, "big")
    out, log = [], []
    for m in map(msg, msgs):
        before = w.persist() if w.is_initialized() else None
        try:
            if m[0] == "q":
                _, seq, auth, echo, code = m
                inc = protected_request(aiocoap, client, seq, None if echo is None else echo.to_bytes(8, "big"),
                                        not auth, code)
                as_response = code_class(code) == "response"
            else:
                _, seq, auth, code = m
                inc = peer.response(seq, not auth, code)
                as_response = code is None or code_class(code) == "response"
            if as_response:
                server.unprotect(inc, peer.request_id_local)
            else:
                server.unprotect(inc)
            o = "A"
        except Exception as e:
            o = classify_exception(oscore, e)
        after = w.persist() if w.is_initialized() else None
        log.append((m, o, before, after))
        out.append(o)
    p = w.persist() if w.is_initialized() else None
    fin = "u" if p is None else f"i:{p['index']}:{p['bitfield']}"
    return "".join(out) + " |" + fin, log


def oracle_mixed(size, win, echo_recovery, log):
    """the property read over mixed traffic under arbitrary outer codes: responses never make a request acceptable
    twice, never touch an initialised window; forged messages change nothing; what the peer made as a request is
    accepted only as a request (and once), what it made as a response only as a response; a lost window is
    initialised only by a message that proves freshness"""
    accepted = []
    initialised = win is not None                 # the oracle's own account of "a fresh exchange has happened"
    for (m, o, before, after) in log:
        if o.startswith("X"):
            return f"unprotect of {m[0]} message {m[1]} raised {o[2:-1]} instead of a protection error"
        if m[0] == "q":
            _, seq, auth, echo, code = m
            cls = code_class(code)
            under = "" if code is None else f" under outer code {code_name(code)}"
            if o == "A":
                if cls == "response":
                    return f"request {seq} of the peer was accepted as a response{under}"
                if seq in accepted:
                    return f"sequence number {seq} accepted twice"
                if not auth:
                    return f"forged request {seq} accepted"
                if not initialised and (echo_recovery is None or echo != echo_recovery):
                    return f"request {seq} accepted on an uninitialised window without the issued echo"
                if any(seq + size <= a for a in accepted):
                    return f"number {seq} accepted although it fell out of the window"
                accepted.append(seq)
                initialised = True
            else:
                if o == "V" and cls in ("style", "response"):
                    return f"unprotect of request {seq}{under} raised ValueError"
                if before is None and after is not None:
                    return (f"request {seq}{under} was refused ({o}) but initialised the lost replay window "
                            f"to {after} without a fresh Echo exchange")
                if before != after:
                    return (f"{'forged' if not auth else 'refused'} request {seq}{under} changed the replay window "
                            f"{before} -> {after}")
        else:
            _, seq, auth, code = m
            cls = "response" if code is None else code_class(code)
            under = "" if code is None else f" under outer code {code_name(code)}"
            if cls != "response":
                # a recorded response delivered as a request: never acceptable, never changes anything
                if o == "A":
                    return f"a response (sequence number {seq}) of the peer was accepted as a request{under}"
                if before != after:
                    return (f"a response (sequence number {seq}) delivered{under} changed the replay window "
                            f"{before} -> {after}")
                continue
            if o == "V":
                return f"unprotect of a response{under} raised ValueError"
            if not auth and (o != "P" or before != after):
                return f"forged response (sequence number {seq}) gave {o}, window {before} -> {after}"
            if auth and o != "A":
                return f"authentic response (sequence number {seq}) was refused ({o})"
            if before is not None and before != after:
                return f"a response (sequence number {seq}) changed the initialised replay window {before} -> {after}"
            if before is None and after is not None:
                if echo_recovery is None or seq is None:
                    return f"a response (sequence number {seq}) initialised the window of a context without its own number / Echo recovery"
                initialised = True
    return ""


def mixed_cases(env):
    rng = env.rng
    cases = []
    # boundary table: requests n..n+k accepted, then a (late, current, future; authentic, forged; numbered or not)
    # response, then replays of everything and one new request -- for initialised and uninitialised starts
    for size in (1, 8, 32):
        for start in ((0, 0), None):
            for rseq in (None, 0, 3, 5, 6, 7, 8, 7 + size, 1000):
                for auth in (True, False):
                    first = [("q", 5, True, 7 if start is None else None), ("q", 6, True, None), ("q", 7, True, None)]
                    msgs = first + [("p", rseq, auth)] + [("q", n, True, None) for n in (5, 6, 7, 8)]
                    cases.append((size, start, 7, msgs))
                    cases.append((size, start, 7, [("p", rseq, auth)] + msgs))
    # outer codes: a recorded RESPONSE (numbered or not, authentic or forged) re-sent under every non-response code,
    # a recorded REQUEST re-sent under every response code, for every window state; then replays and a fresh number
    for size in (1, 32):
        for (start, er) in (((0, 0), None), ((0, 0), 7), (None, 7), (None, None), ((3, 0b101), 7)):
            for code in CODE_TABLE:
                for auth in (True, False):
                    first = []
                    if code_class(code) == "response":
                        odd = [("q", 6, auth, None, code), ("q", 6, auth, 7, code)]
                    else:
                        odd = [("p", 6, auth, code), ("p", None, auth, code), ("p", 2, auth, code)]
                    tail = [("q", 6, True, None), ("q", 6, True, 7), ("q", 6, True, None), ("p", 9, True),
                            ("q", 7, True, None)]
                    cases.append((size, start, er, first + odd + tail))
    for _ in range(env.scale(250, 6000)):
        size = rng.choice([1, 2, 8, 32, 32, 64])
        r = rng.random()
        win = (0, 0) if r < 0.45 else (None if r < 0.75 else (rng.randrange(100), rng.getrandbits(size)))
        echo_recovery = rng.choice([None, 7, 7, 7])
        msgs = []
        idx = win[0] if win else 0
        top = idx
        reqs = []
        for _ in range(rng.randrange(3, 16)):
            if rng.random() < 0.3:
                k = rng.random()
                seq = None if k < 0.25 else (rng.choice(reqs)[1] if reqs and k < 0.6 else gen_number(rng, idx, size, top))
                if rng.random() < 0.15:
                    msgs.append(("p", seq, rng.random() < 0.8, gen_code(rng)))
                else:
                    msgs.append(("p", seq, rng.random() < 0.8))
                continue
            if reqs and rng.random() < 0.3:
                seq = rng.choice(reqs)[1]
            else:
                seq = gen_number(rng, idx, size, top)
            auth = rng.random() < 0.8
            e = rng.random()
            echo = 7 if e < 0.25 else (8 if e < 0.32 else None)
            m = ("q", seq, auth, echo)
            if rng.random() < 0.15:
                m = m + (gen_code(rng),)
            msgs.append(m)
            reqs.append(m)
            if auth and code_class(msg(m)[4]) == "style":
                if seq >= idx + size:
                    idx = seq - size + 1
                top = max(top, seq)
        cases.append((size, win, echo_recovery, msgs))
    return cases


def m_line(size, win, echo_recovery, msgs):
    w = "u" if win is None else f"i:{win[0]}:{win[1]}"
    e = "-" if echo_recovery is None else str(echo_recovery)
    parts = []
    for m in map(msg, msgs):
        code = "" if m[-1] is None else f":{m[-1]}"
        if m[0] == "q":
            parts.append(f"q:{m[1]}:{1 if m[2] else 0}:{'-' if m[3] is None else m[3]}{code}")
        else:
            parts.append(f"p:{'-' if m[1] is None else m[1]}:{1 if m[2] else 0}{code}")
    return f"C12 M {size} {w} {e} " + " ".join(parts)


def gen_code(rng):
    r = rng.random()
    if r < 0.6:
        return rng.choice(CODE_TABLE)
    return rng.randrange(256)


def oracle_unprotect(size, win, echo_recovery, log):
    """Direct reading of the property over what the implementation did.  An initialised start state (index,
    bitfield) records numbers as seen - below index, or bit set, at whatever position: the state may have been
    persisted by a larger window - and those count as accepted before.  Every arrival is a message the peer made
    as a request, delivered under an outer code that whoever delivers it chose: the code decides nothing about
    freshness or authenticity."""
    accepted = []
    initialised = win is not None                 # the oracle's own account of "a fresh exchange has happened"
    pre_index = win[0] if win else 0
    pre = recorded(*win) if win else set()
    pre_top = max(pre) if pre else None
    for (seq, auth, echo, code, o, before, after) in log:
        cls = code_class(code)
        under = "" if code is None else f" under outer code {code_name(code)}"
        if o == "A":
            if cls == "response":
                return f"request {seq} of the peer was accepted as a response{under}"
            if seq in accepted:
                return f"sequence number {seq} accepted twice"
            if win is not None and (seq < pre_index or seq in pre):
                return (f"sequence number {seq} accepted although the start state (index {pre_index}, bitfield "
                        f"{win[1]:#x}, window size {size}) records it as seen: accepted twice")
            if not auth:
                return f"forged message with sequence number {seq} accepted"
            if not initialised and (echo_recovery is None or echo != echo_recovery):
                return f"request {seq} accepted on an uninitialised window without the issued echo"
            if any(seq + size <= a for a in accepted) or (pre_top is not None and seq + size <= pre_top):
                return f"number {seq} accepted although it fell out of the window"
            accepted.append(seq)
            initialised = True
        else:
            if before is None and after is not None:
                return (f"request {seq}{under} was refused ({o}) but initialised the lost replay window to {after} "
                        f"without a fresh Echo exchange")
            if not auth and before != after:
                return f"forged message {seq} changed the replay window {before} -> {after}"
            if o.startswith("X"):
                return f"unprotect of request {seq} raised {o[2:-1]} instead of a protection error"
            if o == "V" and cls in ("style", "response"):
                return f"unprotect of request {seq}{under} raised ValueError"
            if cls == "style" and auth and initialised and all(a < seq for a in accepted) and seq >= pre_index and \
                    (pre_top is None or seq > pre_top):
                return f"authentic number {seq} above everything seen was refused ({o})"
            if auth and o == "P" and cls == "style":
                # (under an outer code that is neither FETCH nor POST the message is refused as unverifiable
                # before it is decrypted: ProtectionInvalid since fix 51b9257, ValueError before)
                return f"authentic message {seq} failed decryption"
            if before != after:
                return f"refused message {seq}{under} changed the replay window {before} -> {after}"
    return ""


def unprotect_boundary_cases():
    """partial-IV length boundaries through the real option decoder, and start states persisted by a larger window"""
    cases = []
    for size in (1, 8, 32):
        for edge in PIV_EDGES:
            lo = edge - 3
            near = [x for x in (edge - 2, edge - 1, edge, edge + 1, edge - 1, edge, edge + size, edge + size + 1,
                                edge - 2) if x <= MAXSEQ]
            # approaching the boundary from a window just below it
            cases.append((size, (lo, 1), None, [(x, True, None) for x in near]))
            # a jump from a fresh window right to / across the boundary, with a forged copy first
            cases.append((size, (0, 0), 7, [(edge, False, None), (edge, True, None), (edge, True, None),
                                            (min(edge + 1, MAXSEQ), True, None), (edge - 1, True, None),
                                            (3, True, None)]))
            # recovery of an uninitialised window at the boundary
            cases.append((size, None, 7, [(edge, True, None), (edge, True, 7), (edge, True, 7),
                                          (edge - 1, True, None), (min(edge + 2, MAXSEQ), True, None)]))
    # start states written by a window of 32 or 64 (numbers 0..20 accepted; every second of 64; holes) loaded
    # into a smaller (and a larger) one: replays of everything recorded, then fresh numbers
    for size in (1, 2, 8, 31, 32, 33, 64):
        for (index, bitfield) in ((0, (1 << 21) - 1), (5, (1 << 21) - 1), (0, sum(1 << k for k in range(0, 64, 2))),
                                  (100, (1 << 31) | (1 << 12) | 1), ((1 << 32) - 10, (1 << 20) | (1 << 9) | 0b101)):
            top = index + bitfield.bit_length() - 1
            probe = sorted(recorded(index, bitfield))
            probe = probe[:3] + probe[len(probe) // 2: len(probe) // 2 + 2] + probe[-4:]
            arr = [(x, True, None) for x in probe] + [(top + 1, True, None), (top + 1, True, None),
                                                     (top - 1, True, None), (top + size + 3, True, None)]
            cases.append((size, (index, bitfield), None, arr))
            cases.append((size, (index, bitfield), 7, [(probe[-1], False, None)] + arr))
    cases += outer_code_cases()
    # a window without slots (size 0 and below): either it cannot be configured, or it works as a window
    for size in (0, -1, -32):
        for (win, er) in (((0, 0), None), ((0, 0), 7), (None, 7)):
            cases.append((size, win, er, [(0, True, 7), (0, True, None), (1, True, None), (1, True, None),
                                          (5, False, None), (5, True, None), (2, True, None)]))
    return cases


def outer_code_cases():
    """the outer code as a dimension of arrivals: every code of CODE_TABLE x window state (lost with / without Echo
    recovery, empty, part-filled) x authentic / forged x echoing or not.  The message under the odd code comes first
    (recorded request n), then unmodified recorded requests above and at n, the genuine Echo exchange, the odd one
    again, and fresh numbers."""
    cases = []
    n = 5
    for size in (1, 32):
        for (win, er) in ((None, 7), (None, None), ((0, 0), None), ((0, 0), 7), ((3, 0b101), 7)):
            for code in CODE_TABLE:
                for auth in (True, False):
                    for echo in (None, 7):
                        cases.append((size, win, er,
                                      [(n, auth, echo, code), (n + 1, True, None), (n, True, None),
                                       (n + 1, True, None), (n + 2, True, 7), (n + 2, True, 7), (n, True, echo, code),
                                       (n + 1, True, None, code), (n + 3, True, None), (n, True, None)]))
    # the state-loss scenario itself: requests 0..4 were accepted before the window was lost; 2 comes back under
    # every code, then 3 and 4 as recorded, then the genuine request 5 with its Echo round trip, then all again
    for code in CODE_TABLE:
        cases.append((32, None, 7, [(2, True, None, code), (3, True, None), (4, True, None), (5, True, None),
                                    (5, True, 7), (0, True, None), (1, True, None), (2, True, None),
                                    (3, True, None), (4, True, None), (5, True, 7), (6, True, None)]))
    return cases


def unprotect_cases(env):
    rng = env.rng
    n = env.scale(250, 6000)
    cases = unprotect_boundary_cases()
    for _ in range(n):
        size = rng.choice([1, 2, 8, 32, 32, 64])
        r = rng.random()
        if r < 0.45:
            win = (0, 0)
        elif r < 0.7:
            win = None
        elif r < 0.8:
            win = (rng.randrange(100), rng.getrandbits(size))
        elif r < 0.9:
            # persisted by a larger window
            win = (rng.choice([0, 7, 1000]), rng.getrandbits(size + rng.choice([1, 3, 8, 30])))
        else:
            e = rng.choice(PIV_EDGES)
            win = (max(0, e - rng.randrange(1, 2 * size + 3)), rng.getrandbits(size))
        echo_recovery = rng.choice([None, 7, 7, 7]) if win is not None else rng.choice([None, 7, 7, 7, 7])
        arrivals = []
        idx = win[0] if win else 0
        top = idx + (win[1].bit_length() if win else 0)
        wide = sorted(recorded(*win)) if win and win[1] >> size else []
        for _ in range(rng.randrange(2, 14)):
            if arrivals and rng.random() < 0.3:
                seq = rng.choice(arrivals)[0]          # replay
            elif wide and rng.random() < 0.4:
                seq = rng.choice(wide)                 # replay of a number the wide start state records
            elif rng.random() < 0.04:
                seq = rng.choice(PIV_EDGES) - rng.randrange(0, 2)     # a jump to a partial-IV length boundary
            else:
                seq = gen_number(rng, idx, size, top)
            seq = min(seq, MAXSEQ)
            auth = rng.random() < 0.75
            e = rng.random()
            echo = 7 if e < 0.25 else (8 if e < 0.35 else None)
            code = gen_code(rng) if rng.random() < 0.15 else None
            arrivals.append((seq, auth, echo) if code is None else (seq, auth, echo, code))
            if auth and code_class(code) == "style":
                if seq >= idx + size:
                    idx = seq - size + 1
                top = max(top, seq)
        cases.append((size, win, echo_recovery, arrivals))
    return cases


def u_line(size, win, echo_recovery, arrivals):
    w = "u" if win is None else f"i:{win[0]}:{win[1]}"
    e = "-" if echo_recovery is None else str(echo_recovery)
    ar = " ".join(f"{s}:{1 if a else 0}:{'-' if ec is None else ec}" + ("" if c is None else f":{c}")
                  for s, a, ec, c in map(arr, arrivals))
    return f"C12 U {size} {w} {e} {ar}"


def run(env, rep):
    aiocoap = env.import_repo(shims=True)
    import aiocoap.oscore as oscore
    import oscore_util
    _, HarnessContext = oscore_util.make(oscore)

    # --- W: the window itself
    cases = [tuple(c["w"]) for _, c in load_corpus("C12") if "w" in c] + window_cases(env, rep)
    lines, impl, compared = [], [], []
    for (size, index, bitfield, ops) in cases:
        try:
            r = run_window(oscore, size, index, bitfield, ops)
        except Exception as e:                       # AssertionError etc. are observations
            r = f"exception:{type(e).__name__}"
        case = {"kind": "W", "size": size, "index": index, "bitfield": bitfield, "ops": ops}
        toks = r.split(" |")[0].split()
        nontriv = ("ok" in toks) and ("err" in toks or "0" in toks)
        rep.case(case, nontrivial=nontriv, sample_every=5000)
        rep.count("W:size=%d" % size)
        for t in toks:
            rep.count("W:result=" + t)
        if r == "size-refused":
            v, key = "", None
        elif not r.startswith("exception:"):
            v, key = oracle_window(size, index, bitfield, ops, toks)
        else:
            v, key = (f"ReplayWindow raised {r[10:]} (start state index {index}, bitfield {bitfield:#x}, size {size})",
                      "window-raises:" + r[10:])
        if v:
            rep.oracle_fail(case, v, key=key)
        if size >= 1 and bitfield >> size:
            rep.count("W:start=persisted-by-larger-window")
        if size >= 1:                                # the model starts at one slot; below: judged by the oracle only
            compared.append((size, index, bitfield, ops))
            lines.append(f"C12 W {size} {index} {bitfield} " + " ".join(ops))
            impl.append(r)
    compare(env, rep, compared, lines, impl, what="ReplayWindow")

    # --- U: unprotect control flow
    ucases = [tuple(c["u"]) for _, c in load_corpus("C12") if "u" in c] + unprotect_cases(env)
    lines, impl, compared = [], [], []
    for (size, win, er, arrivals) in ucases:
        win = tuple(win) if win is not None else None
        arrivals = [tuple(a) for a in arrivals]
        r, log = run_unprotect(aiocoap, oscore, HarnessContext, size, win, er, arrivals)
        outs = [x[4] for x in log]
        case = {"kind": "U", "size": size, "win": win, "echo_recovery": er, "arrivals": arrivals}
        rep.case(case, nontrivial=("A" in outs and len(set(outs)) > 1), sample_every=1000)
        for ch in outs:
            rep.count("U:outcome=" + ch)
        rep.count("U:start=" + ("no-slots" if size < 1 else "uninitialised" if win is None else
                                "persisted-by-larger-window" if win[1] >> size else "initialised"))
        for (seq, _a, _e, code) in map(arr, arrivals):
            rep.count("U:pivlen=%d" % max(1, (seq.bit_length() + 7) // 8))
            rep.count("U:outer-code=" + ("as-sent" if code is None else code_class(code)) +
                      ("/window-lost" if win is None else ""))
        v = oracle_unprotect(size, win, er, log)
        if v:
            rep.oracle_fail(case, v, key="unprotect:" + v.split(" ")[0] + ":" + v.split(" ")[-1])
        if size >= 1:
            compared.append(case)
            lines.append(u_line(size, win, er, arrivals))
            impl.append(r)
    compare(env, rep, compared, lines, impl, what="unprotect")

    # --- M: one context in both roles: protected responses between the protected requests
    mcases = [(c["m"][0], c["m"][1], c["m"][2], c["m"][3]) for _, c in load_corpus("C12") if "m" in c] + mixed_cases(env)
    lines, impl = [], []
    for (size, win, er, msgs) in mcases:
        win = tuple(win) if win is not None else None
        msgs = [tuple(m) for m in msgs]
        lines.append(m_line(size, win, er, msgs))
        r, log = run_mixed(aiocoap, oscore, HarnessContext, size, win, er, msgs)
        impl.append(r)
        outs = r.split(" |")[0]
        case = {"kind": "M", "size": size, "win": win, "echo_recovery": er, "msgs": msgs}
        rep.case(case, nontrivial=("A" in outs and len(set(outs)) > 1 and any(m[0] == "p" for m in msgs)),
                 sample_every=1000)
        for (m, ch, _b, _a) in log:
            rep.count(("M:request=" if m[0] == "q" else "M:response=") + ch +
                      ("" if m[-1] is None else "/outer-code=" + code_class(m[-1])))
        v = oracle_mixed(size, win, er, log)
        if v:
            rep.oracle_fail(case, v, key="mixed:" + v.split(" ")[0] + ":" + v.split(" ")[-1])
    compare(env, rep, mcases, lines, impl, what="unprotect, mixed requests and responses")
    run_restarts(env, rep)
    if rep.hist.get("U:outcome=A", 0) == 0 or rep.hist.get("U:outcome=R", 0) == 0:
        rep.notes.append("generator produced no accepted or no refused arrival")


# --- restarts: the same security context (directory) across process lifetimes ---------------

def restart_cases(env):
    """load, accept some requests, stop (kill / clean), reload, replay and continue"""
    rng = env.rng
    cases = []
    fixed = [
        ["L7", "R5:1:-", "R6:1:-", "K", "L8", "R5:1:-", "R6:1:-", "R7:1:-", "R8:1:8", "R5:1:-", "R9:1:-"],
        ["L7", "R1:1:-", "K", "L8", "R1:1:-", "R2:1:8", "R1:1:-", "R2:1:8", "R3:1:-"],
        ["L7", "R0:1:-", "R1:1:-", "R2:1:-", "K", "L8", "R1:1:-", "R2:1:-", "R0:1:-"],
        ["L7", "R3:1:-", "S", "L8", "R3:1:-", "R4:1:-", "K", "L9", "R4:1:-", "R3:1:-"],
        ["L7", "R3:1:-", "P", "R4:1:-", "K", "L8", "R3:1:-", "R4:1:-"],
    ]
    for ev in fixed:
        cases.append({"events": ev})
    # the `window` setting changed between an orderly stop and the next load: numbers 0..20 (or every third one)
    # accepted under the old size, then replays of all of them and a few fresh numbers under the new size
    for (old, new) in ((32, 8), (32, 1), (64, 32), (32, 31), (8, 32), (None, 8), (33, 2)):
        for step in (1, 3):
            first = [f"R{n}:1:-" for n in range(0, 21, step)]
            again = [f"R{n}:1:-" for n in (20, 15, 18, 9, 8, 7, 3, 0, 12)]
            cases.append({"events": ["L7"] + first + ["S", f"W{new}", "L8"] + again +
                          ["R21:1:-", "R21:1:-", "R19:1:-", "R60:1:-", "R15:1:-", "S", "L9"] + again[:4],
                          "window": old})
    # a `window` setting without slots (0 and below), from the start or edited in between two orderly runs: either the
    # context refuses to load, or what loads is a working window
    for w in (0, -1, -32):
        cases.append({"events": ["L7", "R0:1:-", "R1:1:-", "R0:1:-", "R2:1:-", "S", "L8", "R1:1:-", "R3:1:-"],
                      "window": w})
        cases.append({"events": ["L7", "R0:1:-", "R1:1:-", "S", f"W{w}", "L8", "R1:1:-", "R2:1:-", "R2:1:-", "S",
                                 "L9", "R2:1:-", "R3:1:-"]})
    for _ in range(env.scale(60, 1500)):
        # an honest peer never uses a sequence number for two different requests: a replay is
        # the identical datagram (same inner Echo option); new requests take new numbers
        ev = ["L7"]
        echo = 7
        sent = {}            # seq -> echo field of the (one) request with that number
        top = 0
        for life in range(rng.randrange(2, 4)):
            for _ in range(rng.randrange(1, 7)):
                if sent and rng.random() < 0.35:
                    seq = rng.choice(sorted(sent))
                else:
                    seq = top + rng.randrange(0, 4)
                    e = rng.random()
                    sent[seq] = str(echo) if e < 0.25 else ("-" if e < 0.9 else str(echo - 1))
                top = max(top, seq + 1)
                ev.append(f"R{seq}:{1 if rng.random() < 0.85 else 0}:{sent[seq]}")
                if rng.random() < 0.15:
                    ev.append("P")
            ev.append(rng.choice(["K", "K", "S"]))
            if ev[-1] == "S" and rng.random() < 0.4:
                ev.append("W%d" % rng.choice([1, 2, 4, 8, 32, 64]))       # the operator changes the window size
            echo += 1
            ev.append(f"L{echo}")
        for _ in range(rng.randrange(1, 5)):
            seq = rng.choice(sorted(sent))
            ev.append(f"R{seq}:1:{sent[seq]}")
        cases.append({"events": ev})
    return cases


def oracle_restart(log):
    accepted = {}
    last_stop = None
    accepted_in_prev = False
    echo_seen = True
    cur = None
    for o in log:
        if o["ev"] == "L" and o.get("res") == "l" and not o.get("second_process"):
            cur = o["lifetime"]
            echo_seen = not (last_stop == "unclean" and accepted_in_prev)
            accepted_in_prev = False
        if o.get("stop"):
            last_stop = o["stop"]
        if o["ev"] == "R" and o.get("res") == "X":
            return (f"unprotect of request {o['seq']} in lifetime {o['lifetime']} raised {o.get('exc')} instead of "
                    f"a protection error")
        if o["ev"] == "R" and str(o.get("res", "")).startswith("A"):
            seq = o["seq"]
            if seq in accepted:
                return (f"sequence number {seq} accepted in lifetime {accepted[seq]} and again in "
                        f"lifetime {o['lifetime']}")
            accepted[seq] = o["lifetime"]
            accepted_in_prev = True
            if o["res"].startswith("Ae"):
                echo_seen = True
            elif not echo_seen:
                return (f"after an unclean stop request {seq} was accepted in lifetime {o['lifetime']} "
                        f"without a fresh Echo exchange")
    return ""


def no_slots(case):
    """the history configures a replay window of size 0 or below at some point"""
    sizes = [case.get("window")] + [int(e[1:]) for e in case["events"] if e[0] == "W"]
    return any(w is not None and w < 1 for w in sizes)


def run_restart(runner, case):
    """-> log, or None when the context refused to load a `window` setting without slots (nothing is accepted, nothing
    is marked: nothing to judge)"""
    import gc
    import sys
    if not no_slots(case):
        return runner.run(case)[1]
    # FilesystemSecurityContext.__init__ raising LoadError leaves an object whose __del__ trips over the attributes
    # _load never set ("Exception ignored in ..." on stderr when it is collected): not this property's business
    hook = sys.unraisablehook
    sys.unraisablehook = lambda unraisable: None
    try:
        try:
            return runner.run(case)[1]
        except runner.oscore.FilesystemSecurityContext.LoadError:
            return None
    finally:
        gc.collect()
        sys.unraisablehook = hook


def run_restarts(env, rep):
    from props import C13 as c13
    runner = c13.Runner(env)
    for case in [c["restart"] for _, c in load_corpus("C12") if "restart" in c] + restart_cases(env):
        log = run_restart(runner, case)
        if log is None:
            rep.case({"kind": "restart", "events": case["events"], "window": case.get("window")}, nontrivial=False,
                     sample_every=500)
            rep.count("restart:window-without-slots=load-refused")
            continue
        if no_slots(case):
            rep.count("restart:window-without-slots=loaded")
        outs = "".join(str(o.get("res", ""))[:1] for o in log if o["ev"] == "R")
        pub = {"kind": "restart", "events": case["events"], "window": case.get("window")}
        rep.case(pub, nontrivial=("A" in outs and len(set(outs)) > 1), sample_every=500)
        rep.count("restart:stops=" + str(sum(1 for o in log if o.get("stop"))))
        rep.count("restart:window-changes=" + str(sum(1 for o in log if o["ev"] == "W")))
        v = oracle_restart(log)
        if v:
            rep.oracle_fail(pub, v, key="restart:" + v.split(" ")[0] + ":" + v.split(" ")[-2])


def replay(env, case):
    if case.get("kind") == "restart":
        from props import C13 as c13
        log = run_restart(c13.Runner(env), {"events": case["events"], "window": case.get("window")})
        return "" if log is None else oracle_restart(log)
    aiocoap = env.import_repo(shims=True)
    import aiocoap.oscore as oscore
    import oscore_util
    _, HarnessContext = oscore_util.make(oscore)
    if case.get("kind") == "W":
        try:
            r = run_window(oscore, case["size"], case["index"], case["bitfield"], case["ops"])
        except Exception as e:
            return f"ReplayWindow raised {type(e).__name__}"
        if r == "size-refused":
            return ""
        toks = r.split(" |")[0].split()
        return oracle_window(case["size"], case["index"], case["bitfield"], case["ops"], toks)[0]
    win = tuple(case["win"]) if case["win"] is not None else None
    if case.get("kind") == "M":
        r, log = run_mixed(aiocoap, oscore, HarnessContext, case["size"], win, case["echo_recovery"],
                           [tuple(m) for m in case["msgs"]])
        return oracle_mixed(case["size"], win, case["echo_recovery"], log)
    r, log = run_unprotect(aiocoap, oscore, HarnessContext, case["size"], win,
                           case["echo_recovery"], [tuple(a) for a in case["arrivals"]])
    return oracle_unprotect(case["size"], win, case["echo_recovery"], log)
