"""C04 — duplicate requests are executed at most once and re-answered identically.

Correspondence: server-side scripts (CON/NON requests from 1-3 peers reusing message ids,
duplicates at offsets around handler completion, EMPTY_ACK_DELAY and EXCHANGE_LIFETIME +-1 tick,
fast / slow / silent / failing / No-Response handlers, and the context's own outgoing messages
with colliding message ids) on the real UDP stack vs the Lean message-layer model.
Oracle: per (endpoint, message id): one delivery per EXCHANGE_LIFETIME epoch; a CON duplicate is
answered by a byte-identical repetition of the ACK already sent, or nothing; NON duplicates are silent.
"""
import msglayer
import msglayer_gen as G
import msglayer_props as P
from common import load_corpus
from props._msgl import replay_with

RULE = ("random server-side scripts: 1-4 requests, 0-3 duplicates each at offsets {1, EAD-1, EAD+1, random, "
        "EL-1, EL+1, >EL}, handler kinds fast/slow/never/No-Response/error, peers reusing mids, own traffic "
        "with colliding mids; plus scripts in which the application hands out one response object for all its "
        "requests (the model keeps values, the implementation references). Non-trivial: at least one duplicate arrived within the lifetime.")
TRUSTED = ["virtual-clock event loop and fake-socket UDP stack of the harness (vloop.py, netsim.py)"]
ASSUMPTIONS = ["asyncio timer order as on the virtual clock; a duplicate arriving exactly at the expiry tick is not judged"]


def scripts(env):
    cfg = msglayer.default_cfg()
    out = [c["script"] for _, c in load_corpus("C04") if "script" in c]
    out += [G.c04_random(env.rng, cfg) for _ in range(env.scale(250, 6000))]
    out += [G.c04_alias(env.rng, cfg) for _ in range(env.scale(40, 600))]
    out += G.c04_uncopyable(cfg) + G.c04_boundary(cfg)
    return out


def nontrivial(res):
    seen = set()
    for (t, k, f) in P.inputs(res):
        if k == "R" and 1 <= int(f[3]) < 32:
            key = (f[0], f[4])
            if key in seen:
                return True
            seen.add(key)
    return False


# -- "the same endpoint": the identity of the address objects the deduplication table is keyed with ------------------
# (oracle only; every datagram transport's address class, built the way the transport builds it for a received
# datagram.  Two datagrams are from the same endpoint iff address and port agree; for pairs that differ in the IPv6
# scope id only see SCOPE_PAIRS.)

ADDR6 = [("2001:db8::1", 5683, 0, 0), ("2001:db8::1", 5684, 0, 0), ("2001:db8::2", 5683, 0, 0),
         ("::ffff:10.0.0.1", 5683, 0, 0), ("::ffff:10.0.0.1", 61616, 0, 0), ("::ffff:10.0.0.2", 5683, 0, 0),
         ("fe80::1", 5683, 0, 2), ("fe80::1", 61616, 0, 2), ("::1", 5683, 0, 0), ("::1", 40000, 0, 0)]
ADDR4 = [("10.0.0.1", 5683), ("10.0.0.1", 5684), ("10.0.0.1", 61616), ("10.0.0.2", 5683), ("127.0.0.1", 5683),
         ("127.0.0.1", 40000)]
ADDRESS_KINDS = {"udp6": ADDR6, "simplesocketserver": ADDR6 + ADDR4}


# pairs that differ in the IPv6 scope id only: (a, b, same endpoint?).  The zone is part of a link-local address
# (fe80::1 on two links are two nodes; the kernel reports the zone of every datagram from there), it is not part of
# any other address (a zone given with a global address only selects the outgoing interface; datagrams from there come
# in with zone 0), and an unzoned link-local name stands for whatever zone the other side names.
SCOPE_PAIRS = [(("fe80::1", 5683, 0, 2), ("fe80::1", 5683, 0, 3), False),
               (("fe80::1", 5683, 0, 2), ("fe80::1", 5683, 0, 2), True),
               (("fe80::1", 5683, 0, 0), ("fe80::1", 5683, 0, 3), True),
               (("ff02::fd", 5683, 0, 2), ("ff02::fd", 5683, 0, 3), False),
               (("2001:db8::1", 5683, 0, 1), ("2001:db8::1", 5683, 0, 0), True),
               (("2001:db8::1", 5683, 0, 1), ("2001:db8::1", 5683, 0, 2), True),
               (("::1", 5683, 0, 1), ("::1", 5683, 0, 0), True),
               (("fe80::1", 5683, 0, 2), ("fe80::2", 5683, 0, 2), False)]


def address_cases():
    out = [{"level": "address", "kind": kind, "a": list(a), "b": list(b)}
           for kind, addrs in ADDRESS_KINDS.items() for a in addrs for b in addrs if len(a) == len(b)]
    for a, b, same in SCOPE_PAIRS:
        for x, y in ((a, b), (b, a)):
            out.append({"level": "address", "kind": "udp6", "a": list(x), "b": list(y), "same": same})
    return out


class _Anything:
    pass


_SHARED = _Anything()


def make_address(kind, sockaddr):
    sockaddr = tuple(sockaddr)
    if kind == "udp6":
        from aiocoap.transports.udp6 import UDP6EndpointAddress
        return UDP6EndpointAddress(sockaddr, _SHARED)
    from aiocoap.transports.simplesocketserver import _Address
    return _Address(_SHARED, sockaddr)


def oracle_address(case):
    A, B = make_address(case["kind"], case["a"]), make_address(case["kind"], case["b"])
    same = case.get("same", case["a"] == case["b"])
    try:
        eq, ne, found = (A == B), (A != B), {A: 1}.get(B) == 1
        hash_ok = (not same) or hash(A) == hash(B)
    except Exception as e:
        return f"comparing the addresses of {case['a']} and {case['b']} ({case['kind']}) raised {type(e).__name__}: {e}"
    if same and not (eq and not ne and found and hash_ok):
        return (f"{case['kind']}: two datagrams from {case['a']} are not from the same endpoint "
                f"(==: {eq}, !=: {ne}, found as dict key: {found}, hashes equal: {hash_ok}): a duplicate would be "
                f"executed again")
    if not same and (eq or not ne or found):
        return (f"{case['kind']}: datagrams from {case['a']} and from {case['b']} count as the same endpoint "
                f"(==: {eq}, !=: {ne}, found as dict key: {found}): the second endpoint's request with the "
                f"same message ID is taken for a duplicate, not executed, and answered with the other's response")
    return ""


def run(env, rep):
    env.import_repo()
    P.check_scripts(env, rep, "C04", scripts(env), P.oracle_c04, nontrivial)
    for case in address_cases():
        rep.case(case, nontrivial=case["a"] != case["b"])
        rep.count("address:" + case["kind"])
        verdict = oracle_address(case)
        if verdict:
            rep.oracle_fail(case, verdict, key="address-identity:" + case["kind"])


def replay(env, case):
    if case.get("level") == "address":
        env.import_repo()
        return oracle_address(case)
    return replay_with(env, case, P.oracle_c04)
