"""C04 — duplicate requests are executed at most once and re-answered identically.

Correspondence: server-side scripts (CON/NON requests from 1-3 peers reusing message ids,
duplicates at offsets around handler completion, EMPTY_ACK_DELAY and EXCHANGE_LIFETIME +-1 tick,
fast / slow / silent / failing / No-Response handlers, and the context's own outgoing messages
with colliding message ids) on the real UDP stack vs the Lean message-layer model.
Oracle: per (endpoint, message id): one delivery per EXCHANGE_LIFETIME epoch; a CON duplicate is
answered by a byte-identical repetition of the ACK already sent, or nothing; NON duplicates are silent.
"""
import msglayer
import msglayer_gen as G
import msglayer_props as P
from common import load_corpus
from props._msgl import replay_with

RULE = ("random server-side scripts: 1-4 requests, 0-3 duplicates each at offsets {1, EAD-1, EAD+1, random, "
        "EL-1, EL+1, >EL}, handler kinds fast/slow/never/No-Response/error, peers reusing mids, own traffic "
        "with colliding mids; plus scripts in which the application hands out one response object for all its "
        "requests (the model keeps values, the implementation references). Non-trivial: at least one duplicate arrived within the lifetime.")
TRUSTED = ["virtual-clock event loop and fake-socket UDP stack of the harness (vloop.py, netsim.py)"]
ASSUMPTIONS = ["asyncio timer order as on the virtual clock; a duplicate arriving exactly at the expiry tick is not judged"]


def scripts(env):
    cfg = msglayer.default_cfg()
    out = [c["script"] for _, c in load_corpus("C04") if "script" in c]
    out += [G.c04_random(env.rng, cfg) for _ in range(env.scale(250, 6000))]
    out += [G.c04_alias(env.rng, cfg) for _ in range(env.scale(40, 600))]
    out += G.c04_uncopyable(cfg) + G.c04_boundary(cfg)
    return out


def nontrivial(res):
    seen = set()
    for (t, k, f) in P.inputs(res):
        if k == "R" and 1 <= int(f[3]) < 32:
            key = (f[0], f[4])
            if key in seen:
                return True
            seen.add(key)
    return False


def run(env, rep):
    env.import_repo()
    P.check_scripts(env, rep, "C04", scripts(env), P.oracle_c04, nontrivial)


def replay(env, case):
    return replay_with(env, case, P.oracle_c04)
