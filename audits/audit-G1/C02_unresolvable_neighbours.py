"""Neighbours of fix 9e99948 (a host name the IDNA step refuses -> ResolutionError, udp6 determine_remote only).
C02: "The result of every request completes exactly once, either with such a matching response or with an error derived
from the library's error base class".
 (a) the same names through the other client transports that resolve names: simple6 (`_DatagramClientSocketpoolSimple6
     .connect`, the default client transport where udp6 is unavailable), tcpclient (`TCPClient._spawn_protocol`)
 (b) udp6 itself with other destinations the resolver step refuses with something else than gaierror/UnicodeError
No datagram leaves (name resolution fails before any socket exists; udp6 sits on the harness's fake socket).
exit 1 = a request completed with an exception that is no aiocoap.error.Error (or never completed)."""
import asyncio, sys, logging
sys.dont_write_bytecode = True
sys.path[:0] = ["/repo", "/verif/harness"]
import aiocoap
from aiocoap import Message, GET, error
logging.disable(logging.CRITICAL)

NAMES = ["a..b", "x" * 64 + ".example"]
bad = []


async def outcome(req):
    try:
        await asyncio.wait_for(asyncio.shield(req.response), 5)
        return "response"
    except asyncio.TimeoutError:
        return "PENDING"
    except error.Error as e:
        return "ok " + type(e).__name__
    except BaseException as e:
        return "FOREIGN " + ",".join(c.__name__ for c in type(e).__mro__[:-1]) + ": " + str(e)[:60]


async def main():
    # (a) other transports
    for transport, scheme in (("simple6", "coap"), ("tcpclient", "coap+tcp")):
        ctx = await aiocoap.Context.create_client_context(transports=[transport])
        for host in NAMES:
            for bw in (False, True):
                o = await outcome(ctx.request(Message(code=GET, uri=f"{scheme}://{host}/x"), handle_blockwise=bw))
                print(f"{transport:10} {scheme}://{host[:20]}/x blockwise={bw}: {o}")
                if not o.startswith("ok "):
                    bad.append((transport, host, o))
        await ctx.shutdown()
    # (b) udp6 on the fake socket, the way the harness level `unresolvable` runs it
    import netsim
    ctx, net = await netsim.make_context(asyncio.get_running_loop())
    for uri in ("coap://a..b/x", "coap://a%00b/x", "coap://%E2%80%A8.example/x", "coap://xn--a/x",
                "coap://[fe80::1%25nosuchif]/x", "coap://h:99999/x", "coap://[::1]:99999/x"):
        try:
            msg = Message(code=GET, uri=uri)
        except error.Error as e:
            print(f"udp6       {uri}: refused at set_request_uri ({type(e).__name__})")
            continue
        except Exception as e:
            print(f"udp6       {uri}: set_request_uri raised FOREIGN {type(e).__name__}: {e}")
            continue
        o = await outcome(ctx.request(msg, handle_blockwise=False))
        print(f"udp6       {uri}: {o}   (datagrams sent: {len(net.sent)})")
        if not (o.startswith("ok ") or o == "PENDING" and False):
            bad.append(("udp6", uri, o))
    await ctx.shutdown()

asyncio.run(main())
print()
for b in bad:
    print("VIOLATION:", b)
sys.exit(1 if bad else 0)
