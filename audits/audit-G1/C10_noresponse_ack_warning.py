"""Neighbour of fix 8166e3f (C15: Pong built with a deprecated constructor argument -> DeprecationWarning per Ping, raised
inside data_received in a process that turns warnings into errors).  The same construct sits in the message layer:
messagemanager.py:506  `new_message = Message(code=EMPTY, mid=mid, mtype=ACK)`  -- the empty ACK that replaces a
response suppressed by No-Response on a CON request -- uses the deprecated public `mid=`/`mtype=` arguments.
C10: "A response suppressed by the No-Response option is not sent (a confirmable request still gets its empty ACK)".
Run 1 (default warning filter): the empty ACK is sent, a aiocoap.util.DeprecationWarning is emitted per such response.
Run 2 (warnings as errors: python -W error / PYTHONWARNINGS=error / pytest filterwarnings=error): the warning is raised
inside send_message AFTER the piggy-back opportunity was popped and its timer cancelled.
exit 1 = the CON request never gets an acknowledgement in run 2."""
import sys, warnings
sys.dont_write_bytecode = True
sys.path[:0] = ["/repo", "/verif/harness", "/verif/harness/shims"]
import msglayer, msglayer_gen as G, msglayer_props as P

def run(as_errors):
    t = 5000
    ev = [G.request_in(t, 0, 901, "cc", mtype="CON", body=1), G.respond(t + 50000, 0, body=6, nr=26),
          G.request_in(t + 3 * (1 << 20), 0, 901, "cc", mtype="CON", body=1)]      # the peer's retransmission
    ev.append(G.far_end(ev))
    script = {"events": ev, "rules": [], "draws": []}
    with warnings.catch_warnings(record=not as_errors) as rec:
        warnings.simplefilter("error" if as_errors else "always")
        res = msglayer.run_script(script)
    res["wire"] = [(t_, d, b.hex()) for (t_, d, b) in res["wire"]]
    res["script"] = script
    print(f"--- warnings as errors: {as_errors}")
    print("   wire:", [x for g in res["groups"] for x in g if x.startswith("s@")])
    print("   escaped:", res["errors"], res["loop_exceptions"])
    if rec:
        print("   warnings:", sorted({f"{w.category.__name__}: {str(w.message)[:60]}" for w in rec}))
    print("   oracle_c10:", P.oracle_c10(res) or "ok")
    return [s for s in P.sends(res) if s["mtype"] == "ACK" and s["mid"] == 901]

a = run(False)
b = run(True)
sys.exit(0 if (a and b) else 1)
