"""Model vs implementation after fix a5672c0: a response handed to the message layer with a preset type ACK (what a
re-used, once piggy-backed response object carries; here set by the script's P event so that the model sees it too).
Real code (HEAD): the type is cleared and chosen anew.  Lean model (chooseType): `some t => t`, i.e. ACK under a fresh
message ID.  exit 1 = the two disagree (a gap of the verification, class b: the model is behind the fix).
Nothing is written under /verif."""
import os, subprocess, sys
sys.dont_write_bytecode = True
sys.path[:0] = ["/repo", "/verif/harness", "/verif/harness/shims"]
import msglayer, msglayer_gen as G

M = 1 << 20
bad = 0
for reqtype, speed in (("NON", "fast"), ("CON", "slow")):
    t = 5000
    ev = [G.request_in(t, 0, 901, "cc", mtype=reqtype, body=1),
          G.respond(t + (50000 if speed == "fast" else 200000), 0, body=6, mtype="ACK")]
    ev.append(G.far_end(ev))
    script = {"events": ev, "rules": [{"remote": 0, "mtype": "CON", "nth": 1, "do": "ack", "after": 400}], "draws": []}
    res = msglayer.run_script(script)
    line = "C10 " + " ".join(res["args"])
    out = subprocess.run(["/verif/lean/.lake/build/bin/driver"], input=(line + "\n").encode(),
                         capture_output=True).stdout.decode().strip()
    cm, tie, starved = msglayer.canon_model_line(out)
    print(f"--- {reqtype} request, {speed} handler, response object with preset type ACK")
    print("impl :", res["impl_line"][:400])
    print("model:", cm[:400])
    if cm != res["impl_line"]:
        bad += 1
        print("DISAGREE")
sys.exit(1 if bad else 0)
