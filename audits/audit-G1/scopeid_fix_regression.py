"""usage: scopeid_fix_regression.py <repo root>
Runs the boundary tables and 3x50 random scripts of each message-layer property (C02 C03 C04 C10 C14) against the given
tree: property oracle + comparison with the Lean model (driver, one batch).  exit 1 = a verdict or a disagreement."""
import random, subprocess, sys
sys.dont_write_bytecode = True
repo = sys.argv[1]
sys.path[:0] = [repo, "/verif/harness", "/verif/harness/shims"]
import aiocoap
assert aiocoap.__file__.startswith(repo)
import msglayer, msglayer_gen as G, msglayer_props as P
cfg = msglayer.default_cfg()
rng = random.Random(7)
sets = {
    "C02": (P.oracle_c02, G.c02_boundary() + [G.c02_random(rng, cfg) for _ in range(150)]),
    "C03": (P.oracle_c03, G.c03_boundary() + [G.c03_random(rng) for _ in range(60)]),
    "C04": (P.oracle_c04, G.c04_boundary(cfg) + [G.c04_random(rng, cfg) for _ in range(150)] + [G.c04_alias(rng, cfg) for _ in range(40)]),
    "C10": (P.oracle_c10, G.c10_table(cfg) + [G.c10_random(rng, cfg) for _ in range(100)]),
    "C14": (P.oracle_c14, G.c14_boundary() + [G.c14_random(rng) for _ in range(150)]),
}
bad = 0
for prop, (oracle, scripts) in sets.items():
    lines, impls, tags = [], [], []
    nver = 0
    for s in scripts:
        if s.get("oracle_only"):
            continue
        res = msglayer.run_script(s)
        res["wire"] = [(t, d, b.hex()) for (t, d, b) in res["wire"]]
        res["script"] = s
        ticks = [int(c.split("@")[1].split(":")[0]) for c in res["concrete"]]
        designed = {e[1] for e in s["events"] if e[0] == "N" or (e[0] == "S" and len(e) > 13) or (e[0] == "X" and len(e) > 3 and e[3])}
        accidental = any(ticks.count(t) > 1 and t not in designed for t in set(ticks))
        v = (res["errors"] + res["loop_exceptions"] + [""])[0] or ("" if accidental else oracle(res))
        if v:
            nver += 1
            print(f"   {prop} {s.get('tag')}: {v[:140]}")
        if res["same_tick_inputs"]:
            continue
        lines.append(prop + " " + " ".join(res["args"]))
        impls.append(res["impl_line"])
        tags.append(s.get("tag"))
    out = subprocess.run(["/verif/lean/.lake/build/bin/driver"], input=("\n".join(lines) + "\n").encode(),
                         capture_output=True).stdout.decode().split("\n")
    ndis = 0
    for line, m, i, tag in zip(lines, out, impls, tags):
        cm, tie, starved = msglayer.canon_model_line(m)
        if tie:
            continue
        if cm != i or starved:
            ndis += 1
            if ndis <= 3:
                print(f"   {prop} {tag}: model disagrees")
    print(f"{prop}: {len(scripts)} scripts, {nver} oracle verdicts, {len(lines)} compared with the model, {ndis} disagreements")
    bad += nver + ndis
sys.exit(1 if bad else 0)
