"""usage: scopeid_fix_check.py <repo root>
Runs, against the given tree (HEAD, a tree with the candidate fix scope-id-link-local-only.patch, or a tree with the
seeded change C14-7 = whole-sockaddr equality):
  1. the four corpus replays of the known finding `scope-id-merged` (C02 C03 C04 C14), each with its property's oracle
     AND compared with the Lean model (the `oracle_only` mark removed: the model's Remote 6 and 7 are distinct)
  2. every `zoned-global` script of c03_boundary / c14_boundary (remote 5: sent to with scope id 1, heard from with
     scope id 0), oracle and model
  3. C04's address-identity table plus the pairs it leaves out (scope id only, flowinfo only), with what I expect
exit 1 = some oracle verdict / model disagreement / unexpected identity.  Nothing is written under /verif."""
import json, subprocess, sys
sys.dont_write_bytecode = True
repo = sys.argv[1]
sys.path[:0] = [repo, "/verif/harness", "/verif/harness/shims"]
import aiocoap
assert aiocoap.__file__.startswith(repo), aiocoap.__file__
import msglayer, msglayer_gen as G, msglayer_props as P
sys.path.insert(0, "/verif/harness/props")

bad = 0


def model(prop, res):
    line = prop + " " + " ".join(res["args"])
    out = subprocess.run(["/verif/lean/.lake/build/bin/driver"], input=(line + "\n").encode(),
                         capture_output=True).stdout.decode().strip()
    cm, tie, starved = msglayer.canon_model_line(out)
    return cm, tie, starved


def judge(prop, oracle, script, name):
    global bad
    script = {k: v for k, v in script.items() if k not in ("oracle_only", "finding_key")}
    res = msglayer.run_script(script)
    res["wire"] = [(t, d, b.hex()) for (t, d, b) in res["wire"]]
    res["script"] = script
    v = (res["errors"] + res["loop_exceptions"] + [""])[0] or oracle(res)
    cm, tie, starved = model(prop, res)
    agree = "tie" if tie else ("agrees" if cm == res["impl_line"] and not starved else "DISAGREES")
    print(f"  {prop} {name:55} oracle: {v[:110] or 'ok'} | model {agree}")
    if v or agree == "DISAGREES":
        bad += 1


print("1. known-finding corpus scripts")
for prop, oracle, f in (("C02", P.oracle_c02, "link-local-scope-id-merged"), ("C03", P.oracle_c03, "link-local-scope-id-ack"),
                        ("C04", P.oracle_c04, "link-local-scope-id-merged"), ("C14", P.oracle_c14, "link-local-scope-id-shared-queue")):
    judge(prop, oracle, json.load(open(f"/verif/corpus/{prop}/{f}.json"))["script"], f)
print("2. zoned-global scripts")
for prop, oracle, scripts in (("C03", P.oracle_c03, G.c03_boundary()), ("C14", P.oracle_c14, G.c14_boundary())):
    for s in scripts:
        if "zoned-global" in s.get("tag", ""):
            judge(prop, oracle, s, s["tag"])
print("3. address identity")
from aiocoap.transports.udp6 import UDP6EndpointAddress
class I: pass
ifc = I()
A = lambda *sa: UDP6EndpointAddress(tuple(sa), ifc)
import C04 as C04mod
nfail = 0
for case in C04mod.address_cases():
    v = C04mod.oracle_address(case)
    if v:
        nfail += 1
        print("   table:", v[:150])
print(f"   C04 address table: {len(C04mod.address_cases())} pairs, {nfail} verdicts")
bad += nfail
extra = [  # (a, b, same endpoint?, why)
    (("fe80::1", 5683, 0, 2), ("fe80::1", 5683, 0, 3), False, "link-local, two links (the known finding)"),
    (("fe80::1", 5683, 0, 2), ("fe80::1", 5683, 0, 2), True, "link-local, same link"),
    (("2001:db8::6", 5683, 0, 1), ("2001:db8::6", 5683, 0, 0), True, "global named with a zone vs as heard from"),
    (("::ffff:10.0.0.1", 5683, 0, 1), ("::ffff:10.0.0.1", 5683, 0, 0), True, "v4-mapped named with a zone vs as heard from"),
    (("ff02::fd", 5683, 0, 2), ("ff02::fd", 5683, 0, 3), False, "link-local multicast group on two links"),
    (("ff05::fd", 5683, 0, 2), ("ff05::fd", 5683, 0, 0), True, "site-local multicast with / without zone"),
    (("2001:db8::1", 5683, 7, 0), ("2001:db8::1", 5683, 0, 0), True, "flow label differs (RFC 7252: endpoint = address + port)"),
]
for a, b, same, why in extra:
    x, y = A(*a), A(*b)
    eq, found = (x == y) and (y == x), {x: 1}.get(y) == 1
    ok = (eq == same) and (found == same)
    print(f"   {'ok      ' if ok else 'UNEXPECTED'} {a} vs {b}: ==:{eq} dict:{found}, same endpoint: {same}  ({why})")
    if not ok:
        bad += 1
print("violations:", bad)
sys.exit(1 if bad else 0)
