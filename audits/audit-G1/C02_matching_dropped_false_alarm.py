"""Is the new oracle rule `matching-dropped` (harness/msglayer_props.py, oracle_c02) sound?  Tries to make it fire on
/repo HEAD although the code behaves as the property demands.  Uses the harness's own runner and oracle, read-only.

The rule counts a request as outstanding at tick t when `ended_at[r] >= t`.  A request can END at t through a TIMER
(retransmission give-up -> ConRetransmitsExceeded, also for every other request to that endpoint), which is not an
input event: the `accidental same-tick` guard of check_scripts (which looks at input events only) does not see it, and
the model side's TIE flag only suppresses the model comparison, not the oracle.
   A: the peer's NON response is scheduled (as a reaction to our datagram) for the very tick of the give-up: the
      timer was armed first, fires first, the request fails, the response finds the token retired (correct: "already
      retired token ... never delivered") -> the rule reports `matching-dropped`.
   B: same with a second, NON request to that endpoint outstanding (failed by the same give-up).
   C-F: the situations named in the task that do NOT fool the rule (printed for the record): duplicate NON notification on
      an observation; response in the tick of the cancellation (C and R as one callback / as two inputs);
      response in the tick of a transport error for the peer; multicast request, second answer.
exit 1 = the rule fired although nothing is wrong (false alarm of the verification, not a defect of aiocoap)."""
import sys
sys.dont_write_bytecode = True
sys.path[:0] = ["/repo", "/verif/harness", "/verif/harness/shims"]
import msglayer, msglayer_gen as G, msglayer_props as P

M = 1 << 20
false_alarms = 0


def run(name, script, expect_quiet=True):
    global false_alarms
    res = msglayer.run_script(script)
    res["wire"] = [(t, d, b.hex()) for (t, d, b) in res["wire"]]
    res["script"] = script
    ticks = [int(c.split("@")[1].split(":")[0]) for c in res["concrete"]]
    accidental = any(ticks.count(t) > 1 for t in set(ticks))     # what check_scripts computes (no designed ticks here)
    v = P.oracle_c02(res)
    print(f"{name}\n   inputs: {res['concrete']}\n   outputs: {[x for g in res['groups'] for x in g]}\n"
          f"   same-tick guard would skip the oracle: {accidental};  oracle_c02: {v or 'ok'}")
    if v.startswith("matching-dropped") and not accidental:
        false_alarms += 1
        print("   -> FALSE ALARM (the request had failed with ConRetransmitsExceeded in this tick, before the datagram)")


T0 = 2 * M
# A: CON request, MAX_RETRANSMIT 0, give-up at 1000+T0; the peer's separate NON response arrives at exactly that tick
sub = G.submit(1000, 0, 0, rel=True, maxretr=0)
run("A: response in the tick of the give-up timer",
    {"events": [sub, G.far_end([sub])], "draws": [T0],
     "rules": [{"remote": 0, "mtype": "CON", "nth": 1, "do": "sep", "ptype": "NON", "pmid": 9000, "after": T0, "body": 200}]})
# B: a NON request to the same endpoint is failed by that give-up, its answer arrives in the same tick
sub0 = G.submit(1000, 0, 0, rel=True, maxretr=0)
sub1 = G.submit(1500, 1, 0, rel=False)
run("B: response to a NON request in the tick in which another exchange to that endpoint is given up",
    {"events": [sub0, sub1, G.far_end([sub0, sub1])], "draws": [T0],
     "rules": [{"remote": 0, "mtype": "NON", "nth": 1, "do": "sep", "ptype": "CON", "pmid": 9000, "after": T0 - 500, "body": 201}]})
# C: observation, the same NON notification twice
sub = G.submit(1000, 0, 0, rel=False, observing=True)
ev = [sub, ["R", 5000, 0, False, "NON", 69, 9100, "21", 5, 7], ["R", 6000, 0, False, "NON", 69, 9100, "21", 5, 7],
      ["R", 7000, 0, False, "NON", 69, 9101, "21", 4, 8]]
run("C: duplicate / out-of-order NON notifications of an observation", {"events": ev + [G.far_end(ev)], "rules": [], "draws": []})
# D: response in the tick of the cancellation, as two inputs (guard) ...
sub = G.submit(1000, 0, 0, rel=False)
ev = [sub, ["C", 5000, 0], ["R", 5000, 0, False, "NON", 69, 9100, "21", None, 7]]
run("D: cancellation and response as two inputs of one tick", {"events": ev + [G.far_end(ev)], "rules": [], "draws": []})
# E: transport error and response in one tick
sub = G.submit(1000, 0, 0, rel=False)
ev = [sub, ["E", 5000, 0], ["R", 5000, 0, False, "CON", 69, 9100, "21", None, 7]]
run("E: transport error for the peer and response as two inputs of one tick", {"events": ev + [G.far_end(ev)], "rules": [], "draws": []})
# F: multicast request, two answers from two peers
sub = G.submit(1000, 0, 9, rel=False, mc=True)
ev = [sub, ["R", 5000, 1, False, "NON", 69, 9100, "21", None, 7], ["R", 6000, 2, False, "CON", 69, 9101, "21", None, 8]]
run("F: multicast request answered by two peers", {"events": ev + [G.far_end(ev)], "rules": [], "draws": []})
print("false alarms:", false_alarms)
sys.exit(1 if false_alarms else 0)
