"""Neighbour of fix a5672c0 (send_message clears a left-over ACK/RST type of a response with nothing to piggy-back on).
The same shared response object (harness option `alias_responses`, as in C04's alias scenario), but not only for quickly
answered CON requests:
   1. slow CON request   -> empty ACK, then the separate response: send_message WRITES type CON into the object
   2. NON request        -> the object still says CON: the NON request is answered confirmably (retransmitted until ACKed)
C10: "a non-confirmable request is never acknowledged and is by default answered non-confirmably" -- the application
chose nothing; the harness's own oracle_c10 (rule non-answer-type) and the Lean model (chooseType: wasNon -> NON) both say NON.
Also the mirror image: NON request first (object gets NON), then a slow CON request -> separate response NON (legal,
printed only).   exit 1 = oracle_c10 reports a violation / the model disagrees, on /repo HEAD."""
import subprocess, sys
sys.dont_write_bytecode = True
sys.path[:0] = ["/repo", "/verif/harness", "/verif/harness/shims"]
import msglayer, msglayer_gen as G, msglayer_props as P
cfg = msglayer.default_cfg()
EAD = cfg["emptyAckDelay"]
bad = 0
for name, order in (("slow CON, then NON", ("slowCON", "NON")), ("NON, then slow CON", ("NON", "slowCON")),
                    ("fast CON, then NON (what a5672c0 repaired)", ("fastCON", "NON"))):
    ev, t = [], 5000
    for i, kind in enumerate(order):
        mt = "NON" if kind == "NON" else "CON"
        ev.append(G.request_in(t, 0, 900 + i, "%02x" % (0xa0 + i), mtype=mt, body=i + 1))
        ev.append(G.respond(t + (3 * EAD if kind == "slowCON" else 1000), i, body=20 + i))
        t += 10 * EAD
    ev.append(G.far_end(ev))
    script = {"events": ev, "rules": [{"remote": 0, "mtype": "CON", "nth": k, "do": "ack", "after": 500} for k in (1, 2)],
              "draws": [], "alias_responses": True, "mid": 9000}
    res = msglayer.run_script(script)
    res["wire"] = [(t_, d, b.hex()) for (t_, d, b) in res["wire"]]
    res["script"] = script
    v = P.oracle_c10(res)
    line = "C10 " + " ".join(res["args"])
    out = subprocess.run(["/verif/lean/.lake/build/bin/driver"], input=(line + "\n").encode(), capture_output=True).stdout.decode().strip()
    cm, tie, starved = msglayer.canon_model_line(out)
    strip = lambda l: [g.split("~")[0] for g in l.split("|")]
    print(f"--- {name}\n   wire : {[x for g in res['groups'] for x in g if x.startswith('s@')]}\n   model: {[x for g in strip(cm) for x in g.split(';') if x.startswith('s@')]}")
    print(f"   oracle_c10: {v or 'ok'};  model {'agrees' if cm == res['impl_line'] else 'DISAGREES'}")
    if v or cm != res["impl_line"]:
        bad += 1
sys.exit(1 if bad else 0)
