"""Does any script of the message-layer checks (C04 incl. its alias scenario, C10, C14; quick scale, 3 seeds) reach the
branch added by fix a5672c0 (a response entering send_message with a left-over/preset ACK or RST type and no
piggy-back opportunity)?  Counts entries by wrapping MessageManager.send_message; nothing is changed.
exit 1 = the branch is never reached (a revert of a5672c0 cannot be noticed by these checks)."""
import random, sys, types
sys.dont_write_bytecode = True
sys.path[:0] = ["/repo", "/verif/harness", "/verif/harness/shims"]
import msglayer, msglayer_gen as G
from aiocoap import messagemanager as mm
from aiocoap.numbers.types import ACK, RST

hits = {"preset-ack-no-opportunity": 0, "responses": 0, "leftover-con-or-non": 0}
orig = mm.MessageManager.send_message
def wrapped(self, message, monitor):
    if message.code.is_response():
        hits["responses"] += 1
        if (message.remote, message.token) not in self._piggyback_opportunities:
            if message.mtype in (ACK, RST):
                hits["preset-ack-no-opportunity"] += 1
            elif message.mtype is not None and message.mid is not None:
                hits["leftover-con-or-non"] += 1
    return orig(self, message, monitor)
mm.MessageManager.send_message = wrapped

cfg = msglayer.default_cfg()
n = 0
for seed in (1, 2, 3):
    rng = random.Random(seed)
    scripts = [G.c04_random(rng, cfg) for _ in range(60)] + [G.c04_alias(rng, cfg) for _ in range(40)]
    scripts += [G.c10_random(rng, cfg) for _ in range(40)] + [G.c14_random(rng) for _ in range(40)]
    if seed == 1:
        scripts += G.c04_boundary(cfg) + G.c10_table(cfg) + G.c14_boundary()
    for s in scripts:
        msglayer.run_script(s)
        n += 1
print(f"{n} scripts, responses through send_message: {hits['responses']}, "
      f"with a preset/left-over ACK|RST type and nothing to piggy-back on: {hits['preset-ack-no-opportunity']}, "
      f"re-used object with a left-over CON|NON type: {hits['leftover-con-or-non']}")
sys.exit(1 if hits["preset-ack-no-opportunity"] == 0 else 0)
