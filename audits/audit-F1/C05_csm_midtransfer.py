#!/venv/bin/python
"""F1 / C05 (held outside in DESIGN, reason doubted): first upload on a fresh TCP/WS connection.
The client's view of the remote is (szx 7, maximum_payload_size 1124) until the peer's CSM has
arrived, (7, 4196) afterwards (rfc8323common.py:88-113).  BlockwiseRequest._run decides
"fragment or not" anew in every round (protocol.py:944-960), so a body of 1125..4196 bytes goes
out as Block1 (0, M=1, SZX 7) with 1024 bytes, and after the 2.31 the WHOLE body is sent again in
one request without Block1 option: block 0 says "more" and is never continued.
Property text: "the more-flag is set exactly on non-final blocks", "offsets are contiguous".
Peer: aiocoap's own server side (Block1Spool) in-process; the body arrives intact.
exit 1 = the wire trace has a block with the more flag that is not followed by its continuation."""
import sys, asyncio
sys.path.insert(0, "/tmp/audit/F1")
import C0506_bert_loop as L

async def main():
    loop = asyncio.get_running_loop()
    bad = 0
    for plen in (1125, 2048, 3000, 4196):
        v, w = await L.one(loop, plen, 10, 7, 1124, 7, 4196, csm_after=(1, 7, 4196))
        print("payload %4d: requests (Block1, payload bytes) %s   handler bodies %s" % (plen, [(x[0], x[2]) for x in w.wire], [len(b) for b in w.res.bodies]))
        if v:
            print("   VIOLATED: " + v); bad += 1
    return 1 if bad else 0
sys.exit(asyncio.run(main()))
