#!/venv/bin/python
"""F1 / C05: fix 56045c9 on neighbouring inputs: the real BlockwiseRequest._run against a tiny
independent RFC 7959/8323 reference server (reassembles by NUM x unit, acknowledges with a
schedule of size exponents).  BERT block sizes 1/2/4 KiB x every first reduction 6..0 x a second
reduction later x the deprecated Block1 hint 7 on a UDP-like remote x Block2 downloads that
start BERT and shrink.  exit 1 = a conforming server did not end up with the payload / the caller
not with the representation, or a wire rule failed."""
import sys, os, asyncio, logging
sys.path.insert(0, "/repo")
import aiocoap
from aiocoap import Message, PUT, GET, CHANGED, CONTENT
from aiocoap.numbers.codes import Code
from aiocoap.message import Direction
from aiocoap.numbers.types import Type
from aiocoap.protocol import BlockwiseRequest
assert aiocoap.__file__.startswith("/repo/")
log = logging.getLogger("f1"); log.addHandler(logging.NullHandler()); log.propagate = False


class Remote:
    scheme = "coap+tcp"; is_multicast = False; is_multicast_locally = False
    hostinfo = "peer"; hostinfo_local = "me"
    def __init__(self, exp, mps):
        self.maximum_block_size_exp = exp; self.maximum_payload_size = mps
    blockwise_key = ("x",)


def unit(szx):
    return 1024 if szx == 7 else 1 << (szx + 4)


def pat(n, s):
    return bytes((s + 7 * i) % 251 for i in range(n))


class Srv:
    def __init__(self, loop, remote, rep, ack_szx, dl_szx):
        self.loop, self.remote, self.rep = loop, remote, rep
        self.log = log
        self.ack_szx = list(ack_szx)     # exponent asked for in the i-th Block1 acknowledgement (None: echo)
        self.dl_szx = list(dl_szx)       # exponent of the i-th Block2 response (None: as requested)
        self.buf = None
        self.recorded = None
        self.wire = []
        self.errors = []
        self.cur = 7

    async def find_remote_and_interface(self, msg):
        if msg.remote is None:
            msg.remote = self.remote

    def request(self, msg, handle_blockwise=False):
        m = Message.decode(msg.copy(mid=1, token=b"", mtype=Type.CON).encode(), self.remote)
        b1, b2 = m.opt.block1, m.opt.block2
        self.wire.append((None if b1 is None else tuple(int(x) for x in b1), None if b2 is None else tuple(int(x) for x in b2), len(m.payload)))
        r = None
        if b1 is not None:
            off = b1.block_number * unit(b1.size_exponent)
            if b1.block_number == 0:
                self.buf = b""
            if self.buf is None or off != len(self.buf):
                self.errors.append("Block1 %r at offset %d, %s bytes held" % (tuple(b1), off, None if self.buf is None else len(self.buf)))
                r = Message(code=Code.REQUEST_ENTITY_INCOMPLETE)
            elif b1.more and (len(m.payload) != unit(b1.size_exponent) if b1.size_exponent < 7 else (not m.payload or len(m.payload) % 1024)):
                self.errors.append("Block1 %r with %d bytes" % (tuple(b1), len(m.payload)))
                r = Message(code=Code.BAD_REQUEST)
            else:
                self.buf += m.payload
                want = self.ack_szx.pop(0) if self.ack_szx else None
                szx = min(b1.size_exponent, self.cur if want is None else want)
                self.cur = szx
                if b1.more:
                    r = Message(code=Code.CONTINUE, block1=(b1.block_number, True, szx))
                else:
                    self.recorded = self.buf
                    self.buf = None
        elif b2 is None or b2.block_number == 0:
            self.recorded = bytes(m.payload)
        if r is None:
            # final response, possibly block-wise
            req_szx = b2.size_exponent if b2 is not None else self.remote.maximum_block_size_exp
            want = self.dl_szx.pop(0) if self.dl_szx else None
            szx = req_szx if want is None else min(req_szx, want)
            num0 = b2.block_number if b2 is not None else 0
            start = num0 * unit(req_szx)
            size = unit(szx) if szx < 7 else 1024 * (self.remote.maximum_payload_size // 1024)
            if len(self.rep) <= size and start == 0 and b2 is None:
                r = Message(code=CHANGED if m.code == PUT else CONTENT, payload=self.rep)
            else:
                chunk = self.rep[start:start + size]
                more = start + size < len(self.rep)
                r = Message(code=CHANGED if m.code == PUT else CONTENT, payload=chunk, block2=(start // unit(szx), more, szx))
            if b1 is not None:
                r.opt.block1 = (b1.block_number, False, self.cur if self.cur < b1.size_exponent else b1.size_exponent)
        back = Message.decode(r.copy(mid=1, token=b"", mtype=Type.ACK).encode(), self.remote)
        back.direction = Direction.INCOMING
        fut = self.loop.create_future(); fut.set_result(back)
        class R:
            response = fut; observation = None
        return R()


def wire_check(wire, payload):
    ups = [w for w in wire if w[1] is None or w[1][0] == 0]
    off, last = 0, 7
    for i, (b1, b2, n) in enumerate(ups):
        if b1 is None:
            if len(ups) != 1:
                return "unfragmented request among several"
            continue
        num, more, szx = b1
        if szx > last: return "Block1 exponent grew %d -> %d" % (last, szx)
        last = szx
        if num * unit(szx) != off: return "Block1 %r at offset %d" % (b1, off)
        if bool(more) != (off + n < len(payload)): return "Block1 %r more flag" % (b1,)
        off += n
    dls = [w for w in wire if w[1] is not None and w[1][0] != 0]
    last = 7
    for (b1, b2, n) in dls:
        if b2[2] > last: return "Block2 exponent grew"
        last = b2[2]
    return ""


async def case(loop, plen, rlen, exp, mps, ack, dl, hint1=None, method=PUT):
    payload, rep = pat(plen, 3), pat(rlen, 9)
    s = Srv(loop, Remote(exp, mps), rep, ack, dl)
    app = Message(code=method, payload=payload, uri_path=("r",))
    if hint1 is not None:
        app.opt.block1 = (0, False, hint1)
    app.direction = Direction.OUTGOING
    fut = loop.create_future()
    import warnings
    with warnings.catch_warnings():
        warnings.simplefilter("ignore")
        try:
            await asyncio.wait_for(BlockwiseRequest._run(app, fut, lambda: None, s, log), 5)
        except Exception as e:
            return "ended with %r (server: %s)" % (e, s.errors), s
    out = fut.result()
    if s.errors: return "server complaints %s" % s.errors, s
    if s.recorded != payload: return "server recorded %s bytes, payload %d" % (None if s.recorded is None else len(s.recorded), plen), s
    if bytes(out.payload) != rep: return "caller got %d bytes, representation %d" % (len(out.payload), rlen), s
    return wire_check(s.wire, payload), s


async def main():
    loop = asyncio.get_running_loop()
    bad = n = 0
    for mps in (1124, 2148, 4196):
        for plen in (1125, 2048, 2049, 4096, 4097, 5000, 9000, 9216):
            for first in (None, 6, 5, 4, 3, 2, 1, 0):
                for second in (None, 5, 2, 0):
                    for pos in (0, 1):
                        ack = [None] * pos + [first, None, second]
                        v, s = await case(loop, plen, 10, 7, mps, ack, [])
                        n += 1
                        if v:
                            bad += 1
                            if bad < 10: print("VIOLATED upload mps %d len %d ack %s: %s\n   wire %s" % (mps, plen, ack, v, s.wire[:8]))
    print("uploads from a BERT client: %d cases, %d bad" % (n, bad))
    b2 = 0
    for hint in (7,):
        for plen in (0, 1, 1024, 1025, 3000):
            for first in (None, 6, 3):
                v, s = await case(loop, plen, 10, 6, 1124, [first], [], hint1=hint)
                if v:
                    b2 += 1; print("VIOLATED hint1=%d len %d ack %s: %s wire %s" % (hint, plen, first, v, s.wire[:6]))
    print("Block1 hint 7 on a szx-6 remote: %d bad" % b2)
    b3 = m = 0
    for mps in (1124, 2148, 4196):
        for rlen in (1125, 2048, 4097, 9000):
            for dl in ([None], [None, 6], [None, None, 3], [6, 2], [None, 6, 6, 0]):
                for plen in (0, 3000):
                    v, s = await case(loop, plen, rlen, 7, mps, [], list(dl), method=PUT if plen else GET)
                    m += 1
                    if v:
                        b3 += 1
                        if b3 < 10: print("VIOLATED download mps %d rlen %d dl %s: %s\n   wire %s" % (mps, rlen, dl, v, s.wire[:8]))
    print("downloads to a BERT client: %d cases, %d bad" % (m, b3))
    return 1 if (bad or b2 or b3) else 0

if __name__ == "__main__":
    sys.exit(asyncio.run(main()))
