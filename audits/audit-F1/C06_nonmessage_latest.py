#!/venv/bin/python
"""F1 / C06 (minor): neighbour of fixes b79a891 / ec05d4d ("the latest request for the beginning
produced no rendering -> later blocks 4.08").  Block2Cache.extract_or_insert drops the older kept
rendering only when the response builder RAISES (blockwise.py:146-158).  A builder that returns
something that is not a message (a resource written against interfaces.Resource whose render()
returns None) fails right after the await, at `len(assembled.payload)` (blockwise.py:173-174),
outside that try block: the request is answered 5.00, the rendering kept for the OLDER request
stays, and block 1 is served from it.
(resource.Resource.render touches response.code inside the builder, so there the same mistake
raises inside the try and is handled.)
exit 1 = block 1 was cut from the older rendering."""
import sys, os, asyncio
sys.path.insert(0, "/repo"); sys.path.insert(1, os.path.dirname(os.path.abspath(__file__)))
from f1lib import endpoint, request, serve, describe, run
from aiocoap import resource, interfaces, Message, GET, CONTENT
from aiocoap.numbers.codes import Code

class Raw(interfaces.Resource):
    def __init__(self):
        super().__init__(); self.n = 0
    async def needs_blockwise_assembly(self, request): return True
    async def render(self, request):
        self.n += 1
        return None if self.n == 2 else Message(code=CONTENT, payload=b"%d" % self.n * 200)
    async def render_to_pipe(self, pipe):
        await interfaces.Resource._render_to_pipe(self, pipe)

async def main(loop):
    a = endpoint(40001)
    site = resource.Site(); site.add_resource(["g"], Raw())
    r1 = await serve(site, request(GET, a, ["g"], block2=(0, False, 2)))
    r2 = await serve(site, request(GET, a, ["g"], block2=(0, False, 2)))
    l = await serve(site, request(GET, a, ["g"], block2=(1, False, 2)))
    print("GET Block2 0/0/2 #1:", describe(r1), r1.payload[:4])
    print("GET Block2 0/0/2 #2:", describe(r2))
    print("GET Block2 1/0/2   :", describe(l), l.payload[:4])
    if l.code != Code.REQUEST_ENTITY_INCOMPLETE:
        print("VIOLATED: the latest block-0 request has no rendering (answered %s), block 1 was cut from the rendering of the older one" % r2.code)
        return 1
    return 0
sys.exit(run(main))
