#!/venv/bin/python
"""F1 / C05+C06 interplay: the real BlockwiseRequest (client) against the real
Resource._render_blockwise (Block1Spool / Block2Cache) in one process, no sockets.  Every block
request of the client is encoded, decoded and given to the server side; the response is encoded
and decoded back.  Both sides see a remote with maximum_block_size_exp / maximum_payload_size as
configured (7 = BERT).  Checks: handler body == payload, returned body == representation, wire
rules (NUM x unit == offset, more <=> not final, exponent never grows, unfragmented request only
alone).  Also the CSM case (the client's view of the remote changes after the first exchange).
exit 1 = a check failed.
"""
import sys, os, asyncio, logging, itertools
sys.path.insert(0, "/repo")
sys.path.insert(1, os.path.dirname(os.path.abspath(__file__)))
import aiocoap
from aiocoap import resource, Message, GET, PUT, POST, CONTENT, CHANGED
from aiocoap.message import Direction
from aiocoap.numbers.types import Type
from aiocoap.protocol import BlockwiseRequest
from aiocoap.pipe import Pipe, error_to_message, run_driving_pipe
assert aiocoap.__file__.startswith("/repo/")
log = logging.getLogger("f1"); log.addHandler(logging.NullHandler()); log.propagate = False


class Remote:
    scheme = "coap+tcp"
    is_multicast = False
    is_multicast_locally = False
    hostinfo = "peer"
    hostinfo_local = "me"
    uri_base = "coap+tcp://peer"
    uri_base_local = "coap+tcp://me"

    def __init__(self, name, exp, mps):
        self.name = name
        self.maximum_block_size_exp = exp
        self.maximum_payload_size = mps

    @property
    def blockwise_key(self):
        return (self.name,)

    def as_response_address(self):
        return self


def pat(n, seed):
    return bytes((seed + 7 * i) % 251 for i in range(n))


class Res(resource.Resource):
    def __init__(self, rep):
        super().__init__()
        self.rep = rep
        self.bodies = []

    async def render_put(self, req):
        self.bodies.append(bytes(req.payload))
        return Message(code=CHANGED, payload=self.rep)

    async def render_get(self, req):
        self.bodies.append(bytes(req.payload))
        return Message(code=CONTENT, payload=self.rep)


class World:
    """protocol object for BlockwiseRequest._run + the server side"""

    def __init__(self, loop, res, client_view, server_view, csm_after=None):
        self.loop = loop
        self.log = log
        self.res = res
        self.client_view = client_view   # what the client thinks of the server
        self.server_view = server_view   # what the server thinks of the client
        self.csm_after = csm_after       # (n, exp, mps): after n exchanges the client's view changes
        self.wire = []
        self.mid = 0

    async def find_remote_and_interface(self, msg):
        if msg.remote is None:
            msg.remote = self.client_view

    def request(self, msg, handle_blockwise=False):
        assert not handle_blockwise
        self.mid += 1
        b1, b2 = msg.opt.block1, msg.opt.block2
        self.wire.append((None if b1 is None else tuple(int(x) for x in b1),
                          None if b2 is None else tuple(int(x) for x in b2), len(msg.payload), bytes(msg.payload)))
        m = msg.copy(mid=self.mid, token=b"\x01", mtype=Type.CON)
        raw = m.encode()
        sreq = Message.decode(raw, self.server_view)
        sreq.direction = Direction.INCOMING
        fut = self.loop.create_future()

        pipe = Pipe(sreq, log)

        def on_event(ev):
            r = ev.message
            if r is None:
                fut.set_exception(ev.exception)
                return False
            r = r.copy(mid=self.mid, token=b"\x01", mtype=Type.ACK)
            back = Message.decode(r.encode(), self.client_view)
            back.direction = Direction.INCOMING
            if self.csm_after and len(self.wire) >= self.csm_after[0]:
                self.client_view.maximum_block_size_exp = self.csm_after[1]
                self.client_view.maximum_payload_size = self.csm_after[2]
            fut.set_result(back)
            return False

        pipe.on_event(on_event)
        inner = error_to_message(pipe, log)
        run_driving_pipe(inner, self.res.render_to_pipe(inner))

        class R:
            response = fut
            observation = None
        return R()


def unit(szx):
    return 1024 if szx == 7 else 1 << (szx + 4)


def wire_check(wire, payload):
    """upload-phase rules of the property text"""
    ups = [w for w in wire if w[1] is None or w[1][0] == 0]
    off = 0
    last = 7
    for i, (b1, b2, n, data) in enumerate(ups):
        if b1 is None:
            if len(ups) != 1:
                return "an unfragmented request among %d requests of the upload phase: %s" % (len(ups), [(w[0], w[2]) for w in ups])
            continue
        num, more, szx = b1
        if szx > last:
            return "Block1 exponent grew"
        last = szx
        if num * unit(szx) != off:
            return "Block1 %r at offset %d" % (b1, off)
        if data != payload[off:off + n]:
            return "Block1 %r wrong bytes" % (b1,)
        if bool(more) != (off + n < len(payload)):
            return "Block1 %r: more flag wrong (%d bytes remain)" % (b1, len(payload) - off - n)
        if not more and i != len(ups) - 1:
            return "final Block1 block %r is followed by %r" % (b1, ups[i + 1][0])
        if more and i == len(ups) - 1:
            return "Block1 block %r with the more flag is the last request of the upload: %s" % (b1, [(w[0], w[2]) for w in ups])
        off += n
    return ""


async def one(loop, plen, rlen, cexp, cmps, sexp, smps, method=PUT, csm_after=None):
    payload, rep = pat(plen, 3), pat(rlen, 11)
    res = Res(rep)
    w = World(loop, res, Remote("srv", cexp, cmps), Remote("cli", sexp, smps), csm_after)
    app = Message(code=method, payload=payload, uri_path=())
    app.direction = Direction.OUTGOING
    fut = loop.create_future()
    try:
        await asyncio.wait_for(BlockwiseRequest._run(app, fut, lambda: None, w, log), 5)
    except Exception as e:
        return "request ended with %r; wire %s" % (e, [(x[0], x[1], x[2]) for x in w.wire]), w
    out = fut.result()
    if res.bodies != [payload]:
        return "handler saw bodies of %s bytes, payload is %d" % ([len(b) for b in res.bodies], plen), w
    if bytes(out.payload) != rep:
        return "returned body %d bytes, representation %d" % (len(out.payload), rlen), w
    v = wire_check(w.wire, payload)
    return v, w


async def main():
    loop = asyncio.get_running_loop()
    bad = 0
    n = 0
    lens = [0, 1, 1023, 1024, 1025, 1124, 1125, 2047, 2048, 2049, 2148, 2149, 3072, 4096, 4097, 4196, 4197, 5000, 9000]
    print("=== closed loop, client view == server view (both BERT, or both szx <= 6)")
    for (exp, mps) in [(7, 1124), (7, 2148), (7, 4196), (6, 1124), (4, 1124), (0, 1124)]:
        for plen in lens:
            for rlen in (0, 1024, 1125, 2149, 4197, 5000):
                if exp < 4 and (plen > 2100 or rlen > 2100):
                    continue
                for method in (PUT, GET):
                    if method == GET and plen:
                        continue
                    v, w = await one(loop, plen, rlen, exp, mps, exp, mps, method)
                    n += 1
                    if v:
                        bad += 1
                        if bad < 15:
                            print("VIOLATED  exp %d mps %d payload %d rep %d %s: %s" % (exp, mps, plen, rlen, method, v))
    print("          %d cases, %d bad" % (n, bad))

    print("=== client does BERT (szx 7), server side sees a remote of szx 6 (answers BERT requests as they come)")
    bad2 = 0
    for mps in (1124, 2148, 4196):
        for plen in lens:
            for rlen in (0, 1125, 5000):
                v, w = await one(loop, plen, rlen, 7, mps, 6, 1124)
                if v:
                    bad2 += 1
                    if bad2 < 8:
                        print("VIOLATED  c(7,%d) s(6,1124) payload %d rep %d: %s" % (mps, plen, rlen, v))
    print("          %d bad" % bad2)

    print("=== fresh TCP connection: client starts with (7, 1124); after the first exchange the CSM is in: (7, 4196)")
    bad3 = 0
    for plen in (1125, 2048, 3000, 4196, 4197, 9000):
        v, w = await one(loop, plen, 10, 7, 1124, 7, 4196, csm_after=(1, 7, 4196))
        print("%s  payload %d: wire %s%s" % ("VIOLATED" if v else "ok      ", plen, [(x[0], x[2]) for x in w.wire], (" -> " + v) if v else ""))
        bad3 += bool(v)
    print("=== ... CSM without BERT: (6, 1124)")
    for plen in (1125, 3000):
        v, w = await one(loop, plen, 10, 7, 1124, 6, 1124, csm_after=(1, 6, 1124))
        print("%s  payload %d: wire %s%s" % ("VIOLATED" if v else "ok      ", plen, [(x[0], x[2]) for x in w.wire], (" -> " + v) if v else ""))
        bad3 += bool(v)
    return 1 if (bad or bad2 or bad3) else 0


if __name__ == "__main__":
    sys.exit(asyncio.run(main()))
