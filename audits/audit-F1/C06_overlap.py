#!/venv/bin/python
"""F1 / C06: fix ec05d4d (overlapping renderings) on neighbouring inputs.

Property sentence: "Every Block2 response is exactly the slice ... of the single rendering made
for the latest block-0 request of that endpoint ... (a later block without such a rendering 4.08)".

Scenarios (one endpoint, one resource, handlers that suspend):
  A  latest request's handler RAISES, an older one finishes afterwards
  B  latest request is CANCELLED (the peer loses interest), older finishes afterwards
  C  three requests in flight, all 6 orders of completion, later block asked after every event
  D  the latest handler returns something extract_or_insert chokes on AFTER the await
     (Message with payload None; interfaces.Resource.render returning None)
  E  observable resource, Observe:0 requests overlapping
  F  older request is cancelled while the latest is still running / has finished
exit 1 = a later block was cut from a rendering that is not the latest block-0 request's.
"""
import sys, os, asyncio, itertools
sys.path.insert(0, "/repo")
sys.path.insert(1, os.path.dirname(os.path.abspath(__file__)))
from f1lib import endpoint, request, serve, describe, Report, run, log
import aiocoap
from aiocoap import resource, interfaces, Message, GET, CONTENT
from aiocoap.numbers.codes import Code
from aiocoap.pipe import Pipe, error_to_message, run_driving_pipe
assert aiocoap.__file__.startswith("/repo/")


def start2(site, req):
    loop = asyncio.get_running_loop()
    done = loop.create_future()
    responses = []
    pipe = Pipe(req, log)

    def on_event(ev):
        responses.append(ev.message if ev.message is not None else ev.exception)
        if ev.is_last:
            if not done.done():
                done.set_result(responses)
            return False
        return True

    stop = pipe.on_event(on_event)
    inner = error_to_message(pipe, log)
    run_driving_pipe(inner, site.render_to_pipe(inner), name="demo rendering")
    return done, stop


class Gate(resource.Resource):
    """each GET gets a number n; it waits for gate n and then returns / raises what it is told"""

    def __init__(self):
        super().__init__()
        self.n = 0
        self.gates = {}
        self.what = {}

    async def render_get(self, req):
        self.n += 1
        n = self.n
        g = self.gates.setdefault(n, asyncio.get_running_loop().create_future())
        await g
        w = self.what.get(n, "ok")
        if w == "raise":
            raise RuntimeError("handler %d fails" % n)
        if w == "none-payload":
            return Message(code=CONTENT, payload=None)
        if w == "small":
            return Message(code=CONTENT, payload=b"%d" % n * 10)
        return Message(code=CONTENT, payload=b"%d" % n * 200)

    def release(self, n):
        self.gates.setdefault(n, asyncio.get_running_loop().create_future()).set_result(None)


class ObsGate(Gate, resource.ObservableResource):
    def __init__(self):
        resource.ObservableResource.__init__(self)
        self.n = 0
        self.gates = {}
        self.what = {}


class RawNone(interfaces.Resource):
    """a resource written against the interface directly; second rendering returns None"""

    def __init__(self):
        super().__init__()
        self.n = 0

    async def needs_blockwise_assembly(self, request):
        return True

    async def render(self, request):
        self.n += 1
        if self.n == 2:
            return None
        return Message(code=CONTENT, payload=b"%d" % self.n * 200)

    async def render_to_pipe(self, pipe):
        await interfaces.Resource._render_to_pipe(self, pipe)


async def tick():
    for _ in range(6):
        await asyncio.sleep(0)


def origin(resp):
    """which rendering a 2.05 block was cut from"""
    if resp.code != CONTENT:
        return str(resp.code)
    return "rendering %s" % resp.payload[:1].decode()


async def later(site, a, path=("g",), **kw):
    return await serve(site, request(GET, a, list(path), block2=(1, False, 2), **kw))


async def main(loop):
    rep = Report()
    a = endpoint(40001)

    print("=== A: latest raises, older finishes afterwards")
    g = Gate(); site = resource.Site(); site.add_resource(["g"], g)
    # an older kept rendering to begin with
    g.release(1)
    r0 = await serve(site, request(GET, a, ["g"], block2=(0, False, 2)))
    f2, _ = start2(site, request(GET, a, ["g"], block2=(0, False, 2))); await tick()
    f3, _ = start2(site, request(GET, a, ["g"], block2=(0, False, 2))); await tick()
    l = await later(site, a)
    rep.check(l.code == Code.REQUEST_ENTITY_INCOMPLETE, "two in flight, later block: %s (expected 4.08)" % describe(l))
    g.what[3] = "raise"; g.release(3); await tick()
    (r3,) = await f3
    l = await later(site, a)
    rep.check(l.code == Code.REQUEST_ENTITY_INCOMPLETE, "latest (3) raised -> %s; later block: %s (expected 4.08)" % (describe(r3), origin(l)))
    g.release(2); await tick()
    (r2,) = await f2
    l = await later(site, a)
    rep.check(l.code == Code.REQUEST_ENTITY_INCOMPLETE, "older (2) finished afterwards with %s / %s; later block: %s (expected 4.08)" % (describe(r2), origin(r2), origin(l)))

    print("=== B: latest is cancelled, older finishes afterwards")
    g = Gate(); site = resource.Site(); site.add_resource(["g"], g)
    g.release(1)
    await serve(site, request(GET, a, ["g"], block2=(0, False, 2)))
    f2, _ = start2(site, request(GET, a, ["g"], block2=(0, False, 2))); await tick()
    f3, stop3 = start2(site, request(GET, a, ["g"], block2=(0, False, 2))); await tick()
    stop3(); await tick()
    l = await later(site, a)
    rep.check(l.code == Code.REQUEST_ENTITY_INCOMPLETE, "latest (3) cancelled; later block: %s (expected 4.08: rendering 1 is older than request 3, 2 is still running)" % origin(l))
    g.release(2); await tick()
    (r2,) = await f2
    l = await later(site, a)
    rep.check(l.code == Code.REQUEST_ENTITY_INCOMPLETE, "older (2) finished afterwards (%s); later block: %s (expected 4.08)" % (origin(r2), origin(l)))

    print("=== C: three in flight, every order of completion")
    for order in itertools.permutations((1, 2, 3)):
        g = Gate(); site = resource.Site(); site.add_resource(["g"], g)
        fs = {}
        for n in (1, 2, 3):
            fs[n], _ = start2(site, request(GET, a, ["g"], block2=(0, False, 2))); await tick()
        seen = []
        for n in order:
            g.release(n); await tick()
            (r,) = await fs[n]
            if origin(r) != "rendering %d" % n:
                rep.check(False, "request %d answered from %s" % (n, origin(r)))
            l = await later(site, a)
            seen.append(origin(l))
            done3 = 3 in order[: order.index(n) + 1]
            want = "rendering 3" if done3 else "4.08 Request Entity Incomplete"
            if origin(l) != want:
                rep.check(False, "order %s after completion of %d: later block %s, expected %s" % (order, n, origin(l), want))
        print("          order %s: later block after each completion: %s" % (order, seen))
    rep.check(True, "(three in flight: see lines above)")

    print("=== C2: third arrives after the second finished, first still running")
    g = Gate(); site = resource.Site(); site.add_resource(["g"], g)
    f1, _ = start2(site, request(GET, a, ["g"], block2=(0, False, 2))); await tick()
    f2, _ = start2(site, request(GET, a, ["g"], block2=(0, False, 2))); await tick()
    g.release(2); await tick(); await f2
    f3, _ = start2(site, request(GET, a, ["g"], block2=(0, False, 2))); await tick()
    l = await later(site, a)
    rep.check(l.code == Code.REQUEST_ENTITY_INCOMPLETE, "3 in flight (latest), 2 stored: later block %s (expected 4.08)" % origin(l))
    g.what[1] = "small"; g.release(1); await tick(); await f1
    l = await later(site, a)
    rep.check(l.code == Code.REQUEST_ENTITY_INCOMPLETE, "1 finished small: later block %s (expected 4.08)" % origin(l))
    g.release(3); await tick(); await f3
    l = await later(site, a)
    rep.check(origin(l) == "rendering 3", "3 finished: later block %s (expected rendering 3)" % origin(l))

    print("=== D1: latest handler returns Message(payload=None): fails after the await")
    g = Gate(); site = resource.Site(); site.add_resource(["g"], g)
    g.release(1)
    await serve(site, request(GET, a, ["g"], block2=(0, False, 2)))
    g.what[2] = "none-payload"; g.release(2)
    r2 = await serve(site, request(GET, a, ["g"], block2=(0, False, 2)))
    l = await later(site, a)
    rep.check(l.code == Code.REQUEST_ENTITY_INCOMPLETE,
              "latest block-0 request answered %s (no rendering); later block: %s (expected 4.08)" % (describe(r2), origin(l)))

    print("=== D2: interfaces.Resource whose render() returns None on the latest request")
    raw = RawNone(); site = resource.Site(); site.add_resource(["g"], raw)
    await serve(site, request(GET, a, ["g"], block2=(0, False, 2)))
    r2 = await serve(site, request(GET, a, ["g"], block2=(0, False, 2)))
    l = await later(site, a)
    rep.check(l.code == Code.REQUEST_ENTITY_INCOMPLETE,
              "latest block-0 request answered %s (no rendering); later block: %s (expected 4.08)" % (describe(r2), origin(l)))

    print("=== E: observable resource, Observe:0 requests overlapping")
    g = ObsGate(); site = resource.Site(); site.add_resource(["g"], g)
    f1, s1 = start2(site, request(GET, a, ["g"], block2=(0, False, 2), observe=0)); await tick()
    f2, s2 = start2(site, request(GET, a, ["g"], block2=(0, False, 2), observe=0)); await tick()
    g.release(2); await tick()
    g.release(1); await tick()
    l = await later(site, a)
    rep.check(origin(l) == "rendering 2", "Observe:0 x2, older finishes last: later block %s (expected rendering 2)" % origin(l))
    l = await later(site, a, observe=0)
    rep.check(origin(l) == "rendering 2", "   ... asked with Observe:0: %s" % origin(l))
    s1(); s2(); await tick()

    print("=== F: older request cancelled while / after the latest runs")
    g = Gate(); site = resource.Site(); site.add_resource(["g"], g)
    f1, s1 = start2(site, request(GET, a, ["g"], block2=(0, False, 2))); await tick()
    f2, s2 = start2(site, request(GET, a, ["g"], block2=(0, False, 2))); await tick()
    g.release(2); await tick(); await f2
    s1(); await tick()
    l = await later(site, a)
    rep.check(origin(l) == "rendering 2", "older cancelled after latest finished: later block %s (expected rendering 2)" % origin(l))
    return rep.exit_code()


if __name__ == "__main__":
    sys.exit(run(main))
