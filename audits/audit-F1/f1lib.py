"""Helpers shared by the C06 round-4 demos (no sockets, no real waiting).

The repository root has to be put first on sys.path *before* this module is
imported (the demos do that); this module imports aiocoap at import time.

What is provided:

* VirtualLoop: an asyncio event loop whose clock only moves when advance()
  is called, so that the 93 s / 186 s life times of the block-wise state can
  be walked through in milliseconds.
* endpoint(): a real aiocoap.transports.udp6.UDP6EndpointAddress (no socket
  behind it) standing for one client endpoint.
* request(): an incoming request message as the UDP transport would hand it up.
* serve(): runs one request through a resource tree exactly like
  Context.render_to_pipe does (error_to_message + run_driving_pipe), and
  returns the response message(s).
"""

import asyncio
import logging
import socket
import struct

import aiocoap
from aiocoap import Message
from aiocoap.message import Direction
from aiocoap.numbers.types import Type
from aiocoap.pipe import Pipe, error_to_message, run_driving_pipe
from aiocoap.transports.udp6 import UDP6EndpointAddress

log = logging.getLogger("c06-demo")
log.addHandler(logging.NullHandler())
log.propagate = False


class VirtualLoop(asyncio.SelectorEventLoop):
    """Event loop with a clock that is moved by hand."""

    def __init__(self):
        super().__init__()
        self._vnow = 1000.0

    def time(self):
        return self._vnow

    async def advance(self, seconds, step=0.5):
        """Let `seconds` of virtual time pass, running whatever timers fall
        due on the way."""
        target = self._vnow + seconds
        while self._vnow < target:
            self._vnow = min(target, self._vnow + step)
            # two turns: one that moves due timers to the ready queue, one
            # that lets what they scheduled run
            await asyncio.sleep(0)
            await asyncio.sleep(0)


class _FakeInterface:
    """What a UDP6EndpointAddress keeps a weak reference to."""

    def _local_port(self):
        return 5683


_interface = _FakeInterface()

_pktinfo = struct.pack("16sI", socket.inet_pton(socket.AF_INET6, "::1"), 0)


def endpoint(port, host="::1"):
    """A UDP client endpoint (host, port) as the udp6 transport represents it"""
    return UDP6EndpointAddress((host, port, 0, 0), _interface, pktinfo=_pktinfo)


_mid = [0]


def request(code, remote, path, *, payload=b"", token=None, **options):
    """An incoming request as it arrives from the message layer"""
    _mid[0] = (_mid[0] + 1) % 65536
    msg = Message(code=code, payload=payload, uri_path=tuple(path), **options)
    msg.direction = Direction.INCOMING
    msg.remote = remote
    msg.mtype = Type.CON
    msg.mid = _mid[0]
    msg.token = token if token is not None else _mid[0].to_bytes(2, "big")
    return msg


def start(site, req):
    """Start processing of one request like Context.render_to_pipe does;
    returns a future that resolves to the list of response messages once the
    last one was produced."""
    loop = asyncio.get_running_loop()
    done = loop.create_future()
    responses = []

    pipe = Pipe(req, log)

    def on_event(ev):
        if ev.message is not None:
            responses.append(ev.message)
        elif ev.exception is not None:
            responses.append(ev.exception)
        if ev.is_last:
            if not done.done():
                done.set_result(responses)
            return False
        return True

    pipe.on_event(on_event)
    inner = error_to_message(pipe, log)
    run_driving_pipe(inner, site.render_to_pipe(inner), name="demo rendering")
    return done


async def serve(site, req):
    """Process one (non-observe) request and return its response message"""
    responses = await start(site, req)
    assert len(responses) == 1, responses
    return responses[0]


def describe(response):
    """Short text for a response: code, block options, payload length"""
    parts = [str(response.code)]
    if response.opt.block1 is not None:
        b = response.opt.block1
        parts.append("Block1 %d/%d/%d" % (b.block_number, b.more, b.size_exponent))
    if response.opt.block2 is not None:
        b = response.opt.block2
        parts.append("Block2 %d/%d/%d" % (b.block_number, b.more, b.size_exponent))
    parts.append("%d bytes" % len(response.payload))
    return ", ".join(parts)


class Report:
    """Collects the outcome of the single checks of a demo"""

    def __init__(self):
        self.failed = 0

    def check(self, ok, text):
        print(("ok      " if ok else "VIOLATED") + "  " + text)
        if not ok:
            self.failed += 1
        return ok

    def exit_code(self):
        if self.failed:
            print("%d check(s) violated" % self.failed)
            return 1
        print("all checks passed")
        return 0


def run(main):
    """Run the coroutine function main(loop) on a VirtualLoop and return its result"""
    loop = VirtualLoop()
    asyncio.set_event_loop(loop)
    try:
        return loop.run_until_complete(main(loop))
    finally:
        loop.close()


__all__ = [
    "VirtualLoop",
    "endpoint",
    "request",
    "start",
    "serve",
    "describe",
    "Report",
    "run",
    "aiocoap",
]
