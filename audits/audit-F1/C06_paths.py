#!/venv/bin/python
"""F1 / C06: fix 27f6b11 (path in the block key) on neighbouring inputs: Block2 side, nested
sites registered twice, a sub-site's root addressed as /sub and /sub/, Uri-Path-Abbrev.
exit 1 = a block sent to one path continued / was cut from a transfer of another path."""
import sys, os, asyncio
sys.path.insert(0, "/repo")
sys.path.insert(1, os.path.dirname(os.path.abspath(__file__)))
from f1lib import endpoint, request, serve, describe, Report, run
import aiocoap
from aiocoap import resource, Message, GET, PUT, CONTENT, CHANGED
from aiocoap.numbers.codes import Code


class R(resource.Resource):
    def __init__(self):
        super().__init__()
        self.n = 0
        self.bodies = []

    async def render_get(self, req):
        self.n += 1
        return Message(code=CONTENT, payload=b"%d" % self.n * 200)

    async def render_put(self, req):
        self.bodies.append(req.payload)
        return Message(code=CHANGED)


async def main(loop):
    rep = Report()
    a = endpoint(40001)

    print("=== Block2: GET /a block 0, then GET /b block 1 (same object)")
    r = R(); site = resource.Site(); site.add_resource(["a"], r); site.add_resource(["b"], r)
    await serve(site, request(GET, a, ["a"], block2=(0, False, 2)))
    l = await serve(site, request(GET, a, ["b"], block2=(1, False, 2)))
    rep.check(l.code == Code.REQUEST_ENTITY_INCOMPLETE, "GET /b Block2 1: %s (expected 4.08)" % describe(l))
    l = await serve(site, request(GET, a, ["a"], block2=(1, False, 2)))
    rep.check(l.code == CONTENT and l.payload[:1] == b"1", "GET /a Block2 1: %s" % describe(l))

    print("=== nested site registered under two paths")
    r = R(); sub = resource.Site(); sub.add_resource(["r"], r)
    site = resource.Site(); site.add_resource(["x"], sub); site.add_resource(["y", "z"], sub)
    x = await serve(site, request(PUT, a, ["x", "r"], payload=b"i" * 16, block1=(0, True, 0)))
    y = await serve(site, request(PUT, a, ["y", "z", "r"], payload=b"A" * 5, block1=(1, False, 0)))
    rep.check(y.code == Code.REQUEST_ENTITY_INCOMPLETE and not r.bodies, "PUT /x/r 0 then PUT /y/z/r 1: %s, %s; bodies %r" % (describe(x), describe(y), r.bodies))
    y = await serve(site, request(PUT, a, ["x", "r"], payload=b"A" * 5, block1=(1, False, 0)))
    rep.check(y.code == CHANGED and r.bodies == [b"i" * 16 + b"A" * 5], "PUT /x/r 1: %s" % describe(y))

    print("=== a sub-site's root resource addressed as /s and /s/ (two URIs, one registration each)")
    r = R(); sub = resource.Site(); sub.add_resource([], r); sub.add_resource([""], r)
    site = resource.Site(); site.add_resource(["s"], sub)
    x = await serve(site, request(PUT, a, ["s"], payload=b"i" * 16, block1=(0, True, 0)))
    y = await serve(site, request(PUT, a, ["s", ""], payload=b"A" * 5, block1=(1, False, 0)))
    rep.check(y.code == Code.REQUEST_ENTITY_INCOMPLETE and not r.bodies, "PUT /s 0 then PUT /s/ 1: %s, %s; bodies %r" % (describe(x), describe(y), r.bodies))

    print("=== resource handed the message without a Site (no _original_request_path): path is in the cache key")
    r = R()
    x = await serve(r, request(PUT, a, ["p"], payload=b"i" * 16, block1=(0, True, 0)))
    y = await serve(r, request(PUT, a, ["q"], payload=b"A" * 5, block1=(1, False, 0)))
    rep.check(y.code == Code.REQUEST_ENTITY_INCOMPLETE and not r.bodies, "PUT p 0 then PUT q 1: %s, %s" % (describe(x), describe(y)))
    return rep.exit_code()


if __name__ == "__main__":
    sys.exit(run(main))
