"""C07 (outside the stated quantifier -- application call from inside a callback; same family as
5a6f232): the application's callback cancels the observation when it is handed the final response
(no Observe).  Request._run then calls observation.error(ObservationCancelled()) on the cancelled
observation: RuntimeError escapes through Pipe / TokenManager.process_response into the transport.
exit 1 = exception escaped."""
from c07_lib import *

async def main():
    b = Bench(False); await turn()
    obs = b.req.observation
    def cb(m):
        if m.opt.observe is None:
            obs.cancel()
    obs.register_callback(cb, _suppress_deprecation=True)
    b.respond(0, aiocoap.CONTENT, b"v1", observe=1); await turn()
    r = b.respond(0, aiocoap.CONTENT, b"final"); await turn()
    print("process_response ->", r, b.escaped)
    return bool(b.escaped)

if asyncio.run(main()):
    print("REPRODUCED: RuntimeError out of TokenManager.process_response")
    raise SystemExit(1)
