"""C06 (documented as N5 in DESIGN.md, 'not claimed'; replayed on HEAD to fix its class):
FETCH + Observe:0 + Block1 on a resource.ObservableResource by-passes Block1Spool/Block2Cache:
the handler is invoked once per BLOCK with that block as body.  exit 1 = still so."""
import warnings; warnings.simplefilter("ignore")
from c06_lib import World, show, Message
import aiocoap
from aiocoap import resource

w = World()
seen = []

class Obs(resource.ObservableResource):
    async def render_fetch(self, request):
        seen.append(bytes(request.payload))
        return Message(code=aiocoap.CONTENT, payload=b"x")

o = Obs()
async def go():
    import asyncio
    out = []
    for b1, pl in (((0, True, 0), b"A" * 16), ((1, False, 0), b"B" * 4)):
        m = w.mk(aiocoap.FETCH, pl, b1=b1, observe=0)
        t = asyncio.ensure_future(w.arequest_first(m, o))
        out.append(await t)
    return out

# first response only (the observation keeps the pipe open)
async def arequest_first(msg, res):
    import asyncio
    from aiocoap.pipe import Pipe, error_to_message
    from c06_lib import LOG
    events = []
    outer = Pipe(msg, LOG)
    got = asyncio.get_running_loop().create_future()
    def ev(e):
        events.append(e)
        if not got.done():
            got.set_result(e)
        return not e.is_last
    outer.on_event(ev)
    inner = error_to_message(outer, LOG)
    async def run():
        try:
            await res.render_to_pipe(inner)
        except Exception as e:
            inner.add_exception(e)
    t = asyncio.ensure_future(run())
    e = await got
    t.cancel()
    return e.message
w.arequest_first = arequest_first
rs = w.loop.run_until_complete(go())
for r in rs:
    show("resp", r)
print("  handler saw bodies:", seen)
w.close()
if seen and seen != [b"A" * 16 + b"B" * 4]:
    print("VIOLATED: handler invoked with single blocks, not with the concatenation of blocks 0..n")
    raise SystemExit(1)
