"""C15 (doubtful b/c): 'Ping is answered by Pong with the same token'; abort causes are 'an
unparsable frame or an unknown critical option in a signalling message'.  RFC 8323 5.2: option
numbers of signalling messages are specific to the message code; an elective option that is not
understood is ignored.  aiocoap decodes the options of signalling messages with the option table
of ordinary messages: an elective option numbered 8 or 20 (Location-Path / Location-Query there,
UTF-8 strings) whose value is not UTF-8 makes a well-formed Ping (or CSM) 'unparsable' -> Abort.
/verif: Opt.legal (decodeVal by ordinary option number) is a hypothesis of C15_ping_frame_answered /
C15_dispatch_exact; the oracle's o_parse_body applies O_STRING to signalling frames as well; the
generator's signalling option pool is [2,4,6,10,300] (+ critical ones).
exit 1 = well-formed Ping with an unknown elective option not answered by Pong."""
from c15_lib import *

bad = 0
for code, name in ((PING, "Ping"), (CSM, "second CSM")):
    for num in (8, 20):
        ev, conn, tr, _ = session([frame(CSM) + frame(code, b"tk", [(num, b"\xff\xfe")])])
        print("%s with elective option %d = fffe ->" % (name, num), describe(ev[1:]))
        if tr.closed:
            bad += 1
ev, conn, tr, _ = session([frame(CSM) + frame(PING, b"tk", [(10, b"\xff\xfe")])])
print("control: Ping with elective option 10 = fffe ->", describe(ev[1:]))
if bad:
    print("REPRODUCED: connection aborted over an elective signalling option")
    raise SystemExit(1)
