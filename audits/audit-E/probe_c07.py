from c07_lib import *
async def p1(blockwise, consumer):
    b = Bench(blockwise); await turn()
    getattr(b, consumer)()
    print(" first ->", b.respond(0, aiocoap.CONTENT, b"v1", observe=1)); await turn()
    print(" n2    ->", b.respond(0, aiocoap.CONTENT, b"v2", observe=2)); await turn()
    print(" 4.04+Observe:3 ->", b.respond(0, aiocoap.NOT_FOUND, b"gone", observe=3)); await turn()
    print(" seen:", b.seen, "token live:", b.token_live(), "cancelled:", b.req.observation.cancelled)
    print(" later n4 ->", b.respond(0, aiocoap.CONTENT, b"v4", observe=4)); await turn()
    print(" seen:", b.seen, b.escaped, b.loop_errors)
for bw in (False, True):
    for c in ("use_callbacks", "use_iter"):
        print("P1", bw, c); asyncio.run(p1(bw, c))

async def p2():
    b = Bench(False); await turn()
    obs = b.req.observation
    def cb(m):
        b.seen.append(("item", str(m.code), m.opt.observe))
        if m.opt.observe is None:
            obs.cancel()
    obs.register_callback(cb, _suppress_deprecation=True)
    obs.register_errback(lambda e: b.seen.append(("errback", repr(e))), _suppress_deprecation=True)
    b.respond(0, aiocoap.CONTENT, b"v1", observe=1); await turn()
    print(" final ->", b.respond(0, aiocoap.CONTENT, b"fin")); await turn()
    print(" seen:", b.seen, b.escaped, b.loop_errors)
print("P2"); asyncio.run(p2())

async def p3():
    b = Bench(False); await turn(); b.use_callbacks()
    b.ti.monitors[0](); await turn()
    print(" seen:", b.seen, b.escaped, b.loop_errors, b.req.response.exception())
print("P3"); asyncio.run(p3())
