"""C06: 'a resource handler is invoked only with a body that is the in-order concatenation of
blocks 0..n' / quantifier 'skipped, wrong sizes'.
Block 0 (NUM=0, M=1, SZX=0 -> 16 bytes) arrives with 32 bytes of payload: answered 2.31.
Then NUM=2 (M=0, SZX=0) arrives -- block 1 was never sent.  The handler is invoked with a body
made of blocks 0 and 2.  (/verif: ASSUMPTION 'block 0 ... payload length is not judged';
Assembly.first has no size premise; oracle: num == 0 -> always 'accept'.)
exit 1 = property text violated on /repo HEAD."""
import warnings; warnings.simplefilter("ignore")
from c06_lib import World, show
import aiocoap

w = World()
r0 = w.request(w.mk(aiocoap.POST, b"A" * 32, b1=(0, True, 0)))
show("NUM=0 M=1 SZX=0, 32 bytes", r0)
r2 = w.request(w.mk(aiocoap.POST, b"C" * 5, b1=(2, False, 0)))
show("NUM=2 M=0 SZX=0,  5 bytes", r2)
print("  handler saw:", w.seen)
w.close()
if w.seen:
    print("VIOLATED: handler invoked with a body built from blocks {0, 2}; block 1 was never received, "
          "block 0 contradicted its block size and was answered 2.31")
    raise SystemExit(1)
print("ok: not delivered")
