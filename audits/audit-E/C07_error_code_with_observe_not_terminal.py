"""C07 (doubtful): the statement reads '... when a response without Observe option (as every
non-2.xx one is) arrives' -- the parenthesis is an assertion about inputs nobody discharges
(Lean: Event.terminating looks only at `obs`/`last`, docstring 'every non-2.xx response is one';
oracle_history treats 4.04+Observe as a notification; TERMINATORS has 4.04+Observe only with the
pipe-level last flag that TokenManager never sets for it).  A server that puts an Observe option
on its 4.04 (RFC 7641 4.2 says it must not, and that it has removed the client): aiocoap hands the
4.04 over as a notification, signals no end, and keeps the token registered for good.
exit 1 = a non-2.xx response did not end the observation."""
from c07_lib import *

async def main(blockwise):
    b = Bench(blockwise); await turn(); b.use_callbacks()
    b.respond(0, aiocoap.CONTENT, b"v1", observe=1); await turn()
    b.respond(0, aiocoap.CONTENT, b"v2", observe=2); await turn()
    b.respond(0, aiocoap.NOT_FOUND, b"gone", observe=3); await turn()
    print("blockwise=%s saw %s; token still registered: %s; observation.cancelled: %s"
          % (blockwise, b.seen, b.token_live(), b.req.observation.cancelled))
    return not b.req.observation.cancelled

bad = [asyncio.run(main(bw)) for bw in (False, True)]
if any(bad):
    print("REPRODUCED: 4.04 carrying an Observe option is delivered as a notification, the observation is not ended")
    raise SystemExit(1)
