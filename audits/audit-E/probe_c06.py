from c06_lib import *
import aiocoap
POST=aiocoap.POST; GET=aiocoap.GET
w=World()
print("A: oversize block 0 with M=1, then NUM=2")
show("b0", w.request(w.mk(POST, b"A"*32, b1=(0,True,0))))
show("b2", w.request(w.mk(POST, b"C"*5, b1=(2,False,0))))
print(w.seen); w.seen.clear()
print("A2: short block 0 with more (5 bytes), then NUM=1")
show("b0", w.request(w.mk(POST, b"A"*5, b1=(0,True,0), port=40002)))
show("b1", w.request(w.mk(POST, b"C"*5, b1=(1,False,0), port=40002)))
print(w.seen); w.seen.clear()
print("B: block0 carries Block2 NUM=1; final carries none")
big = lambda req: Message(code=aiocoap.CHANGED, payload=bytes(range(100)))
w.handler=big
show("old0", w.request(w.mk(POST, b"old", b2=(0,False,0), port=40003)))
print(w.seen); w.seen.clear()
show("b0", w.request(w.mk(POST, b"N"*16, b1=(0,True,0), b2=(1,False,0), port=40003)))
show("b1", w.request(w.mk(POST, b"N"*3, b1=(1,False,0), port=40003)))
print(w.seen); w.seen.clear()
