from c15_lib import *
import random
rng=random.Random(5)
# 1. Ping with one elective option
bad={}
for num in list(range(0,600,2))+[2048,65000]:
    for trial in range(25):
        v=bytes(rng.randrange(256) for _ in range(rng.choice([0,1,2,3,4,5,8,9])))
        ev,conn,tr,_=session([frame(CSM)+frame(PING,b"tk",[(num,v)])])
        kinds=[e[0] for e in ev]
        pong=[e for e in ev[1:] if e[0]=="W" and e[1][1:2]==bytes([PONG])]
        if not pong or tr.closed:
            bad.setdefault(num,(v.hex(),describe(ev[1:])))
print("Ping + elective option not answered by Pong:", {k:v for k,v in bad.items()})
# 2. requests with arbitrary single option after CSM
bad2={}
for num in list(range(0,2100)):
    for trial in range(6):
        v=bytes(rng.randrange(256) for _ in range(rng.choice([0,1,2,3,4,5,8,9,13])))
        ev,conn,tr,_=session([frame(CSM)+frame(1,b"t",[(num,v)],b"pl")+frame(69,b"u",[],b"x")])
        ex=[e for e in ev if e[0]=="EXC"]
        if ex: bad2.setdefault(num,(v.hex(),ex))
print("exceptions escaping:", bad2)
