"""audit-E C07: real Context + TokenManager + Request / BlockwiseRequest over a fake token interface
(no message layer, no sockets); responses go to TokenManager.process_response."""
import sys, asyncio, logging, warnings
sys.path.insert(0, "/repo"); sys.path.insert(1, "/verif/harness/shims")
warnings.simplefilter("ignore")
import aiocoap
from aiocoap import Message, error
from aiocoap.tokenmanager import TokenManager
import aiocoap.protocol as P

for n in ("coap", "coap-server"):
    logging.getLogger(n).addHandler(logging.NullHandler()); logging.getLogger(n).propagate = False


class FakeRemote:
    is_multicast = False
    is_multicast_locally = False
    hostinfo = "peer.example"
    hostinfo_local = "me.example"
    scheme = "coap"
    maximum_block_size_exp = 6
    maximum_payload_size = 1124
    blockwise_key = "k"
    uri_base = "coap://peer.example"
    def as_response_address(self):
        return self


class FakeTI:
    def __init__(self):
        self.sent = []; self.monitors = []
    def send_message(self, message, messageerror_monitor):
        self.sent.append(message); self.monitors.append(messageerror_monitor)
        return None
    async def recognize_remote(self, message):
        return True
    async def determine_remote(self, message):
        return None
    async def shutdown(self):
        pass


class Clock:
    """stands in for the `time` module as seen from aiocoap.protocol"""
    def __init__(self):
        self.now = 1000.0
    def time(self):
        return self.now


async def turn(n=8):
    for _ in range(n):
        await asyncio.sleep(0)


class Bench:
    def __init__(self, blockwise):
        self.loop = asyncio.get_running_loop()
        self.loop_errors = []
        self.loop.set_exception_handler(lambda l, c: self.loop_errors.append("%s: %r" % (c.get("message"), c.get("exception"))))
        self.clock = Clock()
        P.time = self.clock
        self.ctx = aiocoap.Context(loop=self.loop, serversite=None)
        self.tman = TokenManager(self.ctx)
        self.ti = FakeTI()
        self.tman.token_interface = self.ti
        self.ctx.request_interfaces.append(self.tman)
        self.remote = FakeRemote()
        msg = Message(code=aiocoap.GET, observe=0, uri_path=("obs",))
        msg.remote = self.remote
        self.req = self.ctx.request(msg, handle_blockwise=blockwise)
        self.seen = []
        self.escaped = []

    def use_callbacks(self):
        self.req.observation.register_callback(lambda m: self.seen.append(("item", str(m.code), m.opt.observe, bytes(m.payload))), _suppress_deprecation=True)
        self.req.observation.register_errback(lambda e: self.seen.append(("errback", repr(e))), _suppress_deprecation=True)

    def use_iter(self):
        async def consume():
            try:
                async for m in self.req.observation:
                    self.seen.append(("item", str(m.code), m.opt.observe, bytes(m.payload)))
                self.seen.append(("stop",))
            except Exception as e:
                self.seen.append(("raise", repr(e)))
        self.consumer = self.loop.create_task(consume())

    def respond(self, to, code, payload=b"", **opts):
        """a response on the token of sent request `to` (index into ti.sent)"""
        m = Message(code=code, payload=payload)
        for k, v in opts.items():
            setattr(m.opt, k, v)
        m.token = self.ti.sent[to].token
        m.remote = self.remote
        try:
            return self.tman.process_response(m)
        except Exception as e:
            self.escaped.append(repr(e))
            return "escaped"

    def token_live(self, idx=0):
        return (self.ti.sent[idx].token, self.remote) in self.tman.outgoing_requests
