"""C06 (doubtful): the assembled request keeps the Block2 option of the FIRST Block1 block when the
final block carries none (message.py _append_request_block copies block2 only if the final block
has one).  A complete upload whose final request has NO Block2 option (= a request for the
beginning of the response) is then not handed to the handler at all; it is answered 2.04 + Block1
(final) + a Block2 NUM=1 slice of the rendering made for an OLDER body -- or 4.08 if none is kept.
Property text: every Block2 response is a slice of the rendering made for the latest request for
the beginning.  /verif oracle excuses this with cand_b2.append(a['first_b2']) (props/C06.py:337);
the generator only ever puts Block2 NUM=0 on Block1 requests, so the effect is never produced.
exit 1 = reproduced."""
import warnings; warnings.simplefilter("ignore")
from c06_lib import World, show, Message
import aiocoap

w = World(handler=lambda req: Message(code=aiocoap.CHANGED, payload=bytes(range(100))))
r = w.request(w.mk(aiocoap.POST, b"old body", b2=(0, False, 0)))
show("POST 'old body', Block2 0/0/0", r)
n_old = len(w.seen)
r = w.request(w.mk(aiocoap.POST, b"N" * 16, b1=(0, True, 0), b2=(1, False, 0)))
show("POST new body block 0 (M=1) + Block2 1/0/0", r)
r = w.request(w.mk(aiocoap.POST, b"N" * 3, b1=(1, False, 0)))
show("POST new body block 1 (final), NO Block2", r)
print("  handler invocations for the new body:", w.seen[n_old:])
w.close()
if not w.seen[n_old:] and r.code.is_successful():
    print("REPRODUCED: complete new body acknowledged (%s, Block1 %s) but never handed to the handler; "
          "response is Block2 %s of the rendering of the OLD body" % (r.code, r.opt.block1, r.opt.block2))
    raise SystemExit(1)
print("ok")
