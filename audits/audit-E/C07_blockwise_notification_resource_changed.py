"""C07 (default API, anchor 'BlockwiseRequest._run_observation forwards completed notifications'):
'The observation ends exactly once: as not observable ..., with the final response followed by a
cancellation signal when a response without Observe arrives, and with a network error on transport
failure' and 'the freshest notification that arrives is eventually delivered'.

Server sends notification N1 (Observe 2, ETag a, Block2 0/M); the client fetches block 1; the
resource changes meanwhile: N2 (Observe 3, ETag b, Block2 0/M) arrives and block 1 is answered
from the new state (ETag b) -- what RFC 7959 2.4 / RFC 7641 expect from a changing resource.
aiocoap ends the APPLICATION's observation with error.ResourceChanged (no final response from the
server, no transport failure); N2 and the later plain N3 (Observe 4) are never handed over.
/verif: level (c) never generates Block2 in notifications, _run_observation is 'oracle only'.
exit 1 = violated."""
from c07_lib import *

async def main(consumer):
    b = Bench(True); await turn()
    getattr(b, consumer)()
    b.respond(0, aiocoap.CONTENT, b"v1", observe=1); await turn()
    n = len(b.ti.sent)
    b.respond(0, aiocoap.CONTENT, b"A" * 16, observe=2, etag=b"a", block2=(0, True, 0)); await turn()
    assert len(b.ti.sent) == n + 1 and b.ti.sent[n].opt.block2.block_number == 1
    b.respond(0, aiocoap.CONTENT, b"B" * 16, observe=3, etag=b"b", block2=(0, True, 0)); await turn()
    b.respond(n, aiocoap.CONTENT, b"B" * 4, etag=b"b", block2=(1, False, 0)); await turn()
    for i in range(n + 1, len(b.ti.sent)):   # any further block requests are answered from state b
        b.respond(i, aiocoap.CONTENT, b"B" * 4, etag=b"b", block2=(1, False, 0)); await turn()
    b.respond(0, aiocoap.CONTENT, b"C" * 5, observe=4, etag=b"c"); await turn()
    print(consumer, "application saw:", b.seen, "escaped:", b.escaped, b.loop_errors)
    items = [s for s in b.seen if s[0] == "item"]
    ended = [s for s in b.seen if s[0] in ("errback", "raise", "stop")]
    return bool(ended) or not items or items[-1][2] != 4

bad = [asyncio.run(main(c)) for c in ("use_callbacks", "use_iter")]
if any(bad):
    print("VIOLATED: observation ended by the client itself (ResourceChanged) although the server keeps "
          "notifying; the freshest notifications (Observe 3, 4) were never delivered")
    raise SystemExit(1)
print("ok")
