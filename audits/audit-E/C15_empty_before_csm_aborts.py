"""C15 (doubtful, probably a legitimate reading): 'Empty messages are ignored' is unconditional in
the property text (RFC 8323 3.3: 'Empty messages (Code 0.00) can always be sent and MUST be ignored
by the recipient'); the gate clause only speaks of requests and responses.  An empty message that
arrives before the peer's CSM is answered with Abort 'No CSM received' and close.
/verif: C15_empty_ignored has hypothesis c.csm != none; C15_message_before_csm_aborts names the
empty message explicitly; oracle: `elif code == 0` is only reached when csm is set.
exit 1 = empty message not ignored."""
from c15_lib import *

ev, conn, tr, _ = session([frame(0) + frame(CSM) + frame(1, b"t", [(11, b"a")])])
print("empty, CSM, GET ->", describe(ev[1:]))
if tr.closed:
    print("REPRODUCED: empty message before the CSM aborts the connection")
    raise SystemExit(1)
