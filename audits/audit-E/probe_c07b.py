from c07_lib import *
async def b3(consumer, etag2):
    b = Bench(True); await turn()
    getattr(b, consumer)()
    b.respond(0, aiocoap.CONTENT, b"v1", observe=1); await turn()
    n=len(b.ti.sent)
    print(" N1 (Observe 2, ETag a, Block2 0/M/0) ->", b.respond(0, aiocoap.CONTENT, b"A"*16, observe=2, etag=b"a", block2=(0,True,0))); await turn()
    print(" requests sent since:", [(str(m.code), m.opt.block2, m.opt.observe) for m in b.ti.sent[n:]])
    # resource changes now; N2 arrives, then the answer to the block-1 request (already of the new state)
    print(" N2 (Observe 3, ETag b, Block2 0/M/0) ->", b.respond(0, aiocoap.CONTENT, b"B"*16, observe=3, etag=b"b", block2=(0,True,0))); await turn()
    print(" block 1 reply (ETag %r) ->" % etag2, b.respond(n, aiocoap.CONTENT, b"B"*4, etag=etag2, block2=(1,False,0))); await turn()
    print(" seen:", b.seen, "lower token live:", b.token_live(0), "cancelled:", b.req.observation.cancelled)
    n2=len(b.ti.sent)
    print(" requests:", [(str(m.code), m.opt.block2, m.opt.observe) for m in b.ti.sent[n+1:]])
    if n2>n+1:
        print(" block 1 reply for N2 ->", b.respond(n+1, aiocoap.CONTENT, b"B"*4, etag=b"b", block2=(1,False,0))); await turn()
    print(" N3 (Observe 4) ->", b.respond(0, aiocoap.CONTENT, b"C"*5, observe=4, etag=b"c")); await turn()
    print(" seen:", b.seen, b.escaped, b.loop_errors)
for c in ("use_callbacks","use_iter"):
    for e in (b"b", b"a"):
        print("B3", c, e); asyncio.run(b3(c, e))
