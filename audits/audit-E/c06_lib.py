"""Minimal socket-less driver for the block-wise server machinery of /repo (audit-E, C06).

Real code driven: resource.Resource.render_to_pipe -> interfaces.Resource._render_to_pipe ->
Block1Spool / Block2Cache / TimeoutDict, behind the real pipe.error_to_message.
Requests are encoded and re-parsed with Message.decode(wire, remote) on a real
UDP6EndpointAddress.  A virtual clock lets timers fire at their deadline.
"""
import sys
import asyncio
import logging

sys.path.insert(0, "/repo")
sys.path.insert(1, "/verif/harness/shims")

import aiocoap  # noqa: E402
from aiocoap import Message, resource  # noqa: E402
from aiocoap.pipe import Pipe, error_to_message  # noqa: E402
from aiocoap.transports.udp6 import UDP6EndpointAddress  # noqa: E402

LOG = logging.getLogger("audit-E-c06")
LOG.addHandler(logging.NullHandler())
LOG.propagate = False


class _NullSelector:
    def select(self, timeout=None):
        return []

    def close(self):
        pass


class VLoop(asyncio.BaseEventLoop):
    def __init__(self):
        super().__init__()
        self._now = 0.0
        self._selector = _NullSelector()

    def time(self):
        return self._now

    def _process_events(self, event_list):
        pass

    def _write_to_self(self):
        pass

    async def sleep_virtual(self, dt):
        target = self._now + dt
        while True:
            live = [h._when for h in self._scheduled if not h._cancelled]
            w = min(live) if live else None
            if w is None or w > target:
                break
            self._now = max(self._now, w)
            await asyncio.sleep(0)
            await asyncio.sleep(0)
        self._now = target


class Iface:
    pass


class World:
    def __init__(self, handler=None):
        self.loop = VLoop()
        self.seen = []
        self.handler = handler
        world = self

        class R(resource.Resource):
            async def render(self, request):
                world.seen.append((str(request.code), bytes(request.payload), request.opt.block1, request.opt.block2))
                if world.handler is not None:
                    r = world.handler(request)
                    if asyncio.iscoroutine(r):
                        r = await r
                    return r
                return Message(code=aiocoap.CHANGED, payload=b"ok:%d" % len(request.payload))

        self.res = R()
        self.iface = Iface()
        self._mid = 0

    def remote(self, port=40001, host="2001:db8::1"):
        return UDP6EndpointAddress((host, port, 0, 0), self.iface)

    def mk(self, code, payload=b"", b1=None, b2=None, port=40001, path=("r",), **opt):
        self._mid += 1
        m = Message(code=code, payload=payload, mtype=aiocoap.CON, mid=self._mid, token=bytes([self._mid & 0xFF]))
        m.opt.uri_path = path
        if b1 is not None:
            m.opt.block1 = b1
        if b2 is not None:
            m.opt.block2 = b2
        for k, v in opt.items():
            setattr(m.opt, k, v)
        return Message.decode(m.encode(), self.remote(port))

    async def arequest(self, msg, res=None):
        res = res or self.res
        events = []
        outer = Pipe(msg, LOG)
        outer.on_event(lambda e: (events.append(e), not e.is_last)[1])
        inner = error_to_message(outer, LOG)
        try:
            await res.render_to_pipe(inner)
        except Exception as e:
            inner.add_exception(e)
        msgs = [e.message for e in events if e.message is not None]
        assert len(msgs) == 1, events
        return msgs[0]

    def request(self, msg, res=None):
        return self.loop.run_until_complete(self.arequest(msg, res))

    def idle(self, dt):
        self.loop.run_until_complete(self.loop.sleep_virtual(dt))

    def close(self):
        for h in list(self.loop._scheduled):
            h.cancel()
        self.loop.close()


def show(tag, r):
    print(f"  {tag}: {r.code} block1={r.opt.block1} block2={r.opt.block2} payload[{len(r.payload)}]={r.payload[:24]!r}")
