import warnings; warnings.simplefilter("ignore")
from c06_lib import *
import aiocoap, random
from aiocoap.numbers.optionnumbers import OptionNumber
from aiocoap.optiontypes import OpaqueOption
POST=aiocoap.POST
rng=random.Random(1)
w=World()
bad={}
for n in list(range(1,80))+[252,258,259,292,2048,2049,65000]:
    if n in (23,27): continue
    for trial in range(12):
        v=bytes(rng.randrange(256) for _ in range(rng.choice([0,1,2,3,4,8,9,13])))
        m = Message(code=POST, payload=b"A"*16, mtype=aiocoap.CON, mid=1, token=b"x")
        m.opt.block1=(0,True,0)
        m.opt.add_option(OpaqueOption(OptionNumber(n), v))
        try:
            wire=m.encode()
            req=Message.decode(wire, w.remote())
        except Exception as e:
            continue
        try:
            r=w.request(req)
        except Exception as e:
            bad[(n,type(e).__name__)]=(v.hex(),repr(e)); continue
        if r.code.class_==5:
            bad[(n,str(r.code))]=(v.hex(), r.payload)
        m2 = Message(code=POST, payload=b"B"*3, mtype=aiocoap.CON, mid=2, token=b"y")
        m2.opt.block1=(1,False,0)
        m2.opt.add_option(OpaqueOption(OptionNumber(n), v))
        req2=Message.decode(m2.encode(), w.remote())
        r=w.request(req2)
        if r.code.class_==5:
            bad[(n,str(r.code),'final')]=(v.hex(), r.payload)
print(bad)
