"""C07 (minor): 'ends ... with a network error on transport failure'.  When the request is answered
with a Reset, TokenManager.request hands `error.MessageError` -- the CLASS -- to the pipe
(tokenmanager.py: `lambda: request.add_exception(error.MessageError)`).  The errbacks of the
observation receive the class object; isinstance(e, NetworkError) is False, Request._run logs
'not an aiocoap Error'.  The harness compares names via `_name(e)` / `exc_name`, which accept a
class as well as an instance.  exit 1 = errback argument is not an exception instance."""
from c07_lib import *

async def main():
    b = Bench(False); await turn()
    got = []
    b.req.observation.register_errback(got.append, _suppress_deprecation=True)
    b.ti.monitors[0]()          # what the message layer calls when the request is Reset
    await turn()
    print("errback got:", got, "| response future:", repr(b.req.response.exception()))
    return not (got and isinstance(got[0], error.NetworkError))

if asyncio.run(main()):
    print("REPRODUCED: the errback is handed the class aiocoap.error.MessageError, not an instance")
    raise SystemExit(1)
