"""audit-E C15: the real TcpConnection / _TCPPooling over a fake asyncio.Transport and a recording
token manager (no sockets).  Frames are built by an own RFC 8323 3.2 / RFC 7252 3.1 encoder."""
import sys, asyncio, logging, warnings
sys.path.insert(0, "/repo"); sys.path.insert(1, "/verif/harness/shims")
warnings.simplefilter("ignore")
from aiocoap.transports import tcp

LOG = logging.getLogger("audit-E-c15"); LOG.addHandler(logging.NullHandler()); LOG.propagate = False


def ext(n):
    if n < 13: return n, b""
    if n < 269: return 13, bytes([n - 13])
    return 14, (n - 269).to_bytes(2, "big")


def options(opts):
    out = bytearray(); last = 0
    for num, val in opts:
        dn, de = ext(num - last); ln, le = ext(len(val))
        out.append(dn << 4 | ln); out += de + le + val; last = num
    return bytes(out)


def frame(code, token=b"", opts=(), payload=b""):
    body = options(opts) + (b"\xff" + payload if payload else b"")
    n = len(body)
    if n <= 12: head = bytes([n << 4 | len(token)])
    elif n <= 268: head = bytes([13 << 4 | len(token), n - 13])
    elif n <= 65804: head = bytes([14 << 4 | len(token)]) + (n - 269).to_bytes(2, "big")
    else: head = bytes([15 << 4 | len(token)]) + (n - 65805).to_bytes(4, "big")
    return head + bytes([code]) + token + body


CSM, PING, PONG, RELEASE, ABORT = 225, 226, 227, 228, 229


class FakeTransport(asyncio.Transport):
    def __init__(self, events):
        super().__init__(); self.events = events; self.closed = False
    def write(self, data): self.events.append(("W", bytes(data)))
    def close(self): self.events.append(("C",)); self.closed = True
    def abort(self): self.events.append(("ABORT",)); self.closed = True
    def is_closing(self): return self.closed
    def get_extra_info(self, name, default=None):
        return {"sockname": ("2001:db8::1", 5683, 0, 0), "peername": ("2001:db8::2", 40000, 0, 0)}.get(name, default)


class RecTM:
    def __init__(self, events): self.events = events
    def process_request(self, msg):
        self.events.append(("Q", int(msg.code), bytes(msg.token), [(int(o.number), bytes(o.encode())) for o in msg.opt.option_list()], bytes(msg.payload)))
    def process_response(self, msg):
        self.events.append(("R", int(msg.code), bytes(msg.token), [(int(o.number), bytes(o.encode())) for o in msg.opt.option_list()], bytes(msg.payload)))
        return True
    def dispatch_error(self, exc, remote): self.events.append(("E", repr(exc)))


def session(chunks, client=False, tokenmanager=None):
    events = []
    pool = tcp.TCPClient() if client else tcp.TCPServer()
    pool._tokenmanager = tokenmanager or RecTM(events)
    pool.log = LOG
    conn = tcp.TcpConnection(pool, LOG, None, is_server=not client)
    if client: pool._pool[("2001:db8::2", 40000)] = conn
    else: pool._pool.add(conn)
    tr = FakeTransport(events)
    conn.connection_made(tr)
    for ch in chunks:
        if tr.closed: break
        try:
            conn.data_received(ch)
        except Exception as e:
            events.append(("EXC", repr(e))); break
    return events, conn, tr, pool


def describe(events):
    out = []
    for e in events:
        if e[0] == "W":
            b = e[1]
            code = b[1] if (b[0] >> 4) < 13 else b[2] if (b[0] >> 4) == 13 else None
            out.append("W(%s %s)" % ({225: "CSM", 227: "Pong", 229: "Abort"}.get(code, code), b.hex()[:70]))
        else:
            out.append(repr(e))
    return out
