#!/venv/bin/python
"""C15 / fix 8166e3f, neighbouring inputs: every signalling code x token length 0..8 x option bodies, first message and
after a CSM, whole and byte by byte, in a process with warnings as errors; plus requests / responses / empty messages
with tokens.  Expected from the property: nothing escapes data_received; Ping (no critical option) -> Pong with the
same token; a request/response before the CSM -> Abort + close; empty message ignored.
Uses the reviewer's c15_harness (RFC 8323 framer written from the RFC, fake transport). exit 1 = violation."""
import sys
import warnings

sys.path.insert(0, "/repo")
sys.path.insert(1, "/verif/seeded/C15-8")
from aiocoap.transports import tcp  # noqa: E402
import c15_harness as H  # noqa: E402

bad = []
n = 0


def opt(delta, value):
    def nib(x):
        if x < 13:
            return x, b""
        if x < 269:
            return 13, bytes([x - 13])
        return 14, (x - 269).to_bytes(2, "big")
    d, de = nib(delta)
    l, le = nib(len(value))
    return bytes([(d << 4) | l]) + de + le + value


BODIES = {
    "none": b"",
    "elective-10": opt(10, b"\xff\xfe"),
    "elective-2-9bytes": opt(2, b"\x01" * 9),
    "elective-8-nonutf8": opt(8, b"\xff"),
    "elective-66000": opt(65804, b"") + opt(196, b"x"),
    "two-deltas-65804": opt(65804, b"a") + opt(65804, b"b"),
    "payload": b"\xffdiagnostic",
    "critical-1": opt(1, b""),
    "critical-65805": opt(65804, b"") + opt(1, b"z"),
}

for code in (0xE1, 0xE2, 0xE3, 0xE4, 0xE5, 0xE6, 0xFF, 0x00, 0x01, 0x45):
    for tkl in range(0, 9):
        token = bytes(range(0x10, 0x10 + tkl))
        for bname, body in BODIES.items():
            if code < 0xE0 and bname not in ("none", "payload"):
                continue
            for after_csm in (False, True):
                for cut in ("whole", "bytes"):
                    n += 1
                    with warnings.catch_warnings():
                        warnings.simplefilter("error")
                        conn, ctx, tr = H.make_connection(tcp)
                        own = len(tr.written)
                        stream = (H.rfc_frame(0xE1) if after_csm else b"") + H.rfc_frame(code, token, body)
                        chunks = [stream] if cut == "whole" else [stream[i:i + 1] for i in range(len(stream))]
                        exc = None
                        try:
                            for c in chunks:
                                if tr.closed:
                                    break
                                conn.data_received(c)
                        except BaseException as e:  # noqa
                            exc = e
                    name = "code %#04x tkl %d %s %s %s" % (code, tkl, bname, "after-csm" if after_csm else "first", cut)
                    frames, rest = H.rfc_split(tr.written[own:])
                    if exc is not None:
                        bad.append((name, "data_received raised %r" % (exc,)))
                        continue
                    critical = bname.startswith("critical")
                    if code == 0xE2 and not critical:
                        if frames != [(0xE3, token, b"")] or tr.closed:
                            bad.append((name, "Ping not answered by Pong with its token: wrote %r closed %s" % (frames, tr.closed)))
                    elif code in (0xE1, 0xE3) and not critical:
                        if frames or tr.closed or ctx.dispatched:
                            bad.append((name, "CSM/Pong without critical option: wrote %r closed %s" % (frames, tr.closed)))
                    elif code in (0xE4, 0xE5) and not critical:
                        if frames or not tr.closed or ctx.dispatched:
                            bad.append((name, "Release/Abort: wrote %r closed %s" % (frames, tr.closed)))
                    elif code >= 0xE0:
                        # critical option or unknown signalling code: Abort and close
                        if [f[0] for f in frames] != [0xE5] or not tr.closed or ctx.dispatched:
                            bad.append((name, "expected exactly Abort+close: wrote %r closed %s" % (frames, tr.closed)))
                    elif code == 0:
                        if frames or tr.closed or ctx.dispatched:
                            bad.append((name, "empty message not ignored: wrote %r closed %s dispatched %r" % (frames, tr.closed, ctx.dispatched)))
                    else:
                        if after_csm:
                            ok = (not frames and not tr.closed and len(ctx.dispatched) == 1
                                  and ctx.dispatched[0].token == token and int(ctx.dispatched[0].code) == code
                                  and ctx.dispatched[0].payload == (b"diagnostic" if bname == "payload" else b""))
                            if not ok:
                                bad.append((name, "request/response not dispatched as sent: %r wrote %r" % (ctx.dispatched, frames)))
                        else:
                            if [f[0] for f in frames] != [0xE5] or not tr.closed or ctx.dispatched:
                                bad.append((name, "before CSM: expected Abort+close, wrote %r closed %s dispatched %r" % (frames, tr.closed, ctx.dispatched)))

print("sessions:", n, "violations:", len(bad))
for b in bad[:25]:
    print("  ", b)
sys.exit(1 if bad else 0)
