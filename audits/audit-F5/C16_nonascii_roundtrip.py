#!/venv/bin/python
"""C16 after 475050d: random registered names with raw and escaped non-ASCII characters (incl. the characters that
str.lower()/casefold/NFKC change) -- (1) raw and fully escaped spelling give the same Uri-Host; (2) the Uri-Host is
the decoded text with only A-Z lower-cased (own implementation); (3) get_request_uri is pure ASCII / URI characters,
is accepted again and gives the same options and the same text (fixed point); (4) two different Uri-Hosts never
compose to the same URI.  exit 1 on violation."""
import random
import sys
import unicodedata

sys.path.insert(0, "/repo")
from aiocoap import Message, GET  # noqa: E402
from aiocoap.error import MalformedUrlError, IncompleteUrlError  # noqa: E402

rng = random.Random(5)
SPECIAL = ["K", "İ", "Ä", "ä", "Σ", "ς", "ẞ", "ß", "ﬁ", "١", "Ａ",
           "Ⅰ", "\U00010400", "ǅ", "Ω", "µ", "ſ", "。", "．", "­", "‍", "ͅ",
           "ᾼ", "Å", "Å", "Å", "퟿", "", "\U0010ffff", "\u0080", " "]
ASCII = list("aAbBkKiIzZ09-._~!$&'()*+,;=")
URICHARS = set("abcdefghijklmnopqrstuvwxyzABCDEFGHIJKLMNOPQRSTUVWXYZ0123456789-._~!$&'()*+,;=:@/?%[]")


def nfkc_bad(s):
    return any(c in unicodedata.normalize("NFKC", s) for c in "/?#@:")


def own_lower(s):
    return "".join(chr(ord(c) + 32) if "A" <= c <= "Z" else c for c in s)


def esc_all(s):
    return "".join("%%%02X" % b for b in s.encode("utf-8"))


def esc_nonascii(s):
    return "".join(c if ord(c) < 128 else esc_all(c) for c in s)


def decomp(u):
    m = Message(code=GET)
    m.set_request_uri(u)
    return m


bad = []
seen = {}
n = 0
for _ in range(60000):
    k = rng.randint(1, 6)
    host = "".join(rng.choice(SPECIAL if rng.random() < 0.5 else ASCII) for _ in range(k))
    if nfkc_bad(host):
        continue
    # dotted quads of ASCII digits are literals; skip those few
    port = rng.choice(["", ":5683", ":1", ":"])
    path = rng.choice(["", "/", "/a/%C3%84?x=%E2%84%AA"])
    want = own_lower(host)
    res = []
    for spelling in (host, esc_nonascii(host), esc_all(host)):
        u = "coap://" + spelling + port + path
        try:
            m = decomp(u)
        except (MalformedUrlError, IncompleteUrlError) as e:
            res.append(("rej", type(e).__name__))
            continue
        res.append(("ok", m.opt.uri_host))
        n += 1
        if m.opt.uri_host is None:
            import re
            if not re.fullmatch(r"[0-9.]+", host):
                bad.append((u, "no Uri-Host for a name"))
            continue
        if m.opt.uri_host != want:
            bad.append((u, "Uri-Host %r, expected %r" % (m.opt.uri_host, want)))
        c = m.get_request_uri()
        if not set(c) <= URICHARS:
            bad.append((u, "composed URI has non-URI characters: %r" % c))
        try:
            m2 = decomp(c)
        except Exception as e:
            bad.append((u, "composed %r rejected: %r" % (c, e)))
            continue
        if (m2.opt.uri_host, m2.opt.uri_path, m2.opt.uri_query, m2.remote.scheme) != \
                (m.opt.uri_host, m.opt.uri_path, m.opt.uri_query, m.remote.scheme):
            bad.append((u, "composed %r decomposes to other options: %r" % (c, m2.opt)))
        if m2.get_request_uri() != c:
            bad.append((u, "not a fixed point: %r -> %r" % (c, m2.get_request_uri())))
        key = (c,)
        val = (m.opt.uri_host, port.strip(":") or "", m.opt.uri_path, m.opt.uri_query)
        if seen.setdefault(key, val) != val:
            bad.append((u, "collision: %r from %r and %r" % (c, seen[key], val)))
    kinds = {r[0] for r in res}
    if len(kinds) > 1 or len({r for r in res}) > 1:
        bad.append((host, "spellings disagree: %r" % (res,)))

print("accepted decompositions:", n, "violations:", len(bad))
for b in bad[:20]:
    print("  ", b)
sys.exit(1 if bad else 0)
