import sys
sys.path.insert(0, "/repo")
from aiocoap import Message, GET
import warnings; warnings.simplefilter("ignore")
for u in ["coap://h/a%23b", "coap://h/a?b=%23", "coap://h%23x/", "coap://[fe80::1%25eth0]/x", "coap://[fe80::1%eth0]/x",
          "coap://[fe80::1%25a#b]/", "coap://[fe80::1%25a%23b]/", "coap://[fe80::1%2523]/", "coap://h/a#", "coap://h#", "coap://h/#/",
          "#", "a#", "coap:#", "http://h/x#", "http://h/x#f", "coap://h/a\t#", "coap://h/a＃", "coap://h＃/", "coap://h/%ef%bc%83",
          "coap://h/a?b#", "coap://h?#", " coap://h/a", "coap://h/a%2523"]:
    for how in ("set", "ctor", "copy"):
        try:
            if how == "set":
                m = Message(code=GET); m.set_request_uri(u)
            elif how == "ctor":
                m = Message(code=GET, uri=u)
            else:
                m = Message(code=GET).copy(uri=u)
            r = ("ok", m.opt.uri_host, m.remote, m.opt.uri_path, m.opt.uri_query, m.opt.proxy_uri)
            try:
                r += (m.get_request_uri(),)
            except Exception as e:
                r += ("get:"+type(e).__name__,)
        except Exception as e:
            r = ("err", type(e).__name__, str(e)[:60])
        print("%-32r %-5s %r" % (u, how, r))
