#!/venv/bin/python
"""C15 harness judge_P abstains ("C01's domain") for outgoing messages with an option delta or value length >= 65804 --
a stale excuse since C01's off-by-one was fixed.  Check the code there: _serialize of a message with option number
65804 / 131608 (two deltas of 65804) and a 65804-byte value must be the RFC 8323 frame and decode back. exit 1 if not."""
import sys
sys.path.insert(0, "/repo"); sys.path.insert(1, "/verif/seeded/C15-8")
from aiocoap import Message, GET
from aiocoap.transports import tcp
from aiocoap import optiontypes
from aiocoap.numbers.optionnumbers import OptionNumber
import c15_harness as H
bad = 0
for nums, vlen in (((65804,), 1), ((65804, 131608), 0), ((65805,), 3), ((300,), 65804), ((300,), 65805)):
    m = Message(code=GET)
    for n in nums:
        m.opt.add_option(optiontypes.OpaqueOption(OptionNumber(n), b"v" * vlen))
    m.token = b"\x01\x02"
    try:
        raw = tcp._serialize(m)
    except Exception as e:
        representable = vlen <= 65804 and all(b - a <= 65804 for a, b in zip((0,) + nums, nums))
        print(nums, vlen, "serialize raised", repr(e), "(not representable: fine)" if not representable else "WRONG"); bad += representable; continue
    frames, rest = H.rfc_split(raw)
    ok = len(frames) == 1 and rest == b"" and frames[0][0] == 1 and frames[0][1] == b"\x01\x02"
    back = tcp._decode_message(raw)
    got = [(int(o.number), len(o.value)) for o in back.opt.option_list()]
    ok = ok and got == [(n, vlen) for n in nums]
    print(nums, vlen, "frame ok" if ok else "WRONG", got)
    bad += 0 if ok else 1
sys.exit(1 if bad else 0)
