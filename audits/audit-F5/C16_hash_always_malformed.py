#!/venv/bin/python
"""C16 / 5e021bf: every text containing '#' is rejected with MalformedUrlError by all three entry points (nothing
else escapes), and texts whose only '#' is percent-encoded (%23) are not affected. exit 1 on violation."""
import random, sys
sys.path.insert(0, "/repo")
from aiocoap import Message, GET
from aiocoap.error import MalformedUrlError, IncompleteUrlError
rng = random.Random(11)
ALPH = ":/?#[]@%&=+.-~ \t\ncoapstw0123456789AZazé\x00＃%23" 
bad = []
n = 0
for _ in range(60000):
    if rng.random() < 0.5:
        s = "".join(rng.choice(ALPH) for _ in range(rng.randint(1, 25)))
    else:
        s = list(rng.choice(["coap://h/a", "coap://[fe80::1%25eth0]:1/x?y", "coaps+tcp://Ex.Example:7/%23?%23", "http://x/y", "//h/x", "coap:"]))
        for _ in range(rng.randint(1, 3)):
            s.insert(rng.randrange(len(s) + 1), rng.choice("#" * 5 + "/?%:"))
        s = "".join(s)
    outs = []
    for how in range(3):
        try:
            if how == 0:
                Message(code=GET).set_request_uri(s)
            elif how == 1:
                Message(code=GET, uri=s)
            else:
                Message(code=GET).copy(uri=s)
            outs.append("ok")
        except (MalformedUrlError, IncompleteUrlError) as e:
            outs.append(type(e).__name__)
        except Exception as e:
            outs.append("OTHER:" + type(e).__name__)
    n += 1
    if len(set(outs)) != 1 or outs[0].startswith("OTHER"):
        bad.append((s, outs))
    elif "#" in s and outs[0] != "MalformedUrlError":
        bad.append((s, outs))
print("texts", n, "violations", len(bad))
for b in bad[:10]:
    print("  ", b)
sys.exit(1 if bad else 0)
