#!/venv/bin/python
"""C07 / fix f9982d9: default (block-wise) API, the application gives up its observation at different moments and in
different ways; afterwards the server keeps sending CON notifications.

Expected from the property ("after the end nothing more is delivered and later notifications on that token are
rejected like unknown responses") with the stated allowance of one more notification after the application's own
cancel: from the SECOND notification after the give-up on, a CON notification is answered by RST and the token is
unknown to the token manager; nothing is delivered to the application after its cancel.
Also checks the converse (the fix must not cancel what the application still uses): an application that does NOT
cancel keeps receiving notifications, at every position, including after a failed Block2 fetch of one notification.

uses fakenet.py of the round-4 reviewer (/verif/seeded/C07-8). No sockets. exit 1 = violation.
"""
import asyncio
import gc
import logging
import sys
import warnings

sys.path.insert(0, "/repo")
sys.path.insert(1, "/verif/seeded/C07-8")
from aiocoap import Message, GET, CONTENT, NOT_FOUND  # noqa: E402
import fakenet  # noqa: E402

CON, NON, ACK, RST = 0, 1, 2, 3
bad = []


def verdict(name, ok, text):
    print("%-7s %-46s %s" % ("ok" if ok else "VIOLATED", name, text))
    if not ok:
        bad.append(name)


async def scenario(name, how, when, blockwise_first, blockwise_notif=False):
    """how: cancel | drop (del all references + gc) | respcancel | none ; when: position"""
    ctx, tman, mi = await fakenet.make_context()
    A = fakenet.FakeAddress("peer-" + name)
    req = Message(code=GET, observe=0, uri_path=("big",))
    req.remote = A
    o = ctx.request(req)
    delivered = []
    ended = []
    with warnings.catch_warnings():
        warnings.simplefilter("ignore")
        if how != "drop":
            o.observation.register_callback(lambda m: delivered.append(len(m.payload)))
            o.observation.register_errback(lambda e: ended.append(type(e).__name__))

    def give_up():
        nonlocal o
        if how == "cancel":
            o.observation.cancel()
        elif how == "respcancel":
            o.response.cancel()
        elif how == "drop":
            o = None
            gc.collect()

    await fakenet.settle()
    sent = mi.last_sent(A)
    token = sent.token
    if when == "before-first":
        give_up()
        await fakenet.settle()
    if blockwise_first:
        mi.inject(A, mtype=ACK, mid=sent.mid, token=token, code=CONTENT, observe=10, block2=(0, True, 6),
                  payload=b"x" * 1024)
        await fakenet.settle()
        blockreq = mi.last_sent(A)
        if when == "during-first-body":
            give_up()
            await fakenet.settle()
        if blockreq.opt.block2 is not None and blockreq.opt.block2.block_number == 1 and blockreq.token != token:
            mi.inject(A, mtype=ACK, mid=blockreq.mid, token=blockreq.token, code=CONTENT, block2=(1, False, 6),
                      payload=b"y" * 10)
    else:
        mi.inject(A, mtype=ACK, mid=sent.mid, token=token, code=CONTENT, observe=10, payload=b"x" * 10)
    if when == "right-after-response" and how != "drop" and how != "respcancel":
        r = await asyncio.wait_for(o.response, 1)
        give_up()  # no loop iteration in between: the common `await response; cancel()`
    elif when == "right-after-response":
        try:
            await asyncio.wait_for(asyncio.shield(o.response), 1)
        except BaseException:
            pass
        give_up()
    await fakenet.settle(10)
    if when == "after-settle":
        give_up()
        await fakenet.settle(10)
    n_before = len(delivered)

    replies = []
    obsval = 11
    for i in range(4):
        before = len(mi.sent)
        if blockwise_notif and i == 0 and when in ("during-notif-body", "none"):
            mi.inject(A, mtype=CON, mid=0x6000 + i, token=token, code=CONTENT, observe=obsval, block2=(0, True, 6),
                      payload=b"n" * 1024)
            await fakenet.settle()
            breq = mi.last_sent(A)
            if when == "during-notif-body":
                give_up()
                await fakenet.settle()
            if breq.opt.block2 is not None and breq.opt.block2.block_number == 1:
                # server answers the follow-up with an error reply: fetch fails, observation must survive
                mi.inject(A, mtype=ACK, mid=breq.mid, token=breq.token, code=NOT_FOUND, block2=(1, False, 6), payload=b"")
            await fakenet.settle()
        else:
            mi.inject(A, mtype=CON, mid=0x6000 + i, token=token, code=CONTENT, observe=obsval, payload=b"z" * (i + 1))
            await fakenet.settle()
        obsval += 1
        replies.append([str(m.mtype) for m in mi.sent[before:] if m.mtype in (ACK, RST)])
    still = any(k[0] == token for k in tman.outgoing_requests)
    after = delivered[n_before:]
    if how == "none":
        # converse: the application did not give up anything
        want = 3 if blockwise_notif else 4
        verdict(name, len(after) == want and not ended and still,
                "delivered after first %r (want %d), ended %r, token registered %s" % (after, want, ended, still))
    else:
        # (position during-notif-body: notification 0 arrived BEFORE the give-up, so the allowance covers number 1)
        first_after = 2 if when == "during-notif-body" else 1
        rst_from_second = all("RST" in r for r in replies[first_after:])
        nothing = (after == []) if how == "cancel" else True
        verdict(name, rst_from_second and not still and nothing,
                "replies %r, token registered %s, delivered after give-up %r, errbacks %r" % (replies, still, after, ended))
    await ctx.shutdown()


async def main():
    logging.basicConfig(level=logging.CRITICAL)
    for how in ("cancel", "drop", "respcancel"):
        for when in ("before-first", "during-first-body", "right-after-response", "after-settle", "during-notif-body"):
            for bwf in (True, False):
                if when == "during-first-body" and not bwf:
                    continue
                if how == "respcancel" and when not in ("before-first", "during-first-body"):
                    continue
                name = "%s/%s/%s" % (how, when, "bw" if bwf else "plain")
                try:
                    await asyncio.wait_for(scenario(name, how, when, bwf, blockwise_notif=(when == "during-notif-body")), 10)
                except Exception as e:
                    verdict(name, False, "scenario raised %r" % (e,))
    for bwf in (True, False):
        for bwn in (True, False):
            name = "none/%s/%s" % ("bw" if bwf else "plain", "bwnotif-fails" if bwn else "plainnotif")
            try:
                await asyncio.wait_for(scenario(name, "none", "none", bwf, blockwise_notif=bwn), 10)
            except Exception as e:
                verdict(name, False, "scenario raised %r" % (e,))


asyncio.run(main())
print("\nviolated:", bad)
sys.exit(1 if bad else 0)
