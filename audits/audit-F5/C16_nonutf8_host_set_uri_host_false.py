#!/venv/bin/python
"""C16, reviewer note N4 (round 4), still on HEAD and not listed among DESIGN.md's kept positions:
"Text that is not an acceptable CoAP URI (... non-UTF-8 escapes) is rejected with the documented URL errors".
With the public keyword set_uri_host=False (aiocoap-client --no-set-hostname, OSCORE/proxy code) the host's escapes are
never looked at: the text is accepted, kept as the destination, and the URI composed back from the message is one that
set_request_uri itself rejects.  exit 1 = accepted."""
import sys
sys.path.insert(0, "/repo")
from aiocoap import Message, GET
from aiocoap.error import MalformedUrlError

bad = 0
for u in ("coap://%ff%fe/", "coap://a%c3/x", "coap://%ED%A0%80:5683/"):
    for kw in ({}, {"set_uri_host": False}):
        m = Message(code=GET)
        try:
            m.set_request_uri(u, **kw)
        except MalformedUrlError:
            print("%-26r %-24r rejected (MalformedUrlError)" % (u, kw))
            continue
        back = m.get_request_uri()
        try:
            Message(code=GET).set_request_uri(back)
            again = "accepted"
        except MalformedUrlError:
            again = "REJECTED"
        print("%-26r %-24r ACCEPTED: remote %r, get_request_uri() %r, which set_request_uri: %s" % (u, kw, m.remote, back, again))
        bad += 1
sys.exit(1 if bad else 0)
