#!/venv/bin/python
"""C01 / fix 15d6d42 on a REAL kernel socket (run inside `unshare -n sh -c 'ip link set lo up; ...'`).

A real aiocoap udp6 server context on [::1]:5683 (and reached through 127.0.0.1 = v4-mapped); a raw UDP socket sends
well-formed CoAP NON POST datagrams of total size 4096, 4097, 8192, 65507 (IPv4 max), 65527 (UDP max) bytes.  The
resource answers with the payload length it saw.  Property (2nd sentence): every well-formed datagram is parsed into
the fields the RFC assigns: the handler must see exactly the payload sent.  exit 1 if any size is not answered or
answered with another length.
"""
import asyncio
import socket
import sys

sys.path.insert(0, "/repo")
sys.path.insert(1, "/verif/harness/shims")
import aiocoap  # noqa: E402
import aiocoap.resource as resource  # noqa: E402


class Len(resource.Resource):
    async def render_post(self, request):
        return aiocoap.Message(code=aiocoap.CHANGED, payload=b"%d:%d" % (len(request.payload), sum(request.payload) & 0xFFFF))


def datagram(total, mid):
    # NON (T=1) POST, TKL 2, Uri-Path "len", payload to fill
    head = bytes([0x52, 0x02, mid >> 8, mid & 255, 0xAB, mid & 255]) + bytes([0xB3]) + b"len" + b"\xff"
    pl = bytes((i * 7 + mid) & 255 for i in range(total - len(head)))
    return head + pl, pl


async def main():
    site = resource.Site()
    site.add_resource(["len"], Len())
    ctx = await aiocoap.Context.create_server_context(site, bind=("::1", 5683), transports=["udp6"])
    bad = 0
    loop = asyncio.get_running_loop()
    for fam, dest in ((socket.AF_INET6, ("::1", 5683)),):
        s = socket.socket(fam, socket.SOCK_DGRAM)
        s.setblocking(False)
        for i, total in enumerate((100, 4096, 4097, 8192, 65507, 65526, 65527)):
            d, pl = datagram(total, 0x1000 + i)
            try:
                s.sendto(d, dest)
            except OSError as e:
                print("size %5d: sendto failed: %r (not judged)" % (total, e))
                continue
            try:
                data = await asyncio.wait_for(loop.sock_recv(s, 65536), 2)
            except asyncio.TimeoutError:
                print("size %5d: NO ANSWER (datagram ignored by the udp6 transport)" % total)
                bad += 1
                continue
            m = aiocoap.Message.decode(data)
            want = b"%d:%d" % (len(pl), sum(pl) & 0xFFFF)
            ok = m.payload == want and m.code == aiocoap.CHANGED
            print("size %5d: answered %s %r (want %r) %s" % (total, m.code, m.payload, want, "ok" if ok else "WRONG"))
            bad += 0 if ok else 1
        s.close()
    await ctx.shutdown()
    sys.exit(1 if bad else 0)


asyncio.run(main())
