#!/venv/bin/python
"""C16 / fix 475050d: compare set_request_uri of the tree before the fix (8166e3f) and /repo HEAD.

For every text: outcome class, Uri-Host, remote.hostinfo, Uri-Path, Uri-Query must be the same
whenever the authority is pure ASCII (the fix claims to change only non-ASCII lower-casing).
Differences on ASCII authority text = the fix changed something it should not (exit 1).
Texts with '#' and the empty text are left out (5e021bf / 19285bd change those on purpose).
Runs each tree in a subprocess (module name clash), fed the same inputs by JSON.
"""
import json
import random
import subprocess
import sys

WORKER = r'''
import sys, json
sys.path.insert(0, sys.argv[1])
import aiocoap
from aiocoap import Message, GET
assert aiocoap.__file__.startswith(sys.argv[1]), aiocoap.__file__
texts = json.load(open(sys.argv[2]))
out = []
for t in texts:
    m = Message(code=GET)
    try:
        m.set_request_uri(t)
    except Exception as e:
        out.append(["err", type(e).__name__])
        continue
    r = m.remote
    out.append(["ok", m.opt.uri_host, getattr(r, "hostinfo", None), getattr(r, "scheme", None),
                list(m.opt.uri_path), list(m.opt.uri_query), m.opt.proxy_uri])
json.dump(out, open(sys.argv[3], "w"))
'''


def gen(rng):
    texts = []
    # 1. structure characters, each alone and in pairs, in the host position and around it
    structure = list(":/?@[]%.-_~!$&'()*+,;= \t\n\r\"<>\\^`{|}") + ["%41", "%3A", "%3a", "%40", "%5B", "%5D",
                 "%2F", "%25", "%00", "%C3%84", "%c3%a4", "%E2%84%AA", "%ff", "%zz", "%", "%4", "%4G"]
    for a in structure:
        for tmpl in ("coap://%s/", "coap://A%s/", "coap://%sB/", "coap://A%sB/", "coap://A%sB:7/p?q",
                     "coap://A:%s/", "coap://%s:5683/", "coap://A%s", "coap://%s", "COAP://Ab%sCd/x",
                     "coaps+tcp://X%sY:1/"):
            texts.append(tmpl % a)
        for b in structure:
            texts.append("coap://A%s%sB/" % (a, b))
            texts.append("coap://%s%s:1/" % (a, b))
    # 2. IPv6 literals with zones, ports, junk
    lits = ["::1", "fe80::1", "FE80::AbCd", "::ffff:1.2.3.4", "2001:DB8::1", "v1.fe", "V1.FE", "vF.a:b"]
    zones = ["", "%25eth0", "%eth0", "%25ETH0", "%25a-b_c.~", "%25a%20b", "%25a:b", "%25a#b", "%25%23", "%25a%23b",
             "%25a@b", "%25", "%", "%2561", "%25A%41"]
    for l in lits:
        for z in zones:
            for port in ("", ":", ":5683", ":0", ":65535", ":65536", ":abc", ":07"):
                for pre, post in (("", ""), ("a", ""), ("", "a"), ("u@", ""), ("@", "")):
                    texts.append("coap://%s[%s%s]%s%s/p" % (pre, l, z, post, port))
    # 3. user info and ports
    for ui in ("u@", "u:p@", "@", ":@", "a@b@", "%40@", "u%40"):
        for h in ("Host", "1.2.3.4", "[::1]", "H.Example", ""):
            for port in ("", ":", ":1", ":x", ":1:2"):
                texts.append("coap://%s%s%s/x" % (ui, h, port))
    # 4. dotted quads, case
    for h in ("1.2.3.4", "01.2.3.4", "1.2.3.256", "1.2.3", "1.2.3.4.", "1..2.3", "...", "1.2.3.4E", "0x1.2.3.4",
              "%31.2.3.4", "1%2E2.3.4", "A.B.C.D", "a.b", "EXAMPLE.com", "ExAmPlE.CoM.", "xn--Bcher-kva.example",
              "A%41a%61", "%4a%4A", "a%2Fb", "a%3Ab", "a%3ab", "A%5Bb", "a%40B", "a%25B", "A%2541"):
        for port in ("", ":", ":5683", ":005683", ":99999", ":-1", ":1x"):
            for sch in ("coap", "CoAP", "coaps", "coap+ws", "http", ""):
                texts.append("%s://%s%s/Path?Query" % (sch, h, port) if sch else "//%s%s/x" % (h, port))
    # 5. random ASCII authority texts
    alpha = "aAbBzZ019.-_~:%@[]/?!$&'()*+,;= \t\"<>\\^`{|}\x00\x1f\x7f"
    hexd = "0123456789abcdefABCDEF"
    for _ in range(150000):
        n = rng.randint(0, 10)
        s = []
        for _ in range(n):
            r = rng.random()
            if r < 0.15:
                s.append("%" + rng.choice(hexd) + rng.choice(hexd))
            elif r < 0.5:
                s.append(rng.choice("aAbBkKzZiI019.-"))
            else:
                s.append(rng.choice(alpha))
        tail = rng.choice(["", "/", "/a", "/A%41?B=%42", "?q", ":1/", ":/", ":x/"])
        sch = rng.choice(["coap", "coap", "coap", "coaps", "COAP", "coap+tcp", "http", "c"])
        texts.append("%s://%s%s" % (sch, "".join(s), tail))
    # 6. non-ASCII (expected to differ only where str.lower() is not ASCII lower)
    na = ["\u212a", "\u0130", "\u00c4", "\u00e4", "\u03a3", "\u1e9e", "\u00df", "\ufb01", "\u0661", "\uff21", "\u2160",
          "\U00010400", "\u01c5", "\u2126", "\u00b5", "\u017f"]
    for c in na:
        for tmpl in ("coap://%s/", "coap://A%sB/", "coap://%s.Example:7/", "coap://a%s", "coap://1.2.3.%s/",
                     "coap://[::1%%25%s]/", "coap://%s@h/", "coap://h:%s/"):
            texts.append(tmpl % c)
    for _ in range(20000):
        n = rng.randint(1, 6)
        s = "".join(rng.choice(na + list("aAkKiI.")) for _ in range(n))
        texts.append("coap://%s%s" % (s, rng.choice(["", "/", ":1/"])))
    texts = [t for t in texts if "#" not in t and t != ""]
    return texts


def run(tree, texts, tag):
    inp = "/tmp/audit/F5/_in.json"
    outp = "/tmp/audit/F5/_out_%s.json" % tag
    json.dump(texts, open(inp, "w"))
    subprocess.run(["/venv/bin/python", "-W", "ignore", "-c", WORKER, tree, inp, outp], check=True)
    return json.load(open(outp))


def main():
    rng = random.Random(20260923)
    texts = gen(rng)
    old = run("/tmp/audit/F5/tree_8166e3f", texts, "old")
    new = run("/repo", texts, "new")
    ascii_diffs = []
    nonascii_diffs = []
    for t, o, n in zip(texts, old, new):
        if o != n:
            auth = t.split("://", 1)[1] if "://" in t else t
            auth = auth.split("/", 1)[0].split("?", 1)[0]
            (ascii_diffs if auth.isascii() else nonascii_diffs).append((t, o, n))
    print("texts: %d, accepted by HEAD: %d" % (len(texts), sum(1 for n in new if n[0] == "ok")))
    print("differences with pure-ASCII authority: %d" % len(ascii_diffs))
    for d in ascii_diffs[:20]:
        print("   %r\n      old %r\n      new %r" % d)
    print("differences with non-ASCII authority: %d" % len(nonascii_diffs))
    bad_na = []
    for t, o, n in nonascii_diffs:
        # legitimate: both ok, only Uri-Host differs, and new == ASCII-lower of the decoded raw host
        ok = o[0] == "ok" and n[0] == "ok" and o[2:] == n[2:]
        if not ok:
            bad_na.append((t, o, n))
    for d in nonascii_diffs[:8]:
        print("   %r\n      old %r\n      new %r" % d)
    print("non-ASCII differences that touch more than Uri-Host: %d" % len(bad_na))
    for d in bad_na[:20]:
        print("   %r\n      old %r\n      new %r" % d)
    sys.exit(1 if ascii_diffs or bad_na else 0)


main()
