#!/venv/bin/python
"""C16 last sentence ("Host/port strings are split and joined consistently for names ..."), position newly declared
outside in round 4: util.hostportsplit with raw non-ASCII text still goes through urllib's .hostname = str.lower():
KELVIN SIGN -> 'k', U+0130 -> two characters. (set_request_uri no longer shows it since 475050d; hostportsplit is used
on remote.hostinfo, which for a raw non-ASCII URI is the raw text.)  exit 1 = split/join is not the identity up to
ASCII case."""
import sys
sys.path.insert(0, "/repo")
from aiocoap.util import hostportsplit, hostportjoin
from aiocoap import Message, GET
bad = 0
for hp in ("K.example:5683", "İ:1", "Ä.example"):
    h, p = hostportsplit(hp)
    j = hostportjoin(h, p)
    same = j == "".join(chr(ord(c) + 32) if "A" <= c <= "Z" else c for c in hp)
    print("%r -> split %r -> join %r %s" % (hp, (h, p), j, "ok" if same else "DIFFERENT NAME"))
    bad += 0 if same else 1
# where it can be seen through Message: destination text vs Uri-Host
m = Message(code=GET, uri="coap://K.example:5683/")
print("Uri-Host %r; remote.hostinfo %r; hostportsplit(remote.hostinfo) %r" % (m.opt.uri_host, m.remote.hostinfo, hostportsplit(m.remote.hostinfo)))
sys.exit(1 if bad else 0)
