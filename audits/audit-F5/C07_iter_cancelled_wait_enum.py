#!/venv/bin/python
"""C07 / fix fafe9a5: exhaustive small-scope check of the real ClientObservation async iterator.

Ops: N = consumer starts an __anext__ (as a task) if none is running; C = consumer task cancelled
(what asyncio.wait_for does on a time-out); P = observation.callback(next item); E = observation.error(
ObservationCancelled / NetworkError); Y = one loop iteration. All sequences up to length 7 (E at most once, then no
more P), afterwards the consumer keeps pulling.

Judged from the property text (lossy queue): (1) CancelledError leaves __anext__ at most as often as C hit a running
__anext__; (2) items handed out are a subsequence of the pushed ones; (3) the LAST item pushed before the end is
handed out (unless an equal/later.. there is none later) -- "the freshest notification that arrives is eventually
delivered" -- also when pushed between a cancelled wait and the next one; (4) after the last item the end is
signalled (StopAsyncIteration / the network error), nothing after it.
exit 1 if any sequence violates.
"""
import asyncio
import itertools
import sys

sys.path.insert(0, "/repo")
from aiocoap import error  # noqa: E402
from aiocoap.protocol import ClientObservation  # noqa: E402

bad = []
count = 0


async def play(seq, errkind):
    obs = ClientObservation()
    it = obs.__aiter__()
    outs = []
    task = None
    pushed = []
    cancels_hit = 0
    nxt = 1

    def reap():
        nonlocal task
        if task is not None and task.done():
            try:
                outs.append(("item", task.result()))
            except StopAsyncIteration:
                outs.append(("stop",))
            except asyncio.CancelledError:
                outs.append(("cancelled",))
            except error.NetworkError:
                outs.append(("neterr",))
            except BaseException as e:  # anything else is a finding
                outs.append(("other", repr(e)))
            task = None

    async def run_anext():
        # StopAsyncIteration cannot travel through a Task's result as an exception of a coroutine: wrap
        try:
            return await it.__anext__()
        except StopAsyncIteration:
            raise RuntimeError("STOP")

    def reap2():
        nonlocal task
        if task is not None and task.done():
            try:
                outs.append(("item", task.result()))
            except asyncio.CancelledError:
                outs.append(("cancelled",))
            except RuntimeError as e:
                outs.append(("stop",) if "STOP" in str(e) else ("other", repr(e)))
            except error.NetworkError:
                outs.append(("neterr",))
            except BaseException as e:
                outs.append(("other", repr(e)))
            task = None

    ended = False
    for op in seq:
        reap2()
        if op == "N":
            if task is None:
                task = asyncio.ensure_future(run_anext())
        elif op == "C":
            if task is not None and not task.done():
                task.cancel()
                cancels_hit += 1
        elif op == "P":
            obs.callback(nxt)
            pushed.append(nxt)
            nxt += 1
        elif op == "E":
            obs.error(error.ObservationCancelled() if errkind == 0 else error.NetworkError("x"))
            ended = True
        elif op == "Y":
            await asyncio.sleep(0)
    if not ended:
        obs.error(error.ObservationCancelled() if errkind == 0 else error.NetworkError("x"))
    # drain
    for _ in range(8):
        for _ in range(3):
            await asyncio.sleep(0)
        reap2()
        if outs and outs[-1][0] in ("stop", "neterr") and task is None:
            break
        if task is None:
            task = asyncio.ensure_future(run_anext())
    for _ in range(3):
        await asyncio.sleep(0)
    reap2()
    if task is not None:
        task.cancel()
    return outs, pushed, cancels_hit


def judge(seq, errkind, outs, pushed, cancels_hit):
    probs = []
    ncanc = sum(1 for o in outs if o[0] == "cancelled")
    if ncanc > cancels_hit:
        probs.append("spurious CancelledError: %d out, %d caused" % (ncanc, cancels_hit))
    if any(o[0] == "other" for o in outs):
        probs.append("unexpected exception")
    items = [o[1] for o in outs if o[0] == "item"]
    # subsequence, strictly increasing
    if items != sorted(set(items)) or any(i not in pushed for i in items):
        probs.append("items not a subsequence: %r of %r" % (items, pushed))
    if pushed and (not items or items[-1] != pushed[-1]):
        probs.append("latest pushed item %r never handed out (items %r)" % (pushed[-1], items))
    endk = "stop" if errkind == 0 else "neterr"
    ends = [i for i, o in enumerate(outs) if o[0] in ("stop", "neterr")]
    if not ends:
        probs.append("end never signalled")
    else:
        if outs[ends[0]][0] != endk:
            probs.append("wrong end kind")
        if any(o[0] == "item" for o in outs[ends[0]:]):
            probs.append("item after the end")
    return probs


async def main():
    global count
    for n in range(1, 8):
        for seq in itertools.product("NCPEY", repeat=n):
            s = "".join(seq)
            if s.count("E") > 1:
                continue
            if "E" in s and "P" in s[s.index("E"):]:
                continue
            for errkind in (0, 1):
                outs, pushed, ch = await play(s, errkind)
                count += 1
                p = judge(s, errkind, outs, pushed, ch)
                if p:
                    bad.append((s, errkind, outs, p))
    print("sequences played:", count)
    print("violations:", len(bad))
    for b in bad[:15]:
        print("  ", b)


asyncio.run(main())
sys.exit(1 if bad else 0)
