"""Socket-free harness for the C10 demos: a Context whose only transport is a
MessageManager/TokenManager pair on top of a recording fake MessageInterface.
Remote addresses are real UDP6EndpointAddress objects.  No sockets are opened.

Import only after sys.path has been set up so that `aiocoap` is the tree under test.
"""

import asyncio
import logging
import socket
import struct

import aiocoap
from aiocoap import interfaces, Message
from aiocoap.messagemanager import MessageManager
from aiocoap.tokenmanager import TokenManager
from aiocoap.transports.udp6 import UDP6EndpointAddress, _in6_pktinfo

CON, NON, ACK, RST = 0, 1, 2, 3
TNAME = {0: "CON", 1: "NON", 2: "ACK", 3: "RST"}


class FakeMI(interfaces.MessageInterface):
    def __init__(self, loop):
        self.loop = loop
        self.sent = []  # (time, parsed dict, remote)
        self.t0 = loop.time()

    def send(self, message):
        raw = message.encode()
        self.sent.append((round(self.loop.time() - self.t0, 3), parse(raw), message.remote))

    async def shutdown(self):
        pass

    async def recognize_remote(self, remote):
        return isinstance(remote, UDP6EndpointAddress) and remote.interface is self

    async def determine_remote(self, message):
        return None


def parse(raw):
    vttkl, code, mid = struct.unpack("!BBH", raw[:4])
    tkl = vttkl & 0x0F
    return {
        "type": (vttkl >> 4) & 3,
        "code": code,
        "mid": mid,
        "token": raw[4 : 4 + tkl],
        "rest": raw[4 + tkl :],
    }


def fmt(p):
    return "%s %d.%02d mid=%d token=%s" % (
        TNAME[p["type"]], p["code"] >> 5, p["code"] & 31, p["mid"], p["token"].hex() or "-")


def raw_message(mtype, code, mid, token=b"", options=b"", payload=b""):
    """Build a datagram by hand (options = already encoded option bytes)."""
    out = bytes([(1 << 6) | (mtype << 4) | len(token), code]) + struct.pack("!H", mid) + token + options
    if payload:
        out += b"\xff" + payload
    return out


def uri_path_opt(*segments, prev=0):
    """Encode Uri-Path options (number 11), starting from option number prev."""
    out = b""
    for s in segments:
        s = s.encode()
        delta = 11 - prev
        assert delta < 13 and len(s) < 13
        out += bytes([(delta << 4) | len(s)]) + s
        prev = 11
    return out


def no_response_opt(value, prev):
    """Encode a No-Response option (258) after an option with number prev."""
    delta = 258 - prev
    assert delta >= 13
    if value == 0:
        v = b""
    else:
        v = bytes([value])
    if delta < 269:
        return bytes([(13 << 4) | len(v), delta - 13]) + v
    return bytes([(14 << 4) | len(v)]) + struct.pack("!H", delta - 269) + v


class Stack:
    def __init__(self, site=None, loggername="coap-c10"):
        self.loop = asyncio.get_running_loop()
        self.ctx = aiocoap.Context(loop=self.loop, serversite=site, loggername=loggername)
        self.tman = TokenManager(self.ctx)
        self.mman = MessageManager(self.tman)
        self.mi = FakeMI(self.loop)
        self.mi._ctx = self.mman
        self.mman.message_interface = self.mi
        self.tman.token_interface = self.mman
        self.ctx.request_interfaces.append(self.tman)

    def peer(self, host="::1", port=40000, local="::1", ifindex=1):
        """Address of a peer as udp6 builds it for a datagram that came from
        [host]:port and was received on the local address `local` (None: an
        address without local part, as used for outgoing requests)."""
        if local is None:
            return UDP6EndpointAddress((host, port, 0, 0), self.mi)
        if ":" not in local:
            local = "::ffff:" + local
        pktinfo = _in6_pktinfo.pack(socket.inet_pton(socket.AF_INET6, local), ifindex)
        return UDP6EndpointAddress((host, port, 0, 0), self.mi, pktinfo=pktinfo)

    def inject(self, raw, remote):
        # what MessageInterfaceUDP6.datagram_msg_received does
        m = Message.decode(raw, remote)
        m.direction = aiocoap.message.Direction.INCOMING
        self.mman.dispatch_message(m)

    def sent(self):
        return [(t, p) for (t, p, r) in self.mi.sent]

    def dump(self, prefix="   "):
        for t, p in self.sent():
            print("%s[t=%.3f] %s" % (prefix, t, fmt(p)))

    async def shutdown(self):
        await self.ctx.shutdown()
