#!/usr/bin/env python3
"""Replays for out4/notes.md: three inputs on which the UNCHANGED tree violates C10.

Usage: notes_replay.py <path-to-repo-root>      (exit 1 = violations observed)

Opens no sockets (c10_harness.py for N1/N2; for N3 the simple6 transport is
given a fake datagram transport instead of an OS socket).
"""

import asyncio
import logging
import os
import struct
import sys

sys.path.insert(0, os.path.abspath(sys.argv[1]))
sys.path.insert(1, os.path.dirname(os.path.abspath(__file__)))

import aiocoap  # noqa: E402
import aiocoap.resource as resource  # noqa: E402
from c10_harness import (  # noqa: E402
    Stack, raw_message, uri_path_opt, no_response_opt, fmt, parse, TNAME, CON, NON, ACK, RST,
)

logging.basicConfig(level=logging.CRITICAL)
violations = []


def report(tag, ok, text):
    print("  %-9s %s" % ("ok" if ok else "VIOLATION", text))
    if not ok:
        violations.append(tag)


class Static(resource.Resource):
    """Returns the same (pre-built) Message object for every request."""

    def __init__(self, delay=0):
        super().__init__()
        self.delay = delay
        self.msg = aiocoap.Message(payload=b"static representation")

    async def render_get(self, request):
        if self.delay:
            await asyncio.sleep(self.delay)
        return self.msg


class Echo(resource.Resource):
    async def render_get(self, request):
        return aiocoap.Message(payload=b"hello")


async def n1():
    print("N1: a response Message object that is returned a second time keeps the type it was sent with")
    site = resource.Site()
    static = Static()
    site.add_resource(["static"], static)
    s = Stack(site)
    p = s.peer(port=40010)
    s.inject(raw_message(CON, 1, 0x0101, b"\x01", uri_path_opt("static")), p)
    await asyncio.sleep(0.05)
    s.inject(raw_message(NON, 1, 0x0102, b"\x02", uri_path_opt("static")), p)
    await asyncio.sleep(0.05)
    out = [q for _, q in s.sent()]
    for q in out:
        print("     sent:", fmt(q))
    report("N1a", len(out) == 2 and out[0]["type"] == ACK and out[0]["mid"] == 0x0101, "CON request piggy-backed (control)")
    report("N1a", len(out) == 2 and out[1]["type"] == NON,
           "NON request answered non-confirmably and not acknowledged (got type %s)" % TNAME[out[1]["type"]])
    # slow variant: empty ACK, then the separate response must be CON (or NON), not an ACK
    static.delay = 0.2
    before = len(s.sent())
    s.inject(raw_message(CON, 1, 0x0103, b"\x03", uri_path_opt("static")), p)
    await asyncio.sleep(0.4)
    out = [q for _, q in s.sent()[before:]]
    for q in out:
        print("     sent:", fmt(q))
    acks = [q for q in out if q["type"] == ACK]
    report("N1b", len(acks) == 1 and acks[0]["code"] == 0 and len(out) == 2 and out[1]["type"] in (CON, NON),
           "slow CON request: one empty ACK, then a separate CON/NON response (got %s)" % [TNAME[q["type"]] for q in out])
    await s.shutdown()


async def n2():
    print("N2: No-Response is not applied to responses that come from exceptions (4.04, 4.05, 5.00 ...)")
    site = resource.Site()
    site.add_resource(["echo"], Echo())
    s = Stack(site)
    p = s.peer(port=40011)
    NR = 2 | 8 | 16  # not interested in any response class
    s.inject(raw_message(NON, 1, 0x0201, b"\x11", uri_path_opt("echo") + no_response_opt(NR, 11)), p)
    await asyncio.sleep(0.05)
    report("N2", s.sent() == [], "control: NON GET /echo with No-Response=26 -> 2.05 suppressed, nothing sent")
    s.inject(raw_message(NON, 1, 0x0202, b"\x12", uri_path_opt("missing") + no_response_opt(NR, 11)), p)
    await asyncio.sleep(0.05)
    out = [q for _, q in s.sent()]
    report("N2a", out == [], "NON GET /missing with No-Response=26 -> 4.04 suppressed (sent: %s)" % [fmt(q) for q in out])
    before = len(s.sent())
    s.inject(raw_message(CON, 1, 0x0203, b"\x13", uri_path_opt("missing") + no_response_opt(8, 11)), p)
    await asyncio.sleep(0.3)
    out = [q for _, q in s.sent()[before:]]
    report("N2b", len(out) == 1 and out[0]["type"] == ACK and out[0]["code"] == 0,
           "CON GET /missing with No-Response=8 -> only an empty ACK (sent: %s)" % [fmt(q) for q in out])
    before = len(s.sent())
    s.inject(raw_message(NON, 2, 0x0204, b"\x14", uri_path_opt("echo") + no_response_opt(8, 11)), p)
    await asyncio.sleep(0.05)
    out = [q for _, q in s.sent()[before:]]
    report("N2c", out == [], "NON POST /echo (4.05) with No-Response=8 -> suppressed (sent: %s)" % [fmt(q) for q in out])
    await s.shutdown()


class FakeDatagramTransport:
    def __init__(self, log, name):
        self.log, self.name = log, name

    def sendto(self, data, addr=None):
        self.log.append((self.name, parse(data)))

    def get_extra_info(self, key, default=None):
        return default

    def abort(self):
        pass

    close = abort


async def n3():
    print("N3: the simple6 transport sends (and retransmits) confirmable requests to multicast addresses")
    from aiocoap.transports import simple6

    loop = asyncio.get_running_loop()
    wire = []

    class LoopProxy:
        """Stands in for the loop inside the socket pool: 'connects' without an OS socket."""

        async def create_datagram_endpoint(self, factory, remote_addr=None, **kw):
            protocol = factory()
            transport = FakeDatagramTransport(wire, remote_addr)
            loop.call_soon(protocol.connection_made, transport)
            return transport, protocol

    ctx = aiocoap.Context(loop=loop, loggername="coap-c10")

    async def make(mman):
        mi = await simple6.MessageInterfaceSimple6.create_client_transport_endpoint(mman, log=ctx.log, loop=loop)
        mi._pool._loop = LoopProxy()
        return mi

    await ctx._append_tokenmanaged_messagemanaged_transport(make)
    # make retransmission quick to show that the message really is treated as confirmable
    class Tuning(aiocoap.numbers.constants.TransportTuning):
        ACK_TIMEOUT = 0.1
        ACK_RANDOM_FACTOR = 1.0
        MAX_RETRANSMIT = 1
    for uri in ("coap://[ff02::fd]/.well-known/core", "coap://224.0.1.187/.well-known/core"):
        del wire[:]
        r = ctx.request(aiocoap.Message(code=aiocoap.GET, uri=uri, transport_tuning=Tuning()), handle_blockwise=False)
        try:
            await asyncio.wait_for(r.response, 0.5)
        except Exception:
            pass
        types = [TNAME[q["type"]] for _, q in wire]
        print("     to %s: %s" % (wire[0][0] if wire else "?", ", ".join(fmt(q) for _, q in wire)))
        report("N3", wire != [] and all(t == "NON" for t in types),
               "request to %s goes out non-confirmably, once (types: %s)" % (uri.split("/")[2], types))
    await ctx.shutdown()


async def main():
    await n1()
    await n2()
    await n3()


asyncio.run(main())
if violations:
    print("violations observed:", ", ".join(sorted(set(violations))))
    sys.exit(1)
print("no violations observed")
