"""Shared helpers for the C12 round-4 demos (OSCORE replay protection).

Usage from a demo:

    import c12_common
    oscore, Message = c12_common.setup(repo_root)

`setup` puts the repository root first on sys.path and /tmp/mut/shims (stand-ins
for cbor2 / cryptography / filelock) after it, imports aiocoap.oscore and
registers a toy AEAD ("TOY-AEAD": SHA-256 keystream + truncated HMAC-SHA-256
tag over nonce, AAD and ciphertext) under oscore.algorithms, because the real
ciphers are not available offline.  The toy cipher is a faithful AEAD for the
purposes of the demos: any change of key, nonce, AAD or ciphertext makes
decryption raise ProtectionInvalid.

No sockets are opened by anything in here.
"""

import hashlib
import hmac
import json
import os
import sys

SHIMS = "/tmp/mut/shims"

_oscore = None


def setup(repo_root):
    global _oscore
    repo_root = os.path.abspath(repo_root)
    sys.path.insert(0, repo_root)
    if SHIMS not in sys.path:
        sys.path.insert(1, SHIMS)

    import aiocoap
    import aiocoap.oscore as oscore
    from aiocoap.message import Message

    assert os.path.abspath(aiocoap.__file__).startswith(repo_root), (
        "aiocoap was imported from %s, not from %s" % (aiocoap.__file__, repo_root)
    )

    class ToyAead(oscore.AeadAlgorithm):
        value = -70001  # private use
        key_bytes = 16
        tag_bytes = 8
        iv_bytes = 13

        @staticmethod
        def _stream(key, iv, n):
            out = b""
            i = 0
            while len(out) < n:
                out += hashlib.sha256(key + iv + i.to_bytes(4, "big")).digest()
                i += 1
            return out[:n]

        @classmethod
        def _tag(cls, key, iv, aad, ct):
            return hmac.new(
                key,
                len(iv).to_bytes(2, "big")
                + iv
                + len(aad).to_bytes(4, "big")
                + aad
                + ct,
                "sha256",
            ).digest()[: cls.tag_bytes]

        @classmethod
        def encrypt(cls, plaintext, aad, key, iv):
            ct = bytes(
                a ^ b for a, b in zip(plaintext, cls._stream(key, iv, len(plaintext)))
            )
            return ct + cls._tag(key, iv, aad, ct)

        @classmethod
        def decrypt(cls, ciphertext_and_tag, aad, key, iv):
            ct = ciphertext_and_tag[: -cls.tag_bytes]
            tag = ciphertext_and_tag[-cls.tag_bytes :]
            if not hmac.compare_digest(tag, cls._tag(key, iv, aad, ct)):
                raise oscore.ProtectionInvalid("Tag invalid")
            return bytes(a ^ b for a, b in zip(ct, cls._stream(key, iv, len(ct))))

    oscore.algorithms["TOY-AEAD"] = ToyAead()
    _oscore = oscore
    return oscore, Message


def make_context_dirs(base, window=None):
    """Create two matching FilesystemSecurityContext directories (client,
    server) below `base` and return their paths."""
    common = {
        "algorithm": "TOY-AEAD",
        "secret_hex": "0102030405060708090a0b0c0d0e0f10",
        "salt_hex": "9e7ca92223786340",
    }
    if window is not None:
        common["window"] = window
    paths = {}
    for name, sid, rid in (("client", "01", "02"), ("server", "02", "01")):
        d = os.path.join(base, name)
        os.makedirs(d)
        settings = dict(common)
        settings["sender-id_hex"] = sid
        settings["recipient-id_hex"] = rid
        with open(os.path.join(d, "settings.json"), "w") as f:
            json.dump(settings, f)
        paths[name] = d
    return paths["client"], paths["server"]


def load(path):
    return _oscore.FilesystemSecurityContext(path)


def crash(ctx):
    """Simulate an abnormal end of the process that holds `ctx`: nothing is
    written back (no _destroy), only the lock file disappears (as it would be
    for a lock held by a dead process)."""
    lock = ctx.lockfile.lock_file
    ctx.lockfile = None  # keeps __del__ from running _destroy
    try:
        os.unlink(lock)
    except FileNotFoundError:
        pass


def shutdown(ctx):
    """Orderly shutdown of the process that holds `ctx`."""
    ctx._destroy()


def wire(Message, msg):
    """What the receiving side sees of a protected message: code, options and
    payload taken over, direction incoming."""
    from aiocoap.message import Direction

    m = Message(code=msg.code, payload=msg.payload)
    m.opt.decode(msg.opt.encode())
    m.direction = Direction.INCOMING
    return m


def protect_request(Message, client, payload=b"", seqno=None, echo=None, **kw):
    """Have the client context protect a POST request; `seqno` forces the
    sender sequence number to use."""
    from aiocoap.numbers import POST

    if seqno is not None:
        client.sender_sequence_number = seqno
    inner = Message(code=POST, payload=payload, uri_path=("res",), **kw)
    if echo is not None:
        inner.opt.echo = echo
    outer, request_id = client.protect(inner)
    return wire(Message, outer), request_id


def try_unprotect(server, msg):
    """Returns ("ok", inner) or (exception class name, exception)."""
    # every arrival is a fresh message object, like off the wire
    from aiocoap.message import Message

    try:
        inner, _ = server.unprotect(wire(Message, msg))
    except Exception as e:  # noqa: BLE001 -- the demos report what was raised
        return type(e).__name__, e
    return "ok", inner
