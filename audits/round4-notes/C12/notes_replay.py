#!/usr/bin/env python3
"""C12 round 4, replay of observations on the UNCHANGED code (see notes.md).

Run as:  notes_replay.py <path-to-repo-root>
Opens no sockets.  Uses /tmp/mut/shims and the toy AEAD of c12_common.py.

Item 1 (fault + crash): one failing write of sequence.json at the first
        strike-out after an orderly start leaves the file claiming a usable
        (stale) replay window for the rest of the run; after a crash the next
        process accepts everything the dead one had accepted.
Item 2 (window size 0): with "window": 0 in settings.json no request is ever
        accepted (AssertionError out of strike_out, after the window was
        already moved).

Exit status: 1 if item 1 shows (requests accepted twice), else 0; item 2 is
reported only.
"""

import os
import sys
import tempfile

sys.path.insert(0, os.path.dirname(os.path.abspath(__file__)))
import c12_common as c  # noqa: E402


def item1(oscore, Message):
    print("Item 1: failing sequence.json write at the first strike-out, then a crash")
    with tempfile.TemporaryDirectory() as base:
        cdir, sdir = c.make_context_dirs(base)
        client = c.load(cdir)
        server = c.load(sdir)
        ms = [c.protect_request(Message, client, b"p%d" % i)[0] for i in range(7)]

        print("  run 1: request 0 ->", c.try_unprotect(server, ms[0])[0])
        c.shutdown(server)  # orderly: the true window is written
        with open(os.path.join(sdir, "sequence.json")) as f:
            print("  sequence.json after orderly shutdown:", f.read())

        server = c.load(sdir)
        real_replace = os.replace

        def failing_once(*args, **kwargs):
            os.replace = real_replace
            raise OSError(28, "No space left on device")

        os.replace = failing_once  # the one write that is to say "unknown" fails
        try:
            print("  run 2: request 1 ->", c.try_unprotect(server, ms[1]))
        finally:
            os.replace = real_replace
        run2 = [c.try_unprotect(server, m)[0] for m in ms[2:5]]
        print("  run 2: requests 2..4 ->", run2)
        print(
            "  run 2: replay_window_persisted =",
            server.replay_window_persisted,
            "(so nothing is written any more)",
        )
        with open(os.path.join(sdir, "sequence.json")) as f:
            print("  sequence.json while run 2 is processing requests:", f.read())

        c.crash(server)
        server = c.load(sdir)
        print(
            "  run 3 (after the crash): window initialised =",
            server.recipient_replay_window.is_initialized(),
            server.recipient_replay_window.persist(),
        )
        run3 = [c.try_unprotect(server, m)[0] for m in ms[:5]]
        print("  run 3: replays of 0..4 ->", run3)
        twice = [i + 2 for i, (a, b) in enumerate(zip(run2, run3[2:])) if a == b == "ok"]
        print("  accepted in run 2 AND again in run 3:", twice)
        c.crash(server)
        c.crash(client)
        return bool(twice)


def item2(oscore, Message):
    print('Item 2: "window": 0')
    with tempfile.TemporaryDirectory() as base:
        cdir, sdir = c.make_context_dirs(base, window=0)
        client = c.load(cdir)
        server = c.load(sdir)
        ms = [c.protect_request(Message, client, b"p%d" % i)[0] for i in range(3)]
        for i, m in enumerate(ms):
            outcome, detail = c.try_unprotect(server, m)
            print(
                "  fresh authentic request %d -> %s %s; window now %r"
                % (i, outcome, detail if outcome != "ok" else "", server.recipient_replay_window.persist())
            )
        c.crash(server)
        c.crash(client)


def main():
    if len(sys.argv) != 2:
        print(__doc__)
        return 2
    oscore, Message = c.setup(sys.argv[1])
    violated = item1(oscore, Message)
    print()
    item2(oscore, Message)
    print()
    print("item 1 %s" % ("SHOWS: requests were accepted twice" if violated else "does not show"))
    return 1 if violated else 0


if __name__ == "__main__":
    sys.exit(main())
