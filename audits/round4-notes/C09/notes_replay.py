"""Replay of the observations in notes.md on the UNCHANGED tree.

Usage: notes_replay.py <path-to-repo-root>     (opens no sockets, ~3 s)
Prints what is seen on the (fake) wire for each case; exit status 1 if at
least one case deviates from the C09 statement, 0 otherwise.
"""

import sys
import os

sys.path.insert(0, os.path.abspath(sys.argv[1]))
sys.path.insert(1, os.path.dirname(os.path.abspath(__file__)))

import asyncio  # noqa: E402
import logging  # noqa: E402

import aiocoap  # noqa: E402
from aiocoap import resource, interfaces  # noqa: E402
from aiocoap.numbers.codes import Code  # noqa: E402

from c09_fakenet import FakeNet, FakeAddress, CON, NON, ACK, describe  # noqa: E402

logging.disable(logging.CRITICAL)


class ReturnsRequestCode(resource.Resource):
    async def render_get(self, request):
        return aiocoap.Message(code=Code.GET, payload=b"oops")


class ReturnsEmptyCode(resource.Resource):
    async def render_get(self, request):
        return aiocoap.Message(code=Code.EMPTY)


class HandlerAbort(BaseException):
    pass


class RaisesBaseException(resource.Resource):
    async def render_get(self, request):
        raise HandlerAbort("not derived from Exception")


class SilentPipeResource(resource.Resource):
    async def render_to_pipe(self, pipe):
        return  # produces no response at all


class Static(resource.Resource):
    """Returns one pre-built message object for every request"""

    def __init__(self):
        super().__init__()
        self.msg = aiocoap.Message(payload=b"static")

    async def render_get(self, request):
        if request.opt.uri_query == ("slow",):
            await asyncio.sleep(0.25)
        return self.msg

    async def render_put(self, request):
        return self.msg


async def main():
    site = resource.Site()
    site.add_resource(["reqcode"], ReturnsRequestCode())
    site.add_resource(["emptycode"], ReturnsEmptyCode())
    site.add_resource(["baseexc"], RaisesBaseException())
    site.add_resource(["silent"], SilentPipeResource())
    site.add_resource(["static"], Static())
    site.add_resource(["static2"], Static())
    net = await FakeNet.create(site)
    deviations = []
    # keep "Task exception was never retrieved" (case N2) out of the output
    asyncio.get_running_loop().set_exception_handler(lambda loop, context: None)

    def show(title, peer):
        print("\n== " + title)
        for m in net.sent_to(peer):
            print("   server sent:", describe(m))

    # N1: a returned message whose code is not a response code
    for path in ("reqcode", "emptycode"):
        peer = FakeAddress("n1-" + path)
        net.inject(peer, code=Code.GET, mtype=CON, mid=net.next_mid(), token=b"\x01", path=[path])
        await asyncio.sleep(0.3)
        show("N1 handler returns Message(code=%s)" % ("GET" if path == "reqcode" else "EMPTY"), peer)
        got = net.responses_for(peer, b"\x01")
        print("   responses with the request's token:", len(got))
        if len(got) != 1:
            deviations.append("N1 /%s: %d responses" % (path, len(got)))
        # stop the retransmissions of the bogus CON
        for m in net.sent_to(peer):
            if m.mtype is CON:
                net.inject(peer, code=Code.EMPTY, mtype=aiocoap.RST, mid=m.mid)

    # N2: an exception that is not derived from Exception
    peer = FakeAddress("n2")
    net.inject(peer, code=Code.GET, mtype=CON, mid=net.next_mid(), token=b"\x02", path=["baseexc"])
    await asyncio.sleep(0.3)
    show("N2 handler raises a BaseException subclass", peer)
    got = net.responses_for(peer, b"\x02")
    left = [k for k in net.tman.incoming_requests if k[1] == peer]
    print("   responses:", len(got), " incoming_requests entries left:", len(left))
    if len(got) != 1:
        deviations.append("N2: %d responses" % len(got))

    # N3: render_to_pipe that ends without producing a response
    peer = FakeAddress("n3")
    net.inject(peer, code=Code.GET, mtype=CON, mid=net.next_mid(), token=b"\x03", path=["silent"])
    await asyncio.sleep(0.3)
    show("N3 render_to_pipe returns without a response", peer)
    got = net.responses_for(peer, b"\x03")
    left = [k for k in net.tman.incoming_requests if k[1] == peer]
    print("   responses:", len(got), " incoming_requests entries left:", len(left))
    if len(got) != 1:
        deviations.append("N3: %d responses" % len(got))

    # N4: one message object returned for several requests: message type
    peer = FakeAddress("n4")
    net.inject(peer, code=Code.GET, mtype=CON, mid=net.next_mid(), token=b"\x41", path=["static"])
    await asyncio.sleep(0.05)
    net.inject(peer, code=Code.GET, mtype=NON, mid=net.next_mid(), token=b"\x42", path=["static"])
    await asyncio.sleep(0.05)
    slow_mid = net.next_mid()
    net.inject(peer, code=Code.GET, mtype=CON, mid=slow_mid, token=b"\x43", path=["static"], uri_query=["slow"])
    await asyncio.sleep(0.4)
    show("N4 handler returns the same Message object: CON, then NON, then slow CON", peer)
    r_non = net.responses_for(peer, b"\x42")
    r_slow = net.responses_for(peer, b"\x43")
    if r_non and r_non[0].mtype is ACK:
        print("   the NON request was answered by an ACK with an unrelated message ID")
        deviations.append("N4: NON request answered with type ACK")
    if r_slow and r_slow[0].mtype is ACK and r_slow[0].mid != slow_mid:
        print(
            "   the response after the empty ACK went out as ACK with MID %#06x"
            " (request had %#06x): neither CON nor NON, never retransmitted"
            % (r_slow[0].mid, slow_mid)
        )
        deviations.append("N4: separate response sent with type ACK")

    # N5: one code-less message object returned for several methods
    peer = FakeAddress("n5")
    net.inject(peer, code=Code.GET, mtype=CON, mid=net.next_mid(), token=b"\x51", path=["static2"])
    await asyncio.sleep(0.05)
    net.inject(peer, code=Code.PUT, mtype=CON, mid=net.next_mid(), token=b"\x52", path=["static2"])
    await asyncio.sleep(0.05)
    show("N5 handler returns the same code-less Message object for GET, then PUT", peer)
    r_put = net.responses_for(peer, b"\x52")
    if r_put and r_put[0].code != Code.CHANGED:
        print("   the PUT got %s instead of its default 2.04 Changed" % r_put[0].code)
        deviations.append("N5: PUT answered %s" % r_put[0].code)

    print("\ndeviations from the C09 statement on the unchanged tree:")
    for d in deviations:
        print("  ", d)
    return 1 if deviations else 0


if __name__ == "__main__":
    sys.exit(asyncio.run(main()))
