"""Socket-free harness for the C09 demos: a real aiocoap Context with the real
TokenManager and MessageManager on top of a fake message interface that
records every datagram the server puts "on the wire" and lets the demo inject
datagrams from fake peers.

Nothing here opens a socket.  The repository to test must already be first on
sys.path when this module is imported.
"""

import asyncio

from aiocoap import interfaces, Message, Context
from aiocoap.numbers.types import CON, NON, ACK, RST
from aiocoap.numbers.codes import Code, EMPTY


class FakeAddress(interfaces.EndpointAddress):
    def __init__(self, name):
        self.name = name

    def __hash__(self):
        return hash(self.name)

    def __eq__(self, other):
        return isinstance(other, FakeAddress) and self.name == other.name

    def __repr__(self):
        return "<FakeAddress %s>" % self.name

    hostinfo = property(lambda self: self.name)
    hostinfo_local = "server.example"
    uri_base = property(lambda self: "coap://" + self.name)
    uri_base_local = "coap://server.example"
    is_multicast = False
    is_multicast_locally = False
    scheme = "coap"
    blockwise_key = property(lambda self: self.name)


class FakeInterface(interfaces.MessageInterface):
    def __init__(self, mman):
        self.mman = mman
        self.sent = []  # decoded messages in the order they were sent

    def send(self, message):
        raw = message.encode()
        self.sent.append(Message.decode(raw, remote=message.remote))

    async def shutdown(self):
        pass

    async def recognize_remote(self, remote):
        return isinstance(remote, FakeAddress)

    async def determine_remote(self, message):
        return None


class FakeNet:
    """A server context for `site` (may be None) plus the wire log."""

    @classmethod
    async def create(cls, site):
        self = cls()
        self.ctx = Context(serversite=site)
        holder = {}

        async def construct(mman):
            holder["if"] = FakeInterface(mman)
            return holder["if"]

        await self.ctx._append_tokenmanaged_messagemanaged_transport(construct)
        self.interface = holder["if"]
        self.mman = self.interface.mman
        self.tman = self.mman.token_manager
        self._mid = 0x1000
        return self

    def next_mid(self):
        self._mid += 1
        return self._mid

    def inject(self, peer, *, code, mtype, mid, token=b"", path=(), payload=b"", **opts):
        m = Message(code=code, _mtype=mtype, _mid=mid, _token=token, payload=payload)
        if path:
            m.opt.uri_path = tuple(path)
        for k, v in opts.items():
            setattr(m.opt, k, v)
        raw = m.encode()
        self.mman.dispatch_message(Message.decode(raw, remote=peer))

    def ack(self, peer, mid):
        self.inject(peer, code=EMPTY, mtype=ACK, mid=mid)

    def responses_for(self, peer, token):
        """All messages with a response code sent to peer under that token"""
        return [
            m
            for m in self.interface.sent
            if m.remote == peer and m.code.is_response() and m.token == token
        ]

    def sent_to(self, peer):
        return [m for m in self.interface.sent if m.remote == peer]

    async def shutdown(self):
        await self.ctx.shutdown()


def describe(m):
    return "%s %s mid=%#06x token=%s payload=%r" % (
        m.mtype,
        m.code,
        m.mid,
        m.token.hex() or "-",
        m.payload[:40],
    )


__all__ = [
    "FakeAddress",
    "FakeNet",
    "describe",
    "CON",
    "NON",
    "ACK",
    "RST",
    "Code",
    "EMPTY",
    "asyncio",
]
