#!/usr/bin/env python3
"""C04 round 4: inputs on which the UNCHANGED code violates the property.

Usage: notes_replay.py <path-to-repo-root>      (opens no sockets)

 N1  udp6: two peers with the same link-local address and port on two
     different links (scope IDs) are one endpoint to the duplicate table.
 N2  a response object handed out a second time keeps the type ACK it was
     given as a piggy-backed response; sent for a NON request (or as a separate
     response) it leaves as an ACK under a message ID of OUR number space and
     is entered into the duplicate table when that ID equals the ID of a
     recent request of that peer.

Exit status 0 = property holds on what is checked, 1 = violated.
"""

import asyncio
import os
import sys

root = os.path.abspath(sys.argv[1])
sys.path.insert(0, root)
sys.path.insert(1, os.path.dirname(os.path.abspath(__file__)))

import aiocoap  # noqa: E402
import aiocoap.resource as resource  # noqa: E402
from aiocoap import Message, CONTENT  # noqa: E402

assert os.path.abspath(aiocoap.__file__).startswith(root), aiocoap.__file__

from c04_harness import build_datagram, uri_path, udp6_stack, settle, quiet  # noqa: E402

CON, NON, ACK = 0, 1, 2
GET = 1
failures = []


def check(cond, text):
    print(("ok      " if cond else "VIOLATED") + "  " + text)
    if not cond:
        failures.append(text)


class Counter(resource.Resource):
    def __init__(self):
        super().__init__()
        self.calls = []

    async def render_get(self, request):
        self.calls.append(request.remote.sockaddr)
        return Message(payload=b"call %d" % len(self.calls))


class Prebuilt(resource.Resource):
    def __init__(self):
        super().__init__()
        self.calls = 0
        self.response = Message(code=CONTENT, payload=b"static")

    async def render_get(self, request):
        self.calls += 1
        return self.response


async def n1():
    print("--- N1: fe80::1 on link 2 and fe80::1 on link 3, same port, same message ID")
    counter = Counter()
    site = resource.Site()
    site.add_resource(["count"], counter)
    ctx, mman, inject, transport = udp6_stack(site)
    p2 = ("fe80::1", 5683, 0, 2)
    p3 = ("fe80::1", 5683, 0, 3)
    inject(build_datagram(CON, GET, 0x0777, b"\x22", uri_path("count")), p2)
    await settle()
    inject(build_datagram(CON, GET, 0x0777, b"\x33", uri_path("count")), p3)
    await settle()
    check(
        len(counter.calls) == 2,
        "two different endpoints, one message ID: resource ran %d time(s): %r"
        % (len(counter.calls), counter.calls),
    )
    to3 = [d.hex() for d, dest in transport.sent if dest == p3]
    to2 = [d.hex() for d, dest in transport.sent if dest == p2]
    check(len(to3) == 1, "the peer on link 3 got an answer: %s" % to3)
    check(len(to2) == 1, "the peer on link 2 got one answer: %s" % to2)
    await ctx.shutdown()


async def n2():
    print("--- N2: re-used response object, own message ID coincides with the peer's")
    res = Prebuilt()
    site = resource.Site()
    site.add_resource(["static"], res)
    ctx, mman, inject, transport = udp6_stack(site)
    a = ("2001:db8::a", 40001, 0, 0)
    req = build_datagram(CON, GET, 0x3000, b"\xa1", uri_path("static"))
    inject(req, a)
    await settle()
    first = [d for d, dest in transport.sent]
    # The coincidence: our own message ID counter stands at the ID the peer used
    mman.message_id = 0x3000
    inject(build_datagram(NON, GET, 0x3001, b"\xa2", uri_path("static")), a)
    await settle()
    second = transport.sent[len(first) :]
    check(
        len(second) == 1 and second[0][0][0] >> 4 & 3 == NON,
        "(side observation, not C04) response to the NON request is sent as NON: %s"
        % [d.hex() for d, _ in second],
    )
    before = len(transport.sent)
    inject(req, a)
    await settle()
    out = [d for d, dest in transport.sent[before:]]
    check(
        out == first,
        "copy of the CON request answered with a byte-identical repetition\n"
        "              first: %s\n              now:   %s"
        % ([d.hex() for d in first], [d.hex() for d in out]),
    )
    check(res.calls == 2, "copy did not reach the resource")
    await ctx.shutdown()


async def main():
    quiet()
    await n1()
    await n2()


asyncio.run(main())
if failures:
    print("\nC04 VIOLATED by the tree as it is (%d check(s) failed)" % len(failures))
    sys.exit(1)
print("\nC04 holds on everything checked here")
sys.exit(0)
