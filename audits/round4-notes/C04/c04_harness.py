"""Helpers shared by the C04 round-4 demos: complete aiocoap server stacks
(Context + TokenManager + MessageManager + a real transport class) whose only
stand-in is the operating system socket.  Nothing here opens a socket.

Import only after the repository root was put first on sys.path.
"""

import asyncio
import logging
import socket
import struct

import aiocoap
from aiocoap.protocol import Context
from aiocoap.tokenmanager import TokenManager
from aiocoap.messagemanager import MessageManager


def build_datagram(mtype, code, mid, token=b"", options=b"", payload=b""):
    """Raw CoAP datagram. mtype: 0 CON, 1 NON, 2 ACK, 3 RST."""
    raw = bytes([0x40 | (mtype << 4) | len(token), code]) + struct.pack("!H", mid)
    raw += token + options
    if payload:
        raw += b"\xff" + payload
    return raw


def encode_options(options):
    """Encode [(number, value bytes), ...] (short values, small deltas)."""
    out = b""
    last = 0
    for number, value in sorted(options, key=lambda o: o[0]):
        delta = number - last
        assert delta < 13 and len(value) < 13
        out += bytes([(delta << 4) | len(value)]) + value
        last = number
    return out


def uri_path(*segments, extra=()):
    """Encoded Uri-Path options, plus any extra (number, value) options."""
    return encode_options([(11, s.encode()) for s in segments] + list(extra))


class FakeDatagramTransport:
    """What asyncio would hand to a DatagramProtocol; records what is sent."""

    def __init__(self):
        self.sent = []  # (bytes, destination sockaddr)

    # plain asyncio datagram transports (simplesocketserver)
    def sendto(self, data, addr=None):
        self.sent.append((bytes(data), addr))

    # aiocoap.util.asyncio.recvmsg transports (udp6)
    def sendmsg(self, data, ancdata, flags, address):
        self.sent.append((bytes(data), address))

    def get_extra_info(self, name, default=None):
        return default

    def close(self):
        pass

    def abort(self):
        pass


def _wire(ctx, message_interface_factory):
    tman = TokenManager(ctx)
    mman = MessageManager(tman)
    mint = message_interface_factory(mman)
    mman.message_interface = mint
    tman.token_interface = mman
    ctx.request_interfaces.append(tman)
    return mman, mint


def simplesocketserver_stack(site, loggername="coap-server"):
    """Context served by transports.simplesocketserver over a fake socket.

    Returns (context, message manager, inject, transport) where
    inject(datagram, sockaddr) is what asyncio would call on reception."""
    from aiocoap.transports.simplesocketserver import (
        MessageInterfaceSimpleServer,
        _DatagramServerSocketSimple,
    )

    loop = asyncio.get_running_loop()
    ctx = Context(loop=loop, serversite=site, loggername=loggername)
    transport = FakeDatagramTransport()

    def factory(mman):
        mint = MessageInterfaceSimpleServer(mman, ctx.log, loop)
        sock = _DatagramServerSocketSimple(lambda s: None, mint, ctx.log)
        sock.hostinfo_local = "192.0.2.1"
        sock._loop = loop
        sock.connection_made(transport)
        mint._pool = sock
        return mint

    mman, mint = _wire(ctx, factory)
    return ctx, mman, mint._pool.datagram_received, transport


_PKTINFO = struct.Struct("16sI")


def udp6_stack(site, loggername="coap-server"):
    """Context served by transports.udp6 over a fake socket.

    Returns (context, message manager, inject, transport) where
    inject(datagram, sockaddr4tuple) does what the recvmsg transport does on
    reception (with a pktinfo saying the datagram was sent to 2001:db8::1)."""
    from aiocoap.transports.udp6 import MessageInterfaceUDP6

    loop = asyncio.get_running_loop()
    ctx = Context(loop=loop, serversite=site, loggername=loggername)
    transport = FakeDatagramTransport()

    def factory(mman):
        mint = MessageInterfaceUDP6(bind=("::", 5683), log=ctx.log, loop=loop)
        mint.connection_made(transport)
        mint._ctx = mman
        return mint

    mman, mint = _wire(ctx, factory)
    local = _PKTINFO.pack(socket.inet_pton(socket.AF_INET6, "2001:db8::1"), 0)

    def inject(datagram, sockaddr):
        mint.datagram_msg_received(
            datagram,
            [(socket.IPPROTO_IPV6, socket.IPV6_PKTINFO, local)],
            0,
            sockaddr,
        )

    return ctx, mman, inject, transport


async def settle(rounds=20):
    """Let tasks started by the injected datagrams run to completion (for
    handlers that do not sleep)."""
    for _ in range(rounds):
        await asyncio.sleep(0)


def quiet():
    logging.basicConfig(level=logging.CRITICAL)
