#!/usr/bin/env python3
"""Replay of inputs on which the UNCHANGED aiocoap tree violates property C18
(see notes.md).

Usage: notes_replay.py <path-to-repo-root> [scenario ...]

Scenarios: other-context, tcp-after-shutdown, tcp-late-response, no-transports,
simple6-known-remote (default: all).

Opens UDP and TCP sockets on ::1 / 127.0.0.1 only (ports picked at run time).
Run inside a private network namespace
(`unshare -n sh -c 'ip link set lo up; ...'`).

Exit status: 0 if none of the selected scenarios shows a violation, 1 if at
least one does (that is the expected outcome on the unchanged tree).
"""

import asyncio
import logging
import socket
import sys

sys.path.insert(0, sys.argv[1])

import aiocoap  # noqa: E402
import aiocoap.resource as resource  # noqa: E402
from aiocoap import Context, Message, GET, error  # noqa: E402

loop_errors = []


def free_port(kind=socket.SOCK_DGRAM, family=socket.AF_INET6, host="::1"):
    s = socket.socket(family, kind)
    try:
        s.bind((host, 0))
        return s.getsockname()[1]
    finally:
        s.close()


class Counter(resource.ObservableResource):
    def __init__(self):
        super().__init__()
        self.value = 0
        self.observers = 0

    def update_observation_count(self, newcount):
        self.observers = newcount

    def bump(self):
        self.value += 1
        self.updated_state()

    async def render_get(self, request):
        return Message(payload=b"%d" % self.value)


async def other_context():
    """Contexts A and B (same process) both observe a resource at server S.
    A is shut down. Sentence: "Other contexts in the same process are
    unaffected." B's observation has to go on (or, at the very least, to end
    with an error)."""
    port = free_port()
    counter = Counter()
    site = resource.Site()
    site.add_resource(["count"], counter)
    server = await Context.create_server_context(
        site, bind=("::1", port), transports=["udp6"]
    )
    uri = "coap://[::1]:%d/count" % port

    a = await Context.create_client_context(transports=["udp6"])
    b = await Context.create_client_context(transports=["udp6"])

    seen_b = []
    end_b = []

    async def consume(req, seen, end):
        try:
            async for n in req.observation:
                seen.append(n.payload)
            end.append("ended")
        except Exception as e:
            end.append(type(e).__name__)

    ra = a.request(Message(code=GET, uri=uri, observe=0))
    await ra.response
    rb = b.request(Message(code=GET, uri=uri, observe=0))
    await rb.response
    tb = asyncio.create_task(consume(rb, seen_b, end_b))
    await asyncio.sleep(0.1)

    counter.bump()
    await asyncio.sleep(0.3)
    print("  before A's shutdown: B saw %r, server counts %d observers" % (seen_b, counter.observers))

    await a.shutdown()
    print("  A shut down")

    # The resource changes a few times; B is alive and well and has to hear
    # of every (or at least the latest) change.
    for i in range(4):
        counter.bump()
        await asyncio.sleep(0.4)
    print(
        "  after 4 more changes (value now %d): B saw %r, B's iteration end: %r, server counts %d observers"
        % (counter.value, seen_b, end_b, counter.observers)
    )
    violated = not seen_b or seen_b[-1] != b"%d" % counter.value
    if violated:
        print(
            "  VIOLATION: B's observation went dead (last seen %r, resource is at %d) "
            "after the unrelated context A was shut down; B was told nothing (%r)"
            % (seen_b[-1:] or None, counter.value, end_b)
        )
    tb.cancel()
    await b.shutdown()
    await server.shutdown()
    return violated


class _TcpPeer(asyncio.Protocol):
    """A minimal CoAP-over-TCP server: sends a CSM, records what it receives,
    and answers the first request only once it has seen the client's Release
    message (a response that was already on its way when the client shut
    down)."""

    instances = []

    def __init__(self, answer_after_release):
        self.received = b""
        self.answer_after_release = answer_after_release
        self.answered = False
        self.closed = False
        _TcpPeer.instances.append(self)

    def connection_made(self, transport):
        self.transport = transport
        transport.write(bytes([0x00, 0xE1]))  # empty CSM

    def data_received(self, data):
        self.received += data
        # 7.04 Release is code 0xe4; the client sends it without options or token
        if (
            self.answer_after_release
            and not self.answered
            and bytes([0x00, 0xE4]) in self.received
        ):
            req = self.request()
            if req is not None:
                tkl, token = req
                self.answered = True
                payload = b"late"
                # Len nibble = options+payload marker+payload length
                ln = 1 + len(payload)
                self.transport.write(
                    bytes([(ln << 4) | tkl, 0x45]) + token + b"\xff" + payload
                )

    def request(self):
        """Find the GET (code 0x01) in what was received: Len/TKL, code, token"""
        d = self.received
        i = 0
        while i < len(d):
            ln, tkl = d[i] >> 4, d[i] & 0x0F
            if ln >= 13:
                return None  # not needed here
            code = d[i + 1]
            total = 2 + tkl + ln
            if code == 0x01:
                return tkl, d[i + 2 : i + 2 + tkl]
            i += total
        return None

    def connection_lost(self, exc):
        self.closed = True


async def tcp_after_shutdown():
    """A context with the default client transports (udp6, tcpclient, ...) is
    shut down; afterwards a request for a coap+tcp URI is submitted. Sentence:
    "After shutdown has returned the context transmits nothing more"."""
    port = free_port(socket.SOCK_STREAM, socket.AF_INET, "127.0.0.1")
    _TcpPeer.instances.clear()
    srv = await asyncio.get_running_loop().create_server(
        lambda: _TcpPeer(False), "127.0.0.1", port
    )
    ctx = await Context.create_client_context(transports=["udp6", "tcpclient"])
    await ctx.shutdown()
    print("  context shut down; submitting a coap+tcp request")
    try:
        await asyncio.wait_for(
            ctx.request(
                Message(code=GET, uri="coap+tcp://127.0.0.1:%d/x" % port)
            ).response,
            3,
        )
        outcome = "response"
    except Exception as e:
        outcome = type(e).__name__
    await asyncio.sleep(0.2)
    conns = list(_TcpPeer.instances)
    print(
        "  request outcome: %s; the peer saw %d new connection(s)%s"
        % (
            outcome,
            len(conns),
            "".join(
                ", received %s, still open: %s" % (c.received.hex(), not c.closed)
                for c in conns
            ),
        )
    )
    violated = bool(conns)
    if violated:
        print(
            "  VIOLATION: the shut down context opened a TCP connection and sent its CSM on it;"
            " the connection is never closed"
        )
    srv.close()
    for c in conns:
        c.transport.abort()
    return violated


async def tcp_late_response():
    """A request over TCP is outstanding when the context is shut down; the
    response was already on its way and arrives after shutdown() has returned
    (the client does not close its connections, it only sends Release).
    Sentence: "no timer or callback of it raises in the event loop"."""
    port = free_port(socket.SOCK_STREAM, socket.AF_INET, "127.0.0.1")
    _TcpPeer.instances.clear()
    srv = await asyncio.get_running_loop().create_server(
        lambda: _TcpPeer(True), "127.0.0.1", port
    )
    ctx = await Context.create_client_context(transports=["tcpclient"])
    req = ctx.request(Message(code=GET, uri="coap+tcp://127.0.0.1:%d/x" % port))
    await asyncio.sleep(0.3)
    before = len(loop_errors)
    await ctx.shutdown()
    try:
        await asyncio.wait_for(req.response, 2)
        outcome = "response"
    except Exception as e:
        outcome = type(e).__name__
    await asyncio.sleep(0.5)
    new = loop_errors[before:]
    peer = _TcpPeer.instances[0] if _TcpPeer.instances else None
    print(
        "  request outcome: %s; peer answered late: %s; event loop errors after shutdown: %r"
        % (outcome, peer and peer.answered, new)
    )
    violated = bool(new)
    if violated:
        print("  VIOLATION: a callback of the shut down context raised in the event loop")
    srv.close()
    for c in _TcpPeer.instances:
        c.transport.abort()
    return violated


async def no_transports():
    """A context without any transport. Sentence: "shutdown itself completes"."""
    ctx = await Context.create_client_context(transports=[])
    try:
        await ctx.shutdown()
        print("  shutdown() returned")
        return False
    except Exception as e:
        print("  VIOLATION: shutdown() raised %r" % e)
        return True


async def simple6_known_remote():
    """simple6 client transport; after shutdown a request is submitted that
    re-uses the remote of an earlier response. Sentence: "requests submitted
    afterwards fail immediately with the shutdown error"."""
    port = free_port()
    site = resource.Site()
    site.add_resource(["count"], Counter())
    server = await Context.create_server_context(
        site, bind=("::1", port), transports=["udp6"]
    )
    ctx = await Context.create_client_context(transports=["simple6"])
    r = await ctx.request(
        Message(code=GET, uri="coap://[::1]:%d/count" % port)
    ).response
    await ctx.shutdown()
    m = Message(code=GET, uri_path=["count"])
    m.remote = r.remote
    try:
        await asyncio.wait_for(ctx.request(m, handle_blockwise=False).response, 3)
        outcome = "response"
    except Exception as e:
        outcome = repr(e)
    print("  request after shutdown ended with: %s" % outcome)
    violated = "LibraryShutdown" not in outcome
    if violated:
        print("  VIOLATION: not the shutdown error")
    await server.shutdown()
    return violated


SCENARIOS = {
    "other-context": other_context,
    "tcp-after-shutdown": tcp_after_shutdown,
    "tcp-late-response": tcp_late_response,
    "no-transports": no_transports,
    "simple6-known-remote": simple6_known_remote,
}


async def main(names):
    asyncio.get_running_loop().set_exception_handler(
        lambda loop, ctx: loop_errors.append(
            "%s %r" % (ctx.get("message"), ctx.get("exception"))
        )
    )
    result = 0
    for n in names:
        print("scenario %s:" % n)
        try:
            if await SCENARIOS[n]():
                result = 1
            else:
                print("  no violation observed")
        except Exception as e:
            print("  scenario failed to run: %r" % e)
            result = max(result, 2)
    return result


if __name__ == "__main__":
    logging.basicConfig(level=logging.CRITICAL)
    names = sys.argv[2:] or list(SCENARIOS)
    sys.exit(asyncio.run(main(names)))
