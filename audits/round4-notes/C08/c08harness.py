"""Offline harness for the C08 demos: a server Context on a fake message
interface (no sockets), driven by a virtual-clock event loop.

Usage: import after sys.path has been set up so that `aiocoap` is the tree
under test.
"""

import asyncio
import heapq
import logging

import aiocoap
from aiocoap import interfaces, resource
from aiocoap.message import Message
from aiocoap.numbers.types import CON, NON, ACK, RST
from aiocoap.numbers.codes import Code, EMPTY, GET, CONTENT
from aiocoap.protocol import Context


class VirtualLoop(asyncio.SelectorEventLoop):
    """Event loop whose clock jumps to the next timer whenever nothing is
    ready; no real time passes (there is no real I/O in the harness)."""

    def __init__(self):
        super().__init__()
        self._vtime = 0.0

    def time(self):
        return self._vtime

    def _run_once(self):
        if not self._ready and self._scheduled:
            # drop cancelled heads like the base class would
            while self._scheduled and self._scheduled[0]._cancelled:
                h = heapq.heappop(self._scheduled)
                h._scheduled = False
            if self._scheduled:
                when = self._scheduled[0]._when
                if when > self._vtime:
                    self._vtime = when
        super()._run_once()


class FakeAddress(interfaces.EndpointAddress):
    scheme = "coap"
    is_multicast = False
    is_multicast_locally = False

    def __init__(self, name, interface=None):
        self.name = name
        self.interface = interface

    def __hash__(self):
        return hash(self.name)

    def __eq__(self, other):
        return isinstance(other, FakeAddress) and self.name == other.name

    def __repr__(self):
        return "<FakeAddress %s>" % self.name

    hostinfo = property(lambda self: self.name)
    hostinfo_local = "server"
    uri_base = property(lambda self: "coap://" + self.name)
    uri_base_local = "coap://server"

    @property
    def blockwise_key(self):
        return self.name


class FakeMessageInterface(interfaces.MessageInterface):
    def __init__(self, mman, loop):
        self.mman = mman
        self.loop = loop
        self.sent = []  # (time, remote, decoded message)
        self.fail_send_to = set()

    def send(self, message):
        raw = message.encode()
        if message.remote.name in self.fail_send_to:
            raise OSError("simulated send failure")
        decoded = Message.decode(raw, message.remote)
        self.sent.append((self.loop.time(), message.remote, decoded))

    async def shutdown(self):
        pass

    async def recognize_remote(self, remote):
        return isinstance(remote, FakeAddress)

    async def determine_remote(self, message):
        return None

    # helpers for the test driver

    def inject(self, remote, *, mtype, code, mid, token=b"", **opts):
        m = Message(code=code, **opts)
        m.mtype = mtype
        m.mid = mid
        m.token = token
        m.remote = remote
        raw = m.encode()
        incoming = Message.decode(raw, remote)
        self.mman.dispatch_message(incoming)

    def sent_to(self, remote, token=None):
        return [
            m
            for (_, r, m) in self.sent
            if r == remote and (token is None or m.token == token)
        ]


class CountingResource(resource.ObservableResource):
    """Observable resource with a state counter; records observer count
    changes and the cancellation of each observation."""

    def __init__(self):
        super().__init__()
        self.state = 0
        self.counts = []
        self.registrations = []  # (remote name, token, serial)
        self.cancel_calls = {}  # registration -> times its callback ran

    def update_observation_count(self, n):
        self.counts.append(n)

    async def add_observation(self, request, serverobservation):
        await super().add_observation(request, serverobservation)
        inner = serverobservation._cancellation_callback
        key = (request.remote.name, request.token, len(self.registrations))
        self.registrations.append(key)
        self.cancel_calls[key] = 0

        def cb():
            self.cancel_calls[key] += 1
            inner()

        serverobservation.accept(cb)

    def bump(self):
        self.state += 1
        self.updated_state()

    async def render_get(self, request):
        return Message(payload=b"state=%d" % self.state)


async def make_server(site_or_resource, path=("r",)):
    loop = asyncio.get_running_loop()
    if isinstance(site_or_resource, resource.Site):
        site = site_or_resource
    else:
        site = resource.Site()
        site.add_resource(list(path), site_or_resource)
    ctx = Context(loop=loop, serversite=site, loggername="coap-server")
    holder = {}

    async def construct(mman):
        mi = FakeMessageInterface(mman, loop)
        holder["mi"] = mi
        return mi

    await ctx._append_tokenmanaged_messagemanaged_transport(construct)
    return ctx, holder["mi"]


def run(coro, debug=False):
    logging.basicConfig(level=logging.DEBUG if debug else logging.CRITICAL)
    loop = VirtualLoop()
    asyncio.set_event_loop(loop)
    try:
        return loop.run_until_complete(coro)
    finally:
        loop.close()


async def settle(n=10):
    for _ in range(n):
        await asyncio.sleep(0)
