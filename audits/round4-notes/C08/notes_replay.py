"""Replay for notes.md: inputs on which the UNCHANGED tree violates C08.

Run as: /venv/bin/python notes_replay.py <repo-root>
No sockets: the server Context runs on a fake message interface and a
virtual clock (c08harness.py next to this file).
Exit 0 = property holds on everything that is checked, 1 = violated
(on the unchanged tree: 1, with one line per finding).
"""

import sys
import warnings

sys.path.insert(0, sys.argv[1] if len(sys.argv) > 1 else ".")
sys.path.insert(1, __file__.rsplit("/", 1)[0])

from c08harness import *  # noqa: E402,F403

findings = []


def finding(name, text):
    print("VIOLATION [%s]: %s" % (name, text))
    findings.append(name)


async def held_back(how):
    """A1/A2: a CON notification held back behind an unacknowledged one
    (NSTART=1 backlog of the message manager) goes out -- and is retransmitted
    -- after the registration has ended."""
    res = CountingResource()
    ctx, mi = await make_server(res)
    obs = FakeAddress("observer")
    T = b"\xa1"

    mi.inject(obs, mtype=CON, code=GET, mid=100, token=T, uri_path=("r",), observe=0)
    await settle()
    assert res.counts == [1]
    res.bump()  # notification 1: CON, in flight, not acknowledged
    await settle()
    res.bump()  # notification 2: held back behind notification 1
    await settle()
    n = mi.sent_to(obs, T)
    assert [m.opt.observe for m in n] == [0, 1] and n[1].mtype is CON, n

    mark = len(mi.sent)
    if how == "reset":
        mi.inject(obs, mtype=RST, code=EMPTY, mid=n[1].mid)
        await settle()
    else:
        # The observer uses the token for a plain GET (it forgot about the
        # observation), and acknowledges notification 1 afterwards
        mi.inject(obs, mtype=CON, code=GET, mid=101, token=T, uri_path=("r",))
        await settle()
        plain = mi.sent[mark:]
        assert len(plain) == 1 and plain[0][2].opt.observe is None, plain
        mark = len(mi.sent)
        mi.inject(obs, mtype=ACK, code=EMPTY, mid=n[1].mid)
        await settle()
    assert res.counts == [1, 0], res.counts  # ended: callback ran, count is back

    await asyncio.sleep(300)
    late = [
        (t, m)
        for (t, r, m) in mi.sent[mark:]
        if r == obs and m.token == T and m.opt.observe is not None
    ]
    if late:
        finding(
            "held-back/" + how,
            "registration ended (counts %r), then sent on its token: %s"
            % (
                res.counts,
                ", ".join(
                    "t=%.1f %s mid=%d Observe=%d %r"
                    % (t, m.mtype.name, m.mid, m.opt.observe, m.payload)
                    for (t, m) in late
                ),
            ),
        )
    await ctx.shutdown()


async def reset_of_non():
    """B: a Reset answering a NON notification does not end the registration."""
    res = CountingResource()
    ctx, mi = await make_server(res)
    obs = FakeAddress("observer")
    T = b"\xb2"
    mi.inject(obs, mtype=NON, code=GET, mid=7, token=T, uri_path=("r",), observe=0)
    await settle()
    res.bump()
    await settle()
    n = mi.sent_to(obs, T)
    assert [(m.mtype, m.opt.observe) for m in n] == [(NON, 0), (NON, 1)], n
    mi.inject(obs, mtype=RST, code=EMPTY, mid=n[1].mid)
    await settle()
    for _ in range(3):
        res.bump()
        await settle()
    await asyncio.sleep(300)
    after = mi.sent_to(obs, T)[2:]
    if res.counts != [1, 0] or after:
        finding(
            "reset-of-NON",
            "observer answered NON notification mid=%d with RST; counts %r, "
            "notifications sent afterwards: %r"
            % (n[1].mid, res.counts, [(m.mtype.name, m.opt.observe) for m in after]),
        )
    await ctx.shutdown()


class KeepsObservation(CountingResource):
    async def add_observation(self, request, serverobservation):
        await super().add_observation(request, serverobservation)
        self.servobs = serverobservation


async def late_deregister():
    """C: the first ServerObservation.deregister() after the first response
    is swallowed (deprecated API, but still there)."""
    res = KeepsObservation()
    ctx, mi = await make_server(res)
    obs = FakeAddress("observer")
    T = b"\xc3"
    mi.inject(obs, mtype=CON, code=GET, mid=9, token=T, uri_path=("r",), observe=0)
    await settle()
    with warnings.catch_warnings():
        warnings.simplefilter("ignore")
        res.servobs.deregister()
        await settle()
        sent = mi.sent_to(obs, T)
        if res.counts != [1, 0]:
            finding(
                "late-deregister",
                "deregister() after the first response: counts %r, sent %r; "
                "the registration goes on"
                % (res.counts, [(str(m.code), m.opt.observe) for m in sent]),
            )
            res.bump()
            await settle()
            print(
                "    (next change still notified: %r; a second deregister() does end it)"
                % [(str(m.code), m.opt.observe) for m in mi.sent_to(obs, T)][-1:]
            )
    await ctx.shutdown()


async def sync_error_typeerror():
    """D (no violation, robustness): TypeError out of Pipe._add_event when the
    transport reports an error from inside the send of a notification."""
    import errno

    res = CountingResource()
    ctx, mi = await make_server(res)
    obs = FakeAddress("observer")
    T = b"\xd4"
    plain_send = mi.send
    down = []

    def send(message):
        if down:
            mi.mman.dispatch_error(OSError(errno.ENETUNREACH, "unreachable"), message.remote)
            return
        plain_send(message)

    mi.send = send
    mi.inject(obs, mtype=CON, code=GET, mid=9, token=T, uri_path=("r",), observe=0)
    await settle()
    down.append(1)

    seen = []

    class H(logging.Handler):
        def emit(self, record):
            if record.exc_info and record.exc_info[1] is not None:
                seen.append(repr(record.exc_info[1]))

    h = H()
    logger = logging.getLogger("coap-server")
    logger.addHandler(h)
    logger.setLevel(logging.ERROR)
    logger.propagate = False
    res.bump()
    await settle()
    logger.removeHandler(h)
    logger.setLevel(logging.NOTSET)
    logger.propagate = True
    print(
        "note [sync-error]: counts %r (ended correctly); exceptions logged on the way: %r"
        % (res.counts, seen)
    )
    await ctx.shutdown()


if __name__ == "__main__":
    run(held_back("reset"))
    run(held_back("request"))
    run(reset_of_non())
    run(late_deregister())
    run(sync_error_typeerror())
    print(
        "property holds on what was checked"
        if not findings
        else "VIOLATED: " + ", ".join(findings)
    )
    sys.exit(1 if findings else 0)
