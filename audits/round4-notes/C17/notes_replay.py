#!/usr/bin/env python3
"""Replay of the observations in notes.md on the UNCHANGED tree.

Usage: notes_replay.py <path-to-repo-root>     (opens no sockets)

Exit status: 0 if none of the observations reproduces, 1 if item 1 (the main
one) reproduces; the others are reported on stdout only.
"""

import sys
import os

sys.path.insert(0, os.path.abspath(sys.argv[1]))
sys.path.insert(1, os.path.dirname(os.path.abspath(__file__)))

import aiocoap  # noqa: E402
from aiocoap import resource  # noqa: E402
from aiocoap.util.linkformat import Link, LinkFormat, parse  # noqa: E402

from c17_harness import Tagged, ask, discover, run  # noqa: E402

print("aiocoap from", aiocoap.__file__)


def site_with_wkc():
    root = resource.Site()
    root.add_resource(
        [".well-known", "core"],
        resource.WKCResource(root.get_resources_as_linkheader, impl_info=None),
    )
    return root


async def item1():
    """An attribute value with a backslash makes the listing lose resources"""
    root = site_with_wkc()
    root.add_resource(["a"], Tagged("a", title="C:\\"))  # ends in one backslash
    root.add_resource(["b"], Tagged("b", rt="x"))
    root.add_resource(["c"], Tagged("c", rt="y"))
    payload = (await ask(root, (".well-known", "core"))).payload
    print("item 1: payload:", payload.decode("utf8"))
    try:
        hrefs = [link.href for link in parse(payload).links]
    except Exception as e:
        print("item 1: REPRODUCED: the listing can not be parsed:", repr(e)[:120])
        return True
    print("item 1: parsed hrefs:", hrefs)
    if sorted(hrefs) != ["/.well-known/core", "/a", "/b", "/c"]:
        print("item 1: REPRODUCED: registered resources are missing from the parsed listing")
        return True
    print("item 1: not reproduced")
    return False


async def item2():
    """WKCResource writes into the object its list generator returned"""
    static = LinkFormat([Link("/s1", rt="one"), Link("/s2", rt="two")])
    root = resource.Site()
    root.add_resource([".well-known", "core"], resource.WKCResource(lambda: static))
    first = [h for h, _ in await discover(root, ["rt=one"])]
    second = [h for h, _ in await discover(root)]
    third = (await ask(root, (".well-known", "core"))).payload.decode("utf8")
    print("item 2: ?rt=one ->", first, "; then the unfiltered listing ->", second)
    print("item 2: third answer:", third)
    if second != ["/s1", "/s2"]:
        print("item 2: REPRODUCED: a filter query changed what later requests are answered")
    if third.count("impl-info") > 1:
        print("item 2: REPRODUCED: the impl-info link piles up")


async def item3():
    """'.' and '..' path components are listed verbatim"""
    root = site_with_wkc()
    root.add_resource(["a", "..", "b"], Tagged("dots"))
    root.add_resource(["b"], Tagged("b"))
    print("item 3: listing:", [h for h, _ in await discover(root)])
    from urllib.parse import urljoin

    print("item 3: RFC 3986 resolution of </a/../b> against http://h/ gives",
          urljoin("http://h/", "/a/../b"))


async def item4():
    """remove_resource with a one-shot iterable"""
    root = site_with_wkc()
    root.add_resource([], Tagged("root"))
    root.add_resource(filter(None, "/x/y".split("/")), Tagged("xy"))
    try:
        root.remove_resource(filter(None, "/x/y".split("/")))
    except Exception as e:
        print("item 4: remove_resource raised", repr(e))
    print("item 4: after remove_resource(/x/y given as a filter object): /x/y ->",
          (await ask(root, ("x", "y"))).code, ", / ->", (await ask(root, ())).code)


async def main():
    reproduced = await item1()
    await item2()
    await item3()
    await item4()
    return 1 if reproduced else 0


sys.exit(run(main()))
