#!/usr/bin/env python3
"""C16 round 4: replay of findings on the UNCHANGED tree (see notes.md)

usage: notes_replay.py <path-to-repo-root>
Exit status 1 if at least one finding reproduces, 0 if none does. No sockets.
"""

import sys

sys.path.insert(0, sys.argv[1])

import aiocoap  # noqa: E402
from aiocoap import Message, GET  # noqa: E402
from aiocoap.error import MalformedUrlError, IncompleteUrlError  # noqa: E402

print("aiocoap from", aiocoap.__file__)
reproduced = []


def finding(name, happened, detail):
    print("%-4s %s: %s" % ("REPR" if happened else "gone", name, detail))
    if happened:
        reproduced.append(name)


def decompose(uri, **kw):
    m = Message(code=GET)
    m.set_request_uri(uri, **kw)
    return m


# N1: decomposing a URI into a message that already carries Uri-* / Proxy-Uri
# options (Message.copy(uri=...), or a second set_request_uri) leaves options
# behind that the new URI does not have
m = Message(code=GET, uri="coap://example.com/a?b").copy(uri="coap://10.0.0.1/c")
finding(
    "N1a stale Uri-Host after copy(uri=<IP literal>)",
    m.opt.uri_host is not None or m.get_request_uri() != "coap://10.0.0.1/c",
    "Uri-Host %r, destination %r, get_request_uri() %r"
    % (m.opt.uri_host, m.remote, m.get_request_uri()),
)
m = Message(code=GET, uri="http://example.com/x").copy(uri="coap://h/y")
finding(
    "N1b stale Proxy-Uri after copy(uri=<coap URI>)",
    m.opt.proxy_uri is not None or m.get_request_uri() != "coap://h/y",
    "Proxy-Uri %r, get_request_uri() %r" % (m.opt.proxy_uri, m.get_request_uri()),
)
m = Message(code=GET, uri="coap://example.com/a")
m.set_request_uri("coap://other.example/a", set_uri_host=False)
finding(
    "N1c stale Uri-Host after set_request_uri(..., set_uri_host=False)",
    m.opt.uri_host is not None or m.get_request_uri() != "coap://other.example/a",
    "Uri-Host %r, get_request_uri() %r" % (m.opt.uri_host, m.get_request_uri()),
)

# N2: a name with percent escapes kept in the destination (set_uri_host=False)
# is escaped a second time as soon as a Uri-Port option makes get_request_uri
# split and re-join the authority
m = decompose("coap://a%2Fb/x", set_uri_host=False)
m.opt.uri_port = 1234
u = m.get_request_uri()
finding(
    "N2 host escaped twice with Uri-Port and no Uri-Host",
    u != "coap://a%2Fb:1234/x",
    "composed %r; it decomposes to Uri-Host %r (the host was 'a/b')"
    % (u, decompose(u).opt.uri_host),
)

# N3: an empty fragment is a fragment (RFC 3986: defined but empty), the coap
# URI schemes have none
try:
    m = decompose("coap://h/a#")
    finding("N3 empty fragment accepted", True, "-> %r" % m.get_request_uri())
except MalformedUrlError:
    finding("N3 empty fragment accepted", False, "rejected")

# N4: non-UTF-8 escapes in the host are only looked at when the host goes
# into Uri-Host
try:
    m = decompose("coap://%ff%fe/", set_uri_host=False)
    finding("N4 non-UTF-8 host with set_uri_host=False", True, "-> %r" % (m.remote,))
except MalformedUrlError:
    finding("N4 non-UTF-8 host with set_uri_host=False", False, "rejected")

# N5: urllib lower-cases the raw host with str.lower(), i.e. over all of
# Unicode; 6.4 step 5 asks for ASCII lower case. The escaped spelling of the
# same host is (correctly) only ASCII lower-cased, so two spellings of one URI
# give two Uri-Hosts, and KELVIN SIGN collapses with 'k'
raw = decompose("coap://K.example/").opt.uri_host
esc = decompose("coap://%E2%84%AA.example/").opt.uri_host
finding(
    "N5 raw non-ASCII host is Unicode-lower-cased",
    raw != esc,
    "raw spelling -> %r, escaped spelling -> %r" % (raw, esc),
)

# N6: the constructor ignores an empty URI instead of raising IncompleteUrlError
try:
    m = Message(code=GET, uri="")
    finding("N6 Message(uri='') is not rejected", True, "options: %r" % (m.opt,))
except IncompleteUrlError:
    finding("N6 Message(uri='') is not rejected", False, "rejected")

# N7: incomplete escapes are taken literally (FIXME in the source), TAB / CR /
# LF inside and blanks ahead of the URI are dropped by urllib
for uri in ["coap://h/a%zz", "coap://h/a%", "coap://h/a\nb", " coap://h/a"]:
    try:
        m = decompose(uri)
        finding("N7 %r accepted" % uri, True, "Uri-Path %r" % (m.opt.uri_path,))
    except MalformedUrlError:
        finding("N7 %r accepted" % uri, False, "rejected")

# N8: Uri-Port 0 / empty Uri-Host are skipped by `or` in get_request_uri
m = Message(code=GET, uri="coap://h:7777/")
m.opt.uri_port = 0
finding(
    "N8 Uri-Port 0 ignored when composing",
    m.get_request_uri() != "coap://h:0/",
    "-> %r" % m.get_request_uri(),
)

print("\n%d finding(s) reproduce" % len(reproduced))
sys.exit(1 if reproduced else 0)
