#!/venv/bin/python
"""C06 round 4: replay of inputs on which the UNCHANGED code violates the property.

Usage: notes_replay.py <path-to-repo-root>

No sockets, no real waiting (virtual clock, see c06_harness.py). See notes.md
next to this file for the discussion. Exit status 0: none of the findings
reproduces on the given tree; 1: at least one of findings 1 and 2 reproduces
(finding 3 is borderline and only reported).
"""

import sys
import os
import asyncio

sys.path.insert(0, os.path.abspath(sys.argv[1]))
sys.path.insert(1, os.path.dirname(os.path.abspath(__file__)))

from c06_harness import endpoint, request, serve, start, describe, Report, run  # noqa: E402

import aiocoap  # noqa: E402
from aiocoap import resource, Message, GET, PUT, CONTENT, CHANGED  # noqa: E402
from aiocoap.numbers.codes import Code  # noqa: E402

assert os.path.abspath(aiocoap.__file__).startswith(os.path.abspath(sys.argv[1])), (
    aiocoap.__file__
)


class Slow(resource.Resource):
    """Every rendering is different (a counter) and takes the time it is told to"""

    def __init__(self):
        super().__init__()
        self.count = 0
        self.delays = []

    async def render_get(self, req):
        self.count += 1
        mine = self.count
        delay = self.delays.pop(0) if self.delays else 0
        if delay:
            await asyncio.sleep(delay)
        return Message(code=CONTENT, payload=b"%d" % mine * 200)


class Store(resource.Resource):
    def __init__(self):
        super().__init__()
        self.bodies = []

    async def render_put(self, req):
        self.bodies.append((req.opt.uri_path, req.payload))
        return Message(code=CHANGED)


async def finding1(loop, report):
    print("=== 1: two block-0 requests of one endpoint whose renderings overlap in time")
    slow = Slow()
    site = resource.Site()
    site.add_resource(["slow"], slow)
    a = endpoint(40001)

    slow.delays = [5, 1]
    first = start(site, request(GET, a, ["slow"], block2=(0, False, 2)))
    await loop.advance(0.5)
    second = start(site, request(GET, a, ["slow"], block2=(0, False, 2)))
    await loop.advance(10)
    (r_first,) = await first
    (r_second,) = await second
    print(
        "          request sent at t=0   (rendering takes 5 s): %s, payload %r..."
        % (describe(r_first), r_first.payload[:4])
    )
    print(
        "          request sent at t=0.5 (rendering takes 1 s): %s, payload %r..."
        % (describe(r_second), r_second.payload[:4])
    )
    later = await serve(site, request(GET, a, ["slow"], block2=(1, False, 2)))
    latest_rendering = b"2" * 200
    report.check(
        later.payload == latest_rendering[64:128],
        "block 1 asked at t=10.5 answered %s, payload %r...; the latest block-0 request was the one of t=0.5, whose rendering is %r..."
        % (describe(later), later.payload[:4], latest_rendering[:4]),
    )


async def finding2(loop, report):
    print("=== 2: one resource object registered under two paths")
    store = Store()
    site = resource.Site()
    site.add_resource(["inbox"], store)
    site.add_resource(["alias", "of", "inbox"], store)
    a = endpoint(40002)
    r1 = await serve(
        site, request(PUT, a, ["inbox"], payload=b"i" * 16, block1=(0, True, 0))
    )
    r2 = await serve(
        site,
        request(
            PUT, a, ["alias", "of", "inbox"], payload=b"A" * 5, block1=(1, False, 0)
        ),
    )
    print("          PUT /inbox          Block1 0/1/0: %s" % describe(r1))
    print("          PUT /alias/of/inbox Block1 1/0/0: %s" % describe(r2))
    report.check(
        r2.code == Code.REQUEST_ENTITY_INCOMPLETE and not store.bodies,
        "block 1 sent to a different Uri-Path than block 0 (no transfer was started there): expected 4.08 and no handler call; handler calls: %r"
        % (store.bodies,),
    )


async def finding3(loop):
    print("=== 3 (borderline): empty non-final blocks with size exponent 7")
    store = Store()
    site = resource.Site()
    site.add_resource(["inbox"], store)
    a = endpoint(40003)
    seq = [
        (b"a" * 1024, (0, True, 7)),
        (b"", (1, True, 7)),
        (b"", (1, True, 7)),
        (b"z" * 10, (1, False, 7)),
    ]
    for payload, block1 in seq:
        r = await serve(site, request(PUT, a, ["inbox"], payload=payload, block1=block1))
        print(
            "          PUT Block1 %d/%d/%d with %4d bytes: %s"
            % (block1[0], block1[1], block1[2], len(payload), describe(r))
        )
    print(
        "          block number 1 was sent three times (twice with more-flag and no payload) and accepted each time; handler calls: %r"
        % [(p, len(b)) for (p, b) in store.bodies]
    )


async def main(loop):
    report = Report()
    await finding1(loop, report)
    await finding2(loop, report)
    await finding3(loop)
    return report.exit_code()


if __name__ == "__main__":
    sys.exit(run(main))
