"""Support code for the C11 demos (round 4).

* puts <repo root> first on sys.path and /tmp/mut/shims after it, so that
  ``import aiocoap.oscore`` works without cbor2 / cryptography / filelock;
* installs a real AES-CCM (pure Python, RFC 3610 / NIST SP 800-38C) in place
  of the shim's ``aead.AESCCM`` stub, so that aiocoap's own algorithm classes
  (AES_CCM_16_64_128 etc.) are exercised unchanged;
* offers an in-memory security context and a few helpers.

No sockets are opened by anything in here.
"""

import sys
import os

SHIMS = "/tmp/mut/shims"


def setup(repo_root):
    repo_root = os.path.abspath(repo_root)
    # repository first, shims after it
    sys.path[:] = [p for p in sys.path if os.path.abspath(p or ".") != repo_root]
    sys.path.insert(0, repo_root)
    if SHIMS not in sys.path:
        sys.path.insert(1, SHIMS)

    from cryptography.hazmat.primitives.ciphers import aead
    import cryptography.exceptions

    AESCCM.InvalidTag = cryptography.exceptions.InvalidTag
    aead.AESCCM = AESCCM

    import aiocoap
    import aiocoap.oscore

    assert os.path.abspath(aiocoap.__file__).startswith(repo_root + os.sep), (
        "aiocoap was not imported from the given tree: %s" % aiocoap.__file__
    )
    return aiocoap.oscore


# ---------------------------------------------------------------- AES ------

_SBOX = None


def _init_sbox():
    global _SBOX
    # generate the AES S-box
    p = q = 1
    sbox = [0] * 256
    while True:
        # multiply p by 3
        p = p ^ ((p << 1) & 0xFF) ^ (0x1B if p & 0x80 else 0)
        # divide q by 3
        q ^= q << 1
        q ^= q << 2
        q ^= q << 4
        q &= 0xFF
        if q & 0x80:
            q ^= 0x09
        x = q ^ _rotl8(q, 1) ^ _rotl8(q, 2) ^ _rotl8(q, 3) ^ _rotl8(q, 4)
        sbox[p] = (x ^ 0x63) & 0xFF
        if p == 1:
            break
    sbox[0] = 0x63
    _SBOX = sbox


def _rotl8(x, s):
    return ((x << s) | (x >> (8 - s))) & 0xFF


def _xtime(a):
    return ((a << 1) ^ 0x1B) & 0xFF if a & 0x80 else (a << 1)


class _AES:
    def __init__(self, key):
        if _SBOX is None:
            _init_sbox()
        assert len(key) in (16, 24, 32)
        nk = len(key) // 4
        self.rounds = nk + 6
        w = [list(key[4 * i : 4 * i + 4]) for i in range(nk)]
        rcon = 1
        for i in range(nk, 4 * (self.rounds + 1)):
            t = list(w[i - 1])
            if i % nk == 0:
                t = t[1:] + t[:1]
                t = [_SBOX[b] for b in t]
                t[0] ^= rcon
                rcon = _xtime(rcon)
            elif nk > 6 and i % nk == 4:
                t = [_SBOX[b] for b in t]
            w.append([a ^ b for a, b in zip(w[i - nk], t)])
        self.rk = [sum(w[4 * r : 4 * r + 4], []) for r in range(self.rounds + 1)]

    def encrypt_block(self, block):
        s = [b ^ k for b, k in zip(block, self.rk[0])]
        for r in range(1, self.rounds + 1):
            s = [_SBOX[b] for b in s]
            # shift rows (state is column-major: index = 4*col + row)
            s = [s[(4 * (c + row) + row) % 16] for c in range(4) for row in range(4)]
            if r != self.rounds:
                t = []
                for c in range(4):
                    a = s[4 * c : 4 * c + 4]
                    x = a[0] ^ a[1] ^ a[2] ^ a[3]
                    t += [
                        a[0] ^ x ^ _xtime(a[0] ^ a[1]),
                        a[1] ^ x ^ _xtime(a[1] ^ a[2]),
                        a[2] ^ x ^ _xtime(a[2] ^ a[3]),
                        a[3] ^ x ^ _xtime(a[3] ^ a[0]),
                    ]
                s = t
            s = [b ^ k for b, k in zip(s, self.rk[r])]
        return bytes(s)


class AESCCM:
    """Drop-in for cryptography's AESCCM (encrypt/decrypt with nonce, data, aad)."""

    InvalidTag = ValueError

    def __init__(self, key, tag_length=16):
        self._aes = _AES(bytes(key))
        self._t = tag_length

    def _mac_and_stream(self, nonce, plaintext_len, aad):
        L = 15 - len(nonce)
        assert 2 <= L <= 8
        flags = (0x40 if aad else 0) | (((self._t - 2) // 2) << 3) | (L - 1)
        b0 = bytes([flags]) + nonce + plaintext_len.to_bytes(L, "big")
        blocks = b""
        if aad:
            la = len(aad)
            if la < 0xFF00:
                enc = la.to_bytes(2, "big")
            else:
                enc = b"\xff\xfe" + la.to_bytes(4, "big")
            blocks = enc + aad
            blocks += b"\0" * (-len(blocks) % 16)
        return L, b0, blocks

    def _cbcmac(self, b0, blocks, plaintext):
        data = b0 + blocks + plaintext + b"\0" * (-len(plaintext) % 16)
        x = bytes(16)
        for i in range(0, len(data), 16):
            x = self._aes.encrypt_block(bytes(a ^ b for a, b in zip(x, data[i : i + 16])))
        return x[: self._t]

    def _ctr(self, nonce, L, data):
        out = bytearray()
        s0 = self._aes.encrypt_block(bytes([L - 1]) + nonce + (0).to_bytes(L, "big"))
        for i in range(0, len(data), 16):
            ks = self._aes.encrypt_block(
                bytes([L - 1]) + nonce + (i // 16 + 1).to_bytes(L, "big")
            )
            out += bytes(a ^ b for a, b in zip(data[i : i + 16], ks))
        return bytes(out), s0

    def encrypt(self, nonce, data, associated_data):
        aad = associated_data or b""
        L, b0, blocks = self._mac_and_stream(nonce, len(data), aad)
        tag = self._cbcmac(b0, blocks, data)
        ct, s0 = self._ctr(nonce, L, data)
        return ct + bytes(a ^ b for a, b in zip(tag, s0))

    def decrypt(self, nonce, data, associated_data):
        aad = associated_data or b""
        if len(data) < self._t:
            raise self.InvalidTag()
        ct, enctag = data[: -self._t], data[-self._t :]
        L, b0, blocks = self._mac_and_stream(nonce, len(ct), aad)
        pt, s0 = self._ctr(nonce, L, ct)
        tag = bytes(a ^ b for a, b in zip(enctag, s0))
        if tag != self._cbcmac(b0, blocks, pt):
            raise self.InvalidTag()
        return pt


# ------------------------------------------------------- contexts ----------


def make_context_class(oscore):
    class MemoryContext(
        oscore.CanProtect, oscore.CanUnprotect, oscore.SecurityContextUtils
    ):
        """A security context kept in memory (as the one in tests/test_oscore.py)."""

        echo_recovery = None

        def __init__(
            self,
            sender_id,
            recipient_id,
            secret=bytes(range(1, 17)),
            salt=bytes.fromhex("9e7ca92223786340"),
            id_context=None,
            algorithm="AES-CCM-16-64-128",
            window=32,
        ):
            self.alg_aead = oscore.algorithms[algorithm]
            self.hashfun = oscore.hashfunctions["sha256"]
            self.sender_id = sender_id
            self.recipient_id = recipient_id
            self.id_context = id_context
            self.derive_keys(salt, secret)
            self.sender_sequence_number = 0
            self.recipient_replay_window = oscore.ReplayWindow(window, lambda: None)
            self.recipient_replay_window.initialize_empty()

        def post_seqnoincrease(self):
            pass

    return MemoryContext


def over_the_wire(aiocoap, message):
    """What the receiver gets: serialise the outgoing message and parse it again."""
    message.mtype = aiocoap.CON if message.mtype is None else message.mtype
    message.mid = 1 if message.mid is None else message.mid
    raw = message.encode()
    return aiocoap.Message.decode(raw), raw
