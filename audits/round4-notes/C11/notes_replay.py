#!/usr/bin/env python3
"""Replay of the observations in notes.md on the UNCHANGED tree.

Run as:  /venv/bin/python notes_replay.py <path-to-repo-root>
No sockets; N3 writes a temporary directory.  Exit status 1 if at least one of
the observations reproduces (expected on the unchanged tree), 0 if none does.
"""

import sys
import os
import json
import shutil
import tempfile

HERE = os.path.dirname(os.path.abspath(__file__))
sys.path.insert(0, HERE)
import c11_support  # noqa: E402

if len(sys.argv) != 2:
    sys.exit("usage: notes_replay.py <path-to-repo-root>")
oscore = c11_support.setup(sys.argv[1])
import aiocoap  # noqa: E402

Context = c11_support.make_context_class(oscore)
reproduced = []


def wire(m):
    return c11_support.over_the_wire(aiocoap, m)[0]


def pair():
    return Context(b"\x01", b"\x02"), Context(b"\x02", b"\x01")


def exchange(observe=None):
    """One request and two responses (the second one has its own Partial IV)."""
    client, server = pair()
    server.sender_sequence_number = 5
    outer, client_rid = client.protect(
        aiocoap.Message(code=aiocoap.GET, uri="coap://h/a", observe=observe)
    )
    _, server_rid = server.unprotect(wire(outer))
    r1, _ = server.protect(aiocoap.Message(code=aiocoap.CONTENT, payload=b"first"), server_rid)
    r2, _ = server.protect(aiocoap.Message(code=aiocoap.CONTENT, payload=b"second"), server_rid)
    return client, client_rid, r1, r2


# ---- N1: bytes appended to the OSCORE option are ignored --------------------
print("N1: OSCORE option of a response with bytes appended")
client, rid, r1, r2 = exchange()
for label, response, junk in (
    ("response without Partial IV, option b'' -> 00 aa bb", r1, b"\x00\xaa\xbb"),
    ("response with Partial IV, option 01 05 -> 01 05 aa", r2, None),
):
    received = wire(response)
    before = received.opt.oscore
    received.opt.oscore = junk if junk is not None else before + b"\xaa"
    try:
        plain, _ = client.unprotect(received, rid)
    except oscore.ProtectionInvalid as e:
        print("   %s: rejected (%s)" % (label, e))
    else:
        print("   %s: ACCEPTED, yields %s %r" % (label, plain.code, plain.payload))
        reproduced.append("N1")

# ---- N2: Partial IV of a response re-encoded with a leading zero ------------
print("N2: Partial IV field of a response changed from 01 05 to 02 00 05")
client, rid, r1, r2 = exchange()
received = wire(r2)
assert received.opt.oscore == b"\x01\x05", received.opt.oscore
received.opt.oscore = b"\x02\x00\x05"
try:
    plain, _ = client.unprotect(received, rid)
except oscore.ProtectionInvalid as e:
    print("   rejected (%s)" % e)
else:
    print("   ACCEPTED, yields %s %r" % (plain.code, plain.payload))
    reproduced.append("N2")

# ---- N3: failing _store() once, then an unclean shutdown --------------------
print("N3: FilesystemSecurityContext: one failed write of sequence.json, later a crash")
base = tempfile.mkdtemp(prefix="c11-notes-")
try:
    with open(os.path.join(base, "settings.json"), "w") as f:
        json.dump(
            {"sender-id_hex": "01", "recipient-id_hex": "02", "secret_hex": "0102030405060708090a0b0c0d0e0f10"},
            f,
        )
    ctx = oscore.FilesystemSecurityContext(base)
    used = set()

    def send(c):
        outer, _ = c.protect(aiocoap.Message(code=aiocoap.GET, uri="coap://h/a"))
        return oscore.verify_start(outer)[oscore.COSE_PIV]

    for _ in range(10):  # numbers 0..9, covered by next-to-send = 10 in the file
        used.add(send(ctx))
    real_store = ctx._store

    def failing_store():
        raise OSError(28, "No space left on device")

    ctx._store = failing_store
    try:
        send(ctx)  # would take number 10 and persist next-to-send = 30
    except OSError as e:
        print("   protect() failed as it should: %s" % e)
    ctx._store = real_store  # the disk has room again
    for _ in range(5):
        used.add(send(ctx))
    with open(os.path.join(base, "sequence.json")) as f:
        on_disk = json.load(f)["next-to-send"]
    print(
        "   in memory: next %d, believed persisted %d; in sequence.json: next-to-send %d"
        % (ctx.sender_sequence_number, ctx.sequence_number_persisted, on_disk)
    )
    # crash: nothing written back
    lock = ctx.lockfile.lock_file
    ctx.lockfile = None
    os.unlink(lock)
    ctx2 = oscore.FilesystemSecurityContext(base)
    again = [send(ctx2) for _ in range(6)]
    reused = [p.hex() for p in again if p in used]
    print("   Partial IVs sent after the restart: %s; used before the crash as well: %s" % ([p.hex() for p in again], reused))
    if reused:
        reproduced.append("N3")
    ctx2.lockfile = None
finally:
    shutil.rmtree(base, ignore_errors=True)

# ---- N4: a request with a Proxy-Uri option can not be protected -------------
print("N4: protecting a request with Proxy-Uri coap://dev.example/a?b=c")
client, server = pair()
try:
    outer, _ = client.protect(aiocoap.Message(code=aiocoap.GET, proxy_uri="coap://dev.example/a?b=c"))
except Exception as e:
    print("   protect() raises %s: %s" % (type(e).__name__, e))
    reproduced.append("N4")
else:
    print("   protected; outer options: %s" % outer.opt)

# ---- N5: Observe=1 and Uri-Port do not survive ------------------------------
print("N5: options that are lost")
client, server = pair()
outer, _ = client.protect(aiocoap.Message(code=aiocoap.GET, uri="coap://h/a", observe=1))
plain, _ = server.unprotect(wire(outer))
print("   request with Observe=1: outer Observe=%r, unprotected Observe=%r" % (outer.opt.observe, plain.opt.observe))
if plain.opt.observe != 1:
    reproduced.append("N5-observe")
client, server = pair()
outer, _ = client.protect(aiocoap.Message(code=aiocoap.GET, uri_host="h", uri_port=61616, uri_path=("a",)))
plain, _ = server.unprotect(wire(outer))
print("   request with Uri-Port=61616: outer Uri-Port=%r, unprotected Uri-Port=%r" % (outer.opt.uri_port, plain.opt.uri_port))
if outer.opt.uri_port is None and plain.opt.uri_port is None:
    reproduced.append("N5-uri-port")

# ---- N6: outer code manipulated ---------------------------------------------
print("N6: single-bit changes of the outer code")
client, server = pair()
outer, rid = client.protect(aiocoap.Message(code=aiocoap.GET, uri="coap://h/a"))
received = wire(outer)
received.code = aiocoap.Code(int(received.code) ^ 0x01)  # 0.02 POST -> 0.03 PUT
try:
    server.unprotect(received)
except oscore.ProtectionInvalid as e:
    print("   request POST->PUT: protection error (%s)" % e)
except Exception as e:
    print("   request POST->PUT: %s: %s  (not a ProtectionInvalid)" % (type(e).__name__, e))
    reproduced.append("N6-request")
client, rid, r1, r2 = exchange()
received = wire(r1)
received.code = aiocoap.Code(int(received.code) ^ 0x40)  # 2.04 -> 0.04
try:
    client.unprotect(received, rid)
except oscore.ProtectionInvalid as e:
    print("   response 2.04->0.04: protection error (%s)" % e)
except BaseException as e:
    print("   response 2.04->0.04: %s: %s  (not a ProtectionInvalid)" % (type(e).__name__, e))
    reproduced.append("N6-response")

print()
print("reproduced:", ", ".join(reproduced) if reproduced else "nothing")
sys.exit(1 if reproduced else 0)
