"""Socket-free stand-in for a UDP transport, used by demo7.py / demo8.py /
notes_replay.py.

A real aiocoap Context is built with the library's own TokenManager and
MessageManager; only the lowest layer (the MessageInterface that would own the
UDP socket) is replaced by FakeMessageInterface, which records what is sent
and lets the test script inject incoming messages and transport errors exactly
where a socket would hand them to the library
(MessageManager.dispatch_message / MessageManager.dispatch_error).

No sockets are opened.
"""

import asyncio

from aiocoap import interfaces, Message
from aiocoap.numbers.types import Type
from aiocoap.message import Direction
from aiocoap.protocol import Context
from aiocoap.tokenmanager import TokenManager
from aiocoap.messagemanager import MessageManager


class FakeAddress(interfaces.EndpointAddress):
    scheme = "coap"
    is_multicast = False
    is_multicast_locally = False

    def __init__(self, name):
        self.name = name

    def __hash__(self):
        return hash(self.name)

    def __eq__(self, other):
        return isinstance(other, FakeAddress) and self.name == other.name

    def __repr__(self):
        return "<FakeAddress %s>" % self.name

    hostinfo = property(lambda self: self.name)
    hostinfo_local = "localhost"
    uri_base = property(lambda self: "coap://" + self.name)
    uri_base_local = "coap://localhost"
    blockwise_key = property(lambda self: self.name)


class FakeMessageInterface(interfaces.MessageInterface):
    def __init__(self, mman):
        self.mman = mman
        self.sent = []

    async def shutdown(self):
        pass

    def send(self, message):
        # what a socket transport does first: serialize
        message.encode()
        self.sent.append(message)

    async def recognize_remote(self, remote):
        return isinstance(remote, FakeAddress)

    async def determine_remote(self, message):
        return None

    # --- helpers for the test scripts ---

    def last_sent(self, remote=None):
        for m in reversed(self.sent):
            if remote is None or m.remote == remote:
                return m
        raise AssertionError("nothing sent")

    def inject(self, remote, *, mtype, mid, token, code, payload=b"", **opts):
        """Hand a message to the library as if it had been received from
        `remote`; goes through a serialize/parse round trip like on a wire."""
        m = Message(code=code, payload=payload, **opts)
        m.mtype = Type(mtype)
        m.mid = mid
        m.token = token
        raw = m.encode()
        incoming = Message.decode(raw, remote)
        incoming.direction = Direction.INCOMING
        self.mman.dispatch_message(incoming)

    def fail(self, remote, exception):
        """What udp6 does when the OS reports an ICMP error for `remote`."""
        self.mman.dispatch_error(exception, remote)


async def make_context():
    ctx = Context(loggername="coap-demo")
    box = {}

    async def constructor(mman):
        box["mi"] = FakeMessageInterface(mman)
        return box["mi"]

    await ctx._append_tokenmanaged_messagemanaged_transport(constructor)
    tman = ctx.request_interfaces[0]
    assert isinstance(tman, TokenManager)
    assert isinstance(tman.token_interface, MessageManager)
    return ctx, tman, box["mi"]


async def settle(n=5):
    for _ in range(n):
        await asyncio.sleep(0)
