"""Replay of the observations in notes.md on the UNCHANGED tree.

usage: /venv/bin/python notes_replay.py <path-to-repo-root>

Exit status 0 = none of the described behaviours reproduced, 1 = at least one
reproduced (expected on the unchanged tree at fafe9a5). No sockets are opened.
"""

import sys
import os
import asyncio
import logging
import warnings

sys.path.insert(0, os.path.abspath(sys.argv[1]))
sys.path.insert(1, os.path.dirname(os.path.abspath(__file__)))

import aiocoap  # noqa: E402
from aiocoap import Message, GET, CONTENT, error, interfaces  # noqa: E402
from aiocoap.numbers.types import Type  # noqa: E402
from aiocoap.message import Direction  # noqa: E402
from aiocoap.protocol import Context  # noqa: E402
import fakenet  # noqa: E402

CON, NON, ACK, RST = 0, 1, 2, 3
reproduced = []


def report(name, happened, text):
    print("%s %s: %s" % ("REPRODUCED" if happened else "not reproduced", name, text))
    if happened:
        reproduced.append(name)


# ---------------------------------------------------------------------------
# N1: block-wise API, application cancels the observation while the body of
# the FIRST response is still being fetched: the lower observation (and its
# token) is never given up.
# ---------------------------------------------------------------------------


async def n1():
    ctx, tman, mi = await fakenet.make_context()
    A = fakenet.FakeAddress("peer-a")
    req = Message(code=GET, observe=0, uri_path=("big",))
    req.remote = A
    o = ctx.request(req)  # block-wise API (the default)
    await fakenet.settle()
    sent = mi.last_sent(A)
    token = sent.token
    # first response: notification, first of two Block2 blocks
    mi.inject(
        A, mtype=ACK, mid=sent.mid, token=token, code=CONTENT,
        observe=10, block2=(0, True, 6), payload=b"x" * 1024,
    )
    await fakenet.settle()
    blockreq = mi.last_sent(A)
    assert blockreq.opt.block2 is not None and blockreq.opt.block2.block_number == 1

    # the application loses interest in the observation meanwhile
    o.observation.cancel()

    # second block arrives, the response completes
    mi.inject(
        A, mtype=ACK, mid=blockreq.mid, token=blockreq.token, code=CONTENT,
        block2=(1, False, 6), payload=b"y" * 10,
    )
    r = await asyncio.wait_for(o.response, 1)
    assert len(r.payload) == 1034
    await fakenet.settle(10)

    # Now the server keeps notifying. A client that has given up the
    # observation rejects (RST) at the latest the second notification (the
    # first one is where the plain Request notices the cancellation).
    replies = []
    for i, obs in enumerate((11, 12, 13, 14)):
        before = len(mi.sent)
        mi.inject(A, mtype=CON, mid=0x6000 + i, token=token, code=CONTENT, observe=obs, payload=b"z")
        await fakenet.settle()
        replies.append([str(m.mtype) for m in mi.sent[before:]])
    print("   replies to four CON notifications after the cancel:", replies)
    still_registered = any(k[0] == token for k in tman.outgoing_requests)
    report(
        "N1",
        still_registered and all(r == ["ACK"] for r in replies),
        "token still registered=%s; notifications keep being ACKed although the "
        "application cancelled the observation" % still_registered,
    )
    await ctx.shutdown()


# ---------------------------------------------------------------------------
# N2: CoAP over TCP/WebSockets (RFC 8323 section 7.1: order is given by the
# transport, the Observe value of notifications "MUST be ignored on
# reception" and may be empty): the RFC 7641 freshness filter is applied
# anyway, so a server that sends an empty Observe option in every
# notification has all its notifications dropped.
# ---------------------------------------------------------------------------


class FakeTokenInterface(interfaces.TokenInterface):
    """Stands where TCPClient/WSPool stand: directly below the TokenManager"""

    def __init__(self, tman):
        self.tman = tman
        self.sent = []

    def send_message(self, message, messageerror_monitor):
        self.sent.append(message)

    async def recognize_remote(self, message):
        return isinstance(message.remote, fakenet.FakeAddress)

    async def determine_remote(self, message):
        return None

    async def shutdown(self):
        pass


async def n2():
    ctx = Context(loggername="coap-demo")
    box = {}

    async def constructor(tman):
        box["ti"] = FakeTokenInterface(tman)
        return box["ti"]

    await ctx._append_tokenmanaged_transport(constructor)
    tman = ctx.request_interfaces[0]
    ti = box["ti"]
    A = fakenet.FakeAddress("tcp-peer")

    req = Message(code=GET, observe=0, uri_path=("obs",))
    req.remote = A
    o = ctx.request(req, handle_blockwise=False)
    delivered = []
    with warnings.catch_warnings():
        warnings.simplefilter("ignore")
        o.observation.register_callback(lambda m: delivered.append(m.payload))
    await fakenet.settle()
    token = ti.sent[-1].token

    def incoming(payload):
        m = Message(code=CONTENT, payload=payload, observe=0)  # empty option on the wire
        m.token = token
        m.remote = A
        m.direction = Direction.INCOMING
        tman.process_response(m)

    incoming(b"state 0")
    await asyncio.wait_for(o.response, 1)
    for i in (1, 2, 3):
        incoming(b"state %d" % i)
        await fakenet.settle()
    print("   delivered over the reliable transport:", delivered)
    report(
        "N2",
        delivered != [b"state 1", b"state 2", b"state 3"],
        "in-order notifications of a reliable transport whose Observe value does "
        "not grow are dropped (delivered %r)" % delivered,
    )
    await ctx.shutdown()


async def main():
    logging.basicConfig(level=logging.CRITICAL)
    await n1()
    await n2()


asyncio.run(main())
print()
print("reproduced:", reproduced)
sys.exit(1 if reproduced else 0)
