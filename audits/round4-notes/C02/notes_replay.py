#!/usr/bin/env python3
"""Replay of what notes.md describes, on the UNCHANGED tree.

Run as:  notes_replay.py <path-to-repo-root>    (inside a network namespace with lo up)

Opens UDP sockets on ::1 only.  Exit status 1 if finding 1 (the one that
contradicts the letter of C02) reproduces, 0 otherwise; findings 2 and 3 are
printed for information.
"""

import asyncio
import logging
import socket
import sys

sys.path.insert(0, sys.argv[1])

import aiocoap  # noqa: E402
from aiocoap import Message, GET, Context, error  # noqa: E402
from aiocoap.numbers.types import ACK, CON  # noqa: E402
from aiocoap.numbers.codes import CONTENT, EMPTY  # noqa: E402

logging.basicConfig(level=logging.CRITICAL)


async def result_of(request, timeout):
    try:
        r = await asyncio.wait_for(asyncio.shield(request.response), timeout)
        return ("response", r)
    except asyncio.TimeoutError:
        return ("PENDING", None)
    except error.Error as e:
        return ("aiocoap-error", e)
    except Exception as e:
        return ("FOREIGN-ERROR", e)


class Echo(asyncio.DatagramProtocol):
    """Answers every request with a piggy-backed 2.05"""

    def __init__(self):
        self.seen = []

    def connection_made(self, transport):
        self.transport = transport

    def datagram_received(self, data, addr):
        msg = Message.decode(data)
        self.seen.append(msg)
        if msg.code.is_request():
            self.transport.sendto(
                Message(
                    code=CONTENT, _mtype=ACK, _mid=msg.mid, _token=msg.token, payload=b"ok"
                ).encode(),
                addr,
            )


async def finding1(ctx):
    print("finding 1: host names the IDNA codec refuses")
    reproduced = False
    for uri in ("coap://a..b/x", "coap://%s.example/x" % ("a" * 64)):
        for handle_blockwise in (True, False):
            kind, value = await result_of(
                ctx.request(Message(code=GET, uri=uri), handle_blockwise=handle_blockwise),
                5,
            )
            shown = uri if len(uri) < 40 else uri[:20] + "..." + uri[-12:]
            print(
                "   %-36s handle_blockwise=%-5s -> %s %r (%s)"
                % (
                    shown,
                    handle_blockwise,
                    kind,
                    value,
                    ", ".join(c.__name__ for c in type(value).__mro__[:3]),
                )
            )
            if kind == "FOREIGN-ERROR":
                reproduced = True
    return reproduced


async def finding2(ctx):
    print("finding 2: the ICMP error of one remote fails the next request sent to another")
    loop = asyncio.get_running_loop()
    transport, echo = await loop.create_datagram_endpoint(
        Echo, local_addr=("::1", 0), family=socket.AF_INET6
    )
    live = transport.get_extra_info("sockname")[1]
    s = socket.socket(socket.AF_INET6, socket.SOCK_DGRAM)
    s.bind(("::1", 0))
    dead = s.getsockname()[1]
    s.close()

    b = ctx.request(
        Message(code=GET, uri="coap://[::1]:%d/b" % dead), handle_blockwise=False
    )
    a = ctx.request(
        Message(code=GET, uri="coap://[::1]:%d/a" % live), handle_blockwise=False
    )
    rb, ra = await asyncio.gather(result_of(b, 5), result_of(a, 5))
    print("   B (dead port)   -> %s %r" % rb)
    print("   A (live server) -> %s %r" % ra)
    print("   datagrams the live server has seen: %d" % len(echo.seen))
    transport.close()


async def finding3(ctx):
    print("finding 3: a response from the same link-local address on another link is accepted")
    mi = ctx.request_interfaces[0].token_interface.message_interface
    sent = []
    real_send = mi.send
    # The namespace has no second link (and lo no link-local route): the
    # datagram is only recorded, and the answer is fed into the transport's
    # receive callback with the sockaddr recvmsg() would report for the same
    # address on another interface.
    mi.send = sent.append
    lo = socket.if_nametoindex("lo")
    req = ctx.request(
        Message(code=GET, uri="coap://[fe80::1%lo]/x"), handle_blockwise=False
    )
    await asyncio.sleep(0.2)
    if not sent:
        print("   (request was not sent: %r)" % (await result_of(req, 0.1),))
        return
    out = sent[0]
    print("   request sent to sockaddr %r" % (out.remote.sockaddr,))
    other_link = lo + 41
    forged = Message(
        code=CONTENT, _mtype=ACK, _mid=out.mid, _token=out.token, payload=b"other link"
    ).encode()
    mi.datagram_msg_received(forged, [], 0, ("fe80::1", 5683, 0, other_link))
    kind, value = await result_of(req, 1)
    print(
        "   datagram from ('fe80::1', 5683, 0, %d) [interface index %d, not %d] -> %s %r"
        % (other_link, other_link, lo, kind, getattr(value, "payload", value))
    )
    mi.send = real_send


async def main():
    ctx = await Context.create_client_context()
    reproduced = await finding1(ctx)
    await finding2(ctx)
    await finding3(ctx)
    await ctx.shutdown()
    return 1 if reproduced else 0


if __name__ == "__main__":
    sys.exit(asyncio.run(main()))
