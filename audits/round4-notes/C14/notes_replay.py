#!/usr/bin/env python3
"""Replay for out4/notes.md: inputs on which the UNCHANGED tree violates C14.

Usage (as root, inside a fresh network namespace):

    unshare -n sh -c 'ip link set lo up; /venv/bin/python notes_replay.py <path-to-repo-root> [n1] [n2] [n3]'

Without further arguments all three findings are replayed (about 8 seconds).

  n1  simple6 transport: two confirmable requests submitted at the same time
      to a peer not contacted before are both transmitted at once
      (opens UDP sockets on 127.0.0.1)
  n2  udp6 transport: the same link-local address on two different links is
      taken for one endpoint -- a silent node on one link delays (and finally
      fails, untransmitted) the exchange with a responsive node on the other
      (creates two veth pairs v0/v1 and v2/v3 in the namespace with `ip`,
      opens UDP sockets on their link-local addresses)
  n3  an exception raised by an application's observation errback while a
      time-out is being reported leaves the held back requests of that peer
      neither transmitted nor failed (opens UDP sockets on ::1)

Exit status 0 = no violation seen, 1 = at least one of the replayed findings
violates the property.
"""

import sys
import os

sys.path.insert(0, sys.argv[1])
sys.path.insert(1, os.path.dirname(os.path.abspath(__file__)))

import asyncio
import socket
import subprocess

import aiocoap
from manualpeer import ManualPeer


async def n1():
    print("== N1: simple6, two simultaneous first requests to one peer")
    loop = asyncio.get_running_loop()
    peer = ManualPeer(loop, socket.AF_INET, "127.0.0.1")
    ctx = await aiocoap.Context.create_client_context(transports=["simple6"])
    uri = "coap://127.0.0.1:%d/" % peer.port
    # handle_blockwise=False is the documented way to send a single exchange;
    # with the default the requests take a detour that happens to hide the race
    r1 = ctx.request(aiocoap.Message(code=aiocoap.GET, uri=uri + "a"), handle_blockwise=False)
    r2 = ctx.request(aiocoap.Message(code=aiocoap.GET, uri=uri + "b"), handle_blockwise=False)
    # much less than ACK_TIMEOUT; the peer is silent, nothing is acknowledged
    await asyncio.sleep(0.5)
    print(peer.log())
    cons = {peer.path_of(m) for _, _, m in peer.received if m.mtype is aiocoap.CON}
    ports = sorted({addr[1] for _, addr, _ in peer.received})
    for r in (r1, r2):
        r.response.cancel()
    peer.close()
    await ctx.shutdown()
    if len(cons) > 1:
        print(
            "VIOLATED: %d confirmable messages await their ACK from 127.0.0.1:%d "
            "at the same time (sent from local ports %s: two 'connections' to one peer)"
            % (len(cons), peer.port, ports)
        )
        return 1
    print("ok: only one confirmable message in flight")
    return 0


def _setup_veth():
    def ip(*args):
        subprocess.run(("ip",) + args, check=True)

    have = subprocess.run(("ip", "link", "show", "v0"), capture_output=True).returncode == 0
    if not have:
        ip("link", "add", "v0", "type", "veth", "peer", "name", "v1")
        ip("link", "add", "v2", "type", "veth", "peer", "name", "v3")
        for i in ("v0", "v1", "v2", "v3"):
            ip("link", "set", i, "up")
        # the two "nodes", one on each link, use the same link-local address
        # (think of fe80::1 as a router's conventional address)
        ip("-6", "addr", "add", "fe80::99/64", "dev", "v1", "nodad")
        ip("-6", "addr", "add", "fe80::99/64", "dev", "v3", "nodad")
        return True
    return False


async def n2():
    print("== N2: udp6, fe80::99%v0 and fe80::99%v2 are two endpoints")
    try:
        fresh = _setup_veth()
    except Exception as e:
        print("skipped: can not create veth interfaces here (%r)" % (e,))
        return 0
    if fresh:
        # wait for the automatically configured link-local addresses of v0
        # and v2 to finish duplicate address detection
        await asyncio.sleep(2.5)

    loop = asyncio.get_running_loop()
    # One socket plays both nodes; which link a datagram came in on is in
    # the sender address' scope id (v1 is the far end of v0, v3 that of v2)
    peer = ManualPeer(loop, socket.AF_INET6, "::")
    ctx = await aiocoap.Context.create_client_context(transports=["udp6"])

    ra = ctx.request(
        aiocoap.Message(code=aiocoap.GET, uri="coap://[fe80::99%%v0]:%d/a" % peer.port)
    )
    ea = await peer.expect("a", 2)
    if ea is None:
        print("skipped: link-local delivery over veth does not work here")
        return 0
    print("node on link v0/v1 received /a on", socket.if_indextoname(ea[1][3]), "- it stays silent")
    rb = ctx.request(
        aiocoap.Message(code=aiocoap.GET, uri="coap://[fe80::99%%v2]:%d/b" % peer.port)
    )
    eb = await peer.expect("b", 1.5)
    result = 0
    if eb is None:
        print(
            "VIOLATED: /b for the node on the other link (fe80::99%v2) was not "
            "transmitted within 1.5 s: it is held back behind the exchange with "
            "fe80::99%v0"
        )
        result = 1
    else:
        print("ok: /b went out at once, on", socket.if_indextoname(eb[1][3]))
        peer.answer(eb)
    print(peer.log())
    for r in (ra, rb):
        r.response.cancel()
    peer.close()
    await ctx.shutdown()
    return result


async def n3():
    print("== N3: errback raising while a time-out is reported")
    loop = asyncio.get_running_loop()
    peer = ManualPeer(loop)
    ctx = await aiocoap.Context.create_client_context(transports=["udp6"])
    uri = "coap://[::1]:%d/" % peer.port

    class Fast(aiocoap.TransportTuning):
        ACK_TIMEOUT = 0.2
        ACK_RANDOM_FACTOR = 1.0
        MAX_RETRANSMIT = 1

    def errback(exception):
        raise RuntimeError("bug in the application's errback")

    r1 = ctx.request(
        aiocoap.Message(code=aiocoap.GET, uri=uri + "obs", observe=0, transport_tuning=Fast()),
        handle_blockwise=False,
    )
    r1.observation.register_errback(errback, _suppress_deprecation=True)
    await peer.expect("obs", 1)
    r2 = ctx.request(aiocoap.Message(code=aiocoap.GET, uri=uri + "x"))
    r3 = ctx.request(aiocoap.Message(code=aiocoap.GET, uri=uri + "y"))
    # /obs times out after 0.2 + 0.4 s; the peer is silent
    loop.set_exception_handler(lambda loop, context: None)  # the RuntimeError surfaces in the timer callback
    await asyncio.sleep(2.0)
    print(peer.log())
    print("   /obs:", r1.response)
    result = 0
    for name, r in (("x", r2), ("y", r3)):
        sent = bool(peer.transmissions(name))
        print("   /%s: transmitted: %s, request: %s" % (name, sent, r.response))
        if not sent and not r.response.done():
            result = 1
    if result:
        print(
            "VIOLATED: 1.4 s after the exchange ahead of them timed out, the held "
            "back requests are neither transmitted nor failed (and stay so)"
        )
    else:
        print("ok")
    for r in (r1, r2, r3):
        r.response.cancel()
    peer.close()
    await ctx.shutdown()
    return result


async def main(which):
    result = 0
    for name, f in (("n1", n1), ("n2", n2), ("n3", n3)):
        if not which or name in which:
            result |= await f()
            print()
    return result


if __name__ == "__main__":
    sys.exit(asyncio.run(main(sys.argv[2:])))
