"""A hand-driven CoAP "peer" for the demos: a plain UDP socket that records
every datagram it receives (decoded with aiocoap.Message.decode) and only
answers what the demo tells it to answer.

Import aiocoap only after sys.path has been set up by the demo."""

import asyncio
import socket


class ManualPeer:
    def __init__(self, loop, family=socket.AF_INET6, host="::1"):
        import aiocoap

        self._aiocoap = aiocoap
        self.loop = loop
        self.sock = socket.socket(family, socket.SOCK_DGRAM)
        self.sock.bind((host, 0))
        self.sock.setblocking(False)
        self.port = self.sock.getsockname()[1]
        self.t0 = loop.time()
        #: list of (time since start, sender address, message)
        self.received = []
        self._waiters = []
        loop.add_reader(self.sock.fileno(), self._readable)

    def close(self):
        self.loop.remove_reader(self.sock.fileno())
        self.sock.close()

    def _readable(self):
        try:
            data, addr = self.sock.recvfrom(4096)
        except BlockingIOError:
            return
        msg = self._aiocoap.Message.decode(data)
        entry = (self.loop.time() - self.t0, addr, msg)
        self.received.append(entry)
        for w in self._waiters[:]:
            predicate, fut = w
            if not fut.done() and predicate(msg):
                fut.set_result(entry)
                self._waiters.remove(w)

    def path_of(self, msg):
        return "/".join(msg.opt.uri_path)

    def transmissions(self, path):
        """All received datagrams that are requests for the given path"""
        return [e for e in self.received if self.path_of(e[2]) == path]

    async def expect(self, path, timeout):
        """Wait until a request for path has been received (also if that
        happened before the call); returns the entry or None on time-out"""
        already = self.transmissions(path)
        if already:
            return already[0]
        fut = self.loop.create_future()
        w = (lambda m: self.path_of(m) == path, fut)
        self._waiters.append(w)
        try:
            return await asyncio.wait_for(fut, timeout)
        except asyncio.TimeoutError:
            if w in self._waiters:
                self._waiters.remove(w)
            return None

    def send(self, msg, addr):
        self.sock.sendto(msg.encode(), addr)

    def piggybacked(self, entry, payload=b"ok"):
        """The ACK that carries a 2.05 response to the request in entry"""
        a = self._aiocoap
        _, addr, req = entry
        return a.Message(
            code=a.CONTENT,
            payload=payload,
            _mtype=a.ACK,
            _mid=req.mid,
            _token=req.token,
        )

    def answer(self, entry, payload=b"ok"):
        self.send(self.piggybacked(entry, payload), entry[1])

    def empty(self, mtype, mid, addr):
        a = self._aiocoap
        self.send(a.Message(code=a.EMPTY, _mtype=mtype, _mid=mid), addr)

    def log(self):
        lines = []
        for t, addr, m in self.received:
            lines.append(
                "   t=%.2fs  %s mid=%d token=%s /%s  (from port %d)"
                % (t, m.mtype, m.mid, m.token.hex(), self.path_of(m), addr[1])
            )
        return "\n".join(lines)
