"""Independent reading of RFC 7252 section 3 (no aiocoap imports).

parse(datagram) -> dict(type, code, mid, token, options=[(number, value bytes)], payload)
                   or raises FormatError
build(type, code, mid, token, options, payload) -> bytes
"""


class FormatError(Exception):
    pass


def _ext_read(nibble, data, pos):
    if nibble < 13:
        return nibble, pos
    if nibble == 13:
        if pos + 1 > len(data):
            raise FormatError("truncated 1-byte extended field")
        return data[pos] + 13, pos + 1
    if nibble == 14:
        if pos + 2 > len(data):
            raise FormatError("truncated 2-byte extended field")
        return ((data[pos] << 8) | data[pos + 1]) + 269, pos + 2
    raise FormatError("nibble 15 outside a payload marker")


def parse(data, strict=True):
    """strict: apply the MUST-level format errors of section 3 (TKL 9..15,
    marker followed by empty payload).  The library is allowed to be lenient on
    those (then it only has to round-trip), so callers decide."""
    if len(data) < 4:
        raise FormatError("shorter than the fixed header")
    ver = data[0] >> 6
    if ver != 1:
        raise FormatError("version")
    mtype = (data[0] >> 4) & 3
    tkl = data[0] & 15
    code = data[1]
    mid = (data[2] << 8) | data[3]
    if tkl > 8:
        raise FormatError("TKL 9..15 is reserved")
    if len(data) < 4 + tkl:
        raise FormatError("token truncated")
    token = bytes(data[4 : 4 + tkl])
    pos = 4 + tkl
    number = 0
    options = []
    payload = b""
    while pos < len(data):
        b = data[pos]
        pos += 1
        if b == 0xFF:
            payload = bytes(data[pos:])
            if strict and not payload:
                raise FormatError("payload marker followed by nothing")
            break
        delta, pos = _ext_read(b >> 4, data, pos)
        length, pos = _ext_read(b & 15, data, pos)
        number += delta
        if pos + length > len(data):
            raise FormatError("option value truncated")
        options.append((number, bytes(data[pos : pos + length])))
        pos += length
    return dict(type=mtype, code=code, mid=mid, token=token, options=options, payload=payload)


def _ext_write(v):
    if v < 13:
        return v, b""
    if v <= 268:
        return 13, bytes([v - 13])
    if v <= 65804:
        v -= 269
        return 14, bytes([v >> 8, v & 255])
    raise ValueError("does not fit an extended field")


def build(mtype, code, mid, token, options, payload):
    """options: list of (number, value bytes), numbers non-decreasing"""
    out = bytearray([(1 << 6) | (mtype << 4) | len(token), code, mid >> 8, mid & 255])
    out += token
    prev = 0
    for number, value in options:
        dn, de = _ext_write(number - prev)
        ln, le = _ext_write(len(value))
        out.append((dn << 4) | ln)
        out += de + le + value
        prev = number
    if payload:
        out.append(0xFF)
        out += payload
    return bytes(out)


def uint(v):
    n = (v.bit_length() + 7) // 8
    return bytes((v >> (8 * (n - 1 - i))) & 255 for i in range(n))
