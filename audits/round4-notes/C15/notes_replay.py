"""C15 round 4: replay of observations on the UNCHANGED tree.

Usage: /venv/bin/python notes_replay.py <path-to-repo-root>

No sockets. Prints what the unchanged code does on three inputs; exit status 1
if observation 1 (the one that contradicts the statement outright) shows."""

import os
import sys
import warnings

root = os.path.abspath(sys.argv[1])
sys.path.insert(0, root)
sys.path.insert(1, os.path.dirname(os.path.abspath(__file__)))

import aiocoap  # noqa: E402
from aiocoap.transports import tcp  # noqa: E402
import c15_harness as H  # noqa: E402

assert os.path.abspath(aiocoap.__file__).startswith(root), aiocoap.__file__

bad = 0

print("== 1. Ping with a non-empty token in a process that runs with -W error (warnings as errors)")
for token in (b"", b"\x01\x02\x03"):
    with warnings.catch_warnings():
        warnings.simplefilter("error")
        conn, ctx, transport = H.make_connection(tcp)
        before = len(transport.written)
        stream = H.rfc_frame(0xE1) + H.rfc_frame(0xE2, token)
        try:
            conn.data_received(stream)
            outcome = "no exception"
        except Exception as e:  # what asyncio would log as "Fatal error: protocol.data_received() call failed" and close on
            outcome = "data_received raised %r" % (e,)
        answer = H.rfc_split(transport.written[before:])[0]
        print("   Ping token %r: %s; sent in reply: %s" % (token.hex(), outcome, [(hex(c), t.hex()) for (c, t, b) in answer]))
        if answer != [(0xE3, token, b"")]:
            bad = 1
# Same, with default warning filters, to show where the warning comes from
with warnings.catch_warnings(record=True) as w:
    warnings.simplefilter("always")
    conn, ctx, transport = H.make_connection(tcp)
    conn.data_received(H.rfc_frame(0xE1) + H.rfc_frame(0xE2, b"\x01"))
    for x in w:
        print("   (default filters) %s:%s: %s: %s" % (os.path.relpath(x.filename, root), x.lineno, x.category.__name__, x.message))

print("== 2. Request frame that ends in a payload marker (RFC 7252 Section 3: message format error)")
conn, ctx, transport = H.make_connection(tcp)
before = len(transport.written)
conn.data_received(H.rfc_frame(0xE1) + H.rfc_frame(0x01, b"\x09", b"\xb1a\xff"))
print("   dispatched: %s; closed: %s; sent: %s" % (
    [(str(m.code), m.token.hex(), m.opt.uri_path, m.payload) for m in ctx.dispatched],
    transport.closed,
    [(hex(c), b) for (c, t, b) in H.rfc_split(transport.written[before:])[0]],
))

print("== 3. Empty message (code 0.00) that carries an option whose value is not UTF-8")
conn, ctx, transport = H.make_connection(tcp)
before = len(transport.written)
conn.data_received(H.rfc_frame(0xE1) + H.rfc_frame(0x00, b"", b"\xb1\xff") + H.rfc_frame(0x01, b"\x01", b"\xb1a"))
print("   dispatched: %s; closed: %s; sent: %s" % (
    [(str(m.code), m.token.hex()) for m in ctx.dispatched],
    transport.closed,
    [(hex(c), b) for (c, t, b) in H.rfc_split(transport.written[before:])[0]],
))

sys.exit(bad)
