"""Helpers shared by the C15 round-4 demos.

Everything here is independent of the code under test: the frames are built
and split by an encoder / reader written directly from RFC 8323 Section 3.2,
and the connection under test is driven through a fake transport, so no
sockets are opened by users of this module."""

import logging


def rfc_frame(code: int, token: bytes = b"", body: bytes = b"") -> bytes:
    """A CoAP-over-TCP frame exactly as RFC 8323 Section 3.2 prescribes.
    `body` is options + (0xff + payload)."""
    n = len(body)
    if n < 13:
        first, ext = n, b""
    elif n < 269:
        first, ext = 13, (n - 13).to_bytes(1, "big")
    elif n < 65805:
        first, ext = 14, (n - 269).to_bytes(2, "big")
    else:
        first, ext = 15, (n - 65805).to_bytes(4, "big")
    assert len(token) <= 8
    return bytes([(first << 4) | len(token)]) + ext + bytes([code]) + token + body


def rfc_split(stream: bytes):
    """Split a byte stream into (code, token, body) per RFC 8323 Section 3.2.
    Returns (frames, trailing bytes that do not form a complete frame)."""
    frames = []
    while stream:
        first = stream[0] >> 4
        tkl = stream[0] & 0x0F
        if first < 13:
            extlen, n = 0, first
        else:
            extlen, base = {13: (1, 13), 14: (2, 269), 15: (4, 65805)}[first]
            if len(stream) < 1 + extlen:
                break
            n = int.from_bytes(stream[1 : 1 + extlen], "big") + base
        total = 1 + extlen + 1 + tkl + n
        if len(stream) < total:
            break
        code = stream[1 + extlen]
        token = stream[2 + extlen : 2 + extlen + tkl]
        body = stream[2 + extlen + tkl : total]
        frames.append((code, token, body))
        stream = stream[total:]
    return frames, stream


class FakeTransport:
    def __init__(self):
        self.written = b""
        self.closed = False
        self.aborted = False

    def write(self, data):
        if not self.closed:
            self.written += bytes(data)

    def close(self):
        self.closed = True

    def abort(self):
        self.closed = True
        self.aborted = True

    def is_closing(self):
        return self.closed

    def get_extra_info(self, key, default=None):
        return {
            "sockname": ("127.0.0.1", 5683),
            "peername": ("127.0.0.1", 40000),
        }.get(key, default)


class StubContext:
    """Stands in for TCPServer / TCPClient towards a TcpConnection."""

    _scheme = "coap+tcp"
    _default_port = 5683

    def __init__(self):
        self.dispatched = []
        self.errors = []

    def _dispatch_incoming(self, connection, msg):
        self.dispatched.append(msg)

    def _dispatch_error(self, connection, exc):
        self.errors.append(exc)


def make_connection(tcp_module, loop=None, is_server=True):
    log = logging.getLogger("c15-demo")
    log.setLevel(logging.CRITICAL)
    ctx = StubContext()
    conn = tcp_module.TcpConnection(ctx, log, loop, is_server=is_server)
    transport = FakeTransport()
    conn.connection_made(transport)
    return conn, ctx, transport
