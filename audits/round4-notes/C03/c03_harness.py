"""Offline harness for the C03 demos: a virtual-clock event loop and a fake
message transport underneath aiocoap's real TokenManager + MessageManager
(driven through a real aiocoap.Context).  No sockets are opened.

Import only after the repository root has been put first on sys.path.
"""

import asyncio
import logging

import aiocoap
from aiocoap import interfaces
from aiocoap.message import Message
from aiocoap.messagemanager import MessageManager
from aiocoap.tokenmanager import TokenManager
from aiocoap.numbers.types import ACK, RST
from aiocoap.numbers.codes import EMPTY


class VirtualClockLoop(asyncio.SelectorEventLoop):
    """Event loop whose clock only advances when the loop would otherwise
    sleep: every call_later fires at exactly its nominal (virtual) time."""

    def __init__(self):
        super().__init__()
        self._vt = 0.0
        real_select = self._selector.select

        def select(timeout=None):
            events = real_select(0)
            if events:
                return events
            if timeout is None:
                raise RuntimeError("virtual loop would block forever")
            if timeout > 0:
                self._vt += timeout
            return []

        self._selector.select = select

    def time(self):
        return self._vt


class FakeRemote(interfaces.EndpointAddress):
    """(host, port) address; equality by value, like the UDP transports."""

    scheme = "coap"
    is_multicast = False
    is_multicast_locally = False

    def __init__(self, host, port=5683):
        self.host = host
        self.port = port

    def __hash__(self):
        return hash((self.host, self.port))

    def __eq__(self, other):
        return (
            isinstance(other, FakeRemote)
            and (self.host, self.port) == (other.host, other.port)
        )

    def __repr__(self):
        return "<FakeRemote %s:%d>" % (self.host, self.port)

    @property
    def hostinfo(self):
        return "%s:%d" % (self.host, self.port)

    hostinfo_local = "local"

    @property
    def uri_base(self):
        return "coap://" + self.hostinfo

    uri_base_local = "coap://local"

    @property
    def blockwise_key(self):
        return (self.host, self.port)


class FakeTransport(interfaces.MessageInterface):
    """Records every datagram that the message manager puts on the wire."""

    def __init__(self, loop, mman):
        self.loop = loop
        self.mman = mman
        self.sent = []  # (virtual time, remote, bytes)
        self.on_send = None

    def send(self, message):
        data = message.encode()
        self.sent.append((self.loop.time(), message.remote, data))
        if self.on_send is not None:
            self.on_send(self.loop.time(), message.remote, data)

    async def shutdown(self):
        pass

    async def recognize_remote(self, remote):
        return isinstance(remote, FakeRemote)

    async def determine_remote(self, message):
        return None

    # what the peer does

    def deliver(self, data, remote):
        """Feed a datagram from `remote` into the stack."""
        msg = Message.decode(data, remote)
        self.mman.dispatch_message(msg)

    def deliver_empty(self, mtype, mid, remote):
        m = Message(code=EMPTY, _mtype=mtype, _mid=mid)
        self.deliver(m.encode(), remote)

    def copies(self, remote=None, mid=None):
        out = []
        for t, r, d in self.sent:
            if remote is not None and r != remote:
                continue
            if mid is not None and int.from_bytes(d[2:4], "big") != mid:
                continue
            out.append((t, d))
        return out


def build_stack(loop, loggername="coap-c03-demo"):
    """Context -> TokenManager -> MessageManager -> FakeTransport"""
    logging.getLogger(loggername).setLevel(logging.CRITICAL)
    ctx = aiocoap.Context(loop=loop, loggername=loggername)
    tman = TokenManager(ctx)
    mman = MessageManager(tman)
    transport = FakeTransport(loop, mman)
    tman.token_interface = mman
    mman.message_interface = transport
    ctx.request_interfaces.append(tman)
    return ctx, tman, mman, transport


def mid_of(data):
    return int.from_bytes(data[2:4], "big")


def run(coro_fn):
    """Run `coro_fn(loop)` on a fresh virtual-clock loop."""
    loop = VirtualClockLoop()
    asyncio.set_event_loop(loop)
    try:
        return loop.run_until_complete(coro_fn(loop))
    finally:
        try:
            loop.run_until_complete(loop.shutdown_asyncgens())
        finally:
            asyncio.set_event_loop(None)
            loop.close()


async def outcome(request, loop, limit):
    """Wait (virtual time) for the request's result: returns
    ('response', msg), ('error', exc) or ('hang', None) after `limit` s."""
    try:
        r = await asyncio.wait_for(asyncio.shield(request.response), limit)
        return ("response", r, loop.time())
    except asyncio.TimeoutError:
        return ("hang", None, loop.time())
    except Exception as e:  # noqa
        return ("error", e, loop.time())


__all__ = [
    "VirtualClockLoop",
    "FakeRemote",
    "FakeTransport",
    "build_stack",
    "mid_of",
    "run",
    "outcome",
    "ACK",
    "RST",
]
