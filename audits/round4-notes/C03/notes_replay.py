#!/usr/bin/env python3
"""C03 notes replay: on the UNCHANGED tree, a Message object that is handed to
Context.request() a second time while its first confirmable transmission is
still unacknowledged kills the retransmission timer (KeyError in
MessageManager._retransmit) and leaves the exchange and the per-remote backlog
behind for good: the second request -- and every later CON to that peer -- is
never transmitted and never fails.

usage: notes_replay.py <path-to-repo-root>

No sockets: fake transport + virtual clock (c03_harness.py next to this file).

Variant A ("retry on timeout"): the application gives up waiting after 5 s
  (asyncio.wait_for) and retries with the same Message object -- the peer is
  silent throughout.
Variant B ("retry later", the pattern of
  aiocoap/resourcedirectory/client/register.py::_request_with_retries): the
  server's empty ACK is lost, its separate 5.03 response (Max-Age: 3) arrives,
  and the same Message object is requested again after Max-Age.
Control: as variant A, but the retry uses a fresh Message: the retry fails with
  ConRetransmitsExceeded when the first CON runs out of retransmissions.
Variant C (server side): a slow resource returns the same (cached) Message
  object for every GET; two clients ask one second apart and neither
  acknowledges the separate CON response.  Expected: 5 copies to each client,
  each with its own schedule.  Observed: client 1 gets a single copy and its
  exchange is never cleaned up; client 2's first retransmission comes earlier
  than ACK_TIMEOUT after its first copy (it runs on client 1's timer).
  Control for C: the resource builds a new Message per request.

exit status 0: property held everywhere; 1: violated (hang / wrong schedule).
"""

import os
import sys

sys.path.insert(0, os.path.abspath(sys.argv[1]))
sys.path.insert(1, os.path.dirname(os.path.abspath(__file__)))

import asyncio  # noqa: E402

from aiocoap import Message, GET, error  # noqa: E402
from aiocoap.numbers.codes import SERVICE_UNAVAILABLE  # noqa: E402
from aiocoap.numbers.types import NON  # noqa: E402

from c03_harness import FakeRemote, build_stack, run, outcome, mid_of  # noqa: E402

HORIZON = 10000  # virtual seconds; MAX_TRANSMIT_WAIT is 93 s


def variant(label, reuse, separate_response):
    async def main(loop):
        ctx, tman, mman, tr = build_stack(loop)
        loop_errors = []
        loop.set_exception_handler(lambda l, c: loop_errors.append(c))
        peer = FakeRemote("peer")

        def fresh():
            m = Message(code=GET, uri="coap://peer/x")
            m.remote = peer
            return m

        msg = fresh()
        first = ctx.request(msg)
        if separate_response:
            await asyncio.sleep(0.5)
            data = tr.sent[0][2]
            token = data[4 : 4 + (data[0] & 0x0F)]
            # the empty ACK is lost; the separate response gets through
            resp = Message(
                code=SERVICE_UNAVAILABLE, _mtype=NON, _mid=4711, _token=token, max_age=3
            )
            tr.deliver(resp.encode(), peer)
            r1 = await outcome(first, loop, 1)
            assert r1[0] == "response", r1
            await asyncio.sleep(r1[1].opt.max_age)
        else:
            try:
                await asyncio.wait_for(first.response, 5)
            except asyncio.TimeoutError:
                pass

        second = ctx.request(msg if reuse else fresh())
        r2 = await outcome(second, loop, HORIZON)
        third = ctx.request(fresh())
        r3 = await outcome(third, loop, HORIZON)
        return tr.sent, r2, r3, loop_errors, dict(mman._active_exchanges), dict(mman._backlogs)

    sent, r2, r3, loop_errors, exchanges, backlogs = run(main)
    by_mid = {}
    for t, r, d in sent:
        by_mid.setdefault(mid_of(d), []).append(round(t, 2))
    print("--", label)
    print("   transmissions by message ID:", by_mid)
    print("   second request:", r2[0], repr(r2[1]), "at t=%.1f" % r2[2])
    print("   third request (fresh message, same peer):", r3[0], repr(r3[1]), "at t=%.1f" % r3[2])
    if loop_errors:
        print("   exceptions swallowed by the event loop:",
              [repr(c.get("exception")) for c in loop_errors])
    print("   left behind: %d exchange(s), %d message(s) in backlogs"
          % (len(exchanges), sum(len(v) for v in backlogs.values())))
    hung = r2[0] == "hang" or r3[0] == "hang"
    if hung:
        print("   VIOLATION: a CON request neither got transmitted nor failed within %d s" % HORIZON)
    return not hung


def server_variant(label, shared):
    from aiocoap import resource, CONTENT
    from aiocoap.numbers.types import CON

    class Slow(resource.Resource):
        def __init__(self):
            super().__init__()
            self.cached = Message(code=CONTENT, payload=b"static content")

        async def render_get(self, request):
            await asyncio.sleep(0.3)  # > EMPTY_ACK_DELAY: separate response
            if shared:
                return self.cached
            return Message(code=CONTENT, payload=b"static content")

    async def main(loop):
        ctx, tman, mman, tr = build_stack(loop)
        site = resource.Site()
        site.add_resource(["slow"], Slow())
        ctx.serversite = site
        c1, c2 = FakeRemote("client1"), FakeRemote("client2")

        def get(mid, token):
            m = Message(code=GET, _mtype=CON, _mid=mid, _token=token)
            m.opt.uri_path = ("slow",)
            return m.encode()

        tr.deliver(get(100, b"\x01"), c1)
        await asyncio.sleep(1.0)
        tr.deliver(get(200, b"\x02"), c2)
        await asyncio.sleep(1000)
        return tr.sent, c1, c2, dict(mman._active_exchanges)

    sent, c1, c2, exchanges = run(main)
    print("--", label)
    ok = True
    for name, c in (("client1", c1), ("client2", c2)):
        # CON responses only (first byte 0x4x), not the empty ACKs (0x60)
        times = [t for t, r, d in sent if r == c and d[0] >> 4 == 4]
        gaps = [b - a for a, b in zip(times, times[1:])]
        print("   CON response to %s sent at %s" % (name, ["%.2f" % t for t in times]))
        if len(times) != 5:
            print("   VIOLATION: %d copies instead of 1+MAX_RETRANSMIT=5, and no failure" % len(times))
            ok = False
        if gaps and not (2.0 - 1e-6 <= gaps[0] <= 3.0 + 1e-6):
            print("   VIOLATION: first retransmission after %.2f s, outside [2, 3]" % gaps[0])
            ok = False
    if exchanges:
        print("   VIOLATION: %d exchange(s) still registered 1000 s later" % len(exchanges))
        ok = False
    return ok


def main():
    ok = True
    ok &= server_variant("control for C: slow resource, new Message per response", False)
    ok &= server_variant("C: slow resource returning one cached Message object", True)
    ok &= variant("control: retry after application time-out, fresh Message", False, False)
    ok &= variant("A: retry after application time-out, same Message object", True, False)
    ok &= variant("B: re-request after separate 5.03 (empty ACK lost), same Message object", True, True)
    if ok:
        print("OK: every request terminated, every CON followed its schedule")
        return 0
    print("FAILED: requests hang forever / retransmission schedule broken")
    return 1


if __name__ == "__main__":
    sys.exit(main())
