"""Replay of defects of the UNCHANGED code found while reading for C20 round 4.
usage: notes_replay.py <repo-root>     (exit 1 = at least one defect shown)
No sockets; virtual clock."""

import os
import sys

sys.path.insert(0, os.path.dirname(os.path.abspath(__file__)))
import rdharness

rdharness.setup(sys.argv[1])

shown = []


def report(name, bad, detail):
    print(("DEFECT " if bad else "ok     ") + name + ": " + detail)
    if bad:
        shown.append(name)


async def lookup(coro):
    try:
        return await coro
    except Exception as e:  # the server turns this into 5.00
        return ("5.00", repr(e))


async def main():
    from aiocoap.util.linkformat import parse

    # --- N1: a base (or link target) urllib refuses poisons lookups for all
    for what, query, links in (
        ("base=coap://[", ["ep=evil", "base=coap://["], b"</z>"),
        ("link <//[>", ["ep=evil"], b"<//[>"),
    ):
        rd = rdharness.RD()
        await rd.register(["ep=good", "lt=600"], b'</s>;rt="t"')
        before = await lookup(rd.res_lookup())
        code, _, loc = await rd.register(query, links)
        after = await lookup(rd.res_lookup())
        after_ep = await lookup(rd.ep_lookup("rt=t"))
        report(
            "N1 " + what,
            after != before or not after_ep[0].startswith("2."),
            "registration answered %s; resource lookup before %r, after %r; "
            "endpoint lookup ?rt=t after %r" % (code, before, after, after_ep),
        )

    # --- N2: backslash in a registration parameter breaks the endpoint lookup
    for value in ("a\\", 'a\\"b'):
        rd = rdharness.RD()
        await rd.register(["ep=n1", "note=" + value], b"</s>")
        await rd.register(["ep=n2"], b"</s>")
        code, payload = await rd.ep_lookup()
        try:
            got = [
                (link.href, dict(link.attr_pairs).get("note"))
                for link in parse(payload).links
            ]
            bad = got != [("/reg/1/", value), ("/reg/2/", None)]
        except Exception as e:
            got, bad = repr(e), True
        report("N2 note=%r" % value, bad, "lookup payload %r parses to %r" % (payload, got))

    # --- N3: 5.00 instead of 4.00 (no state change; for the record)
    rd = rdharness.RD()
    _, _, loc = await rd.register(["ep=n1"], b"</s>")
    r = await lookup(rd.update(loc, ["lt"]))
    report("N3 update ?lt (no value)", r[0] == "5.00", repr(r))
    r = await lookup(rd.ep_lookup("page=0"))
    report("N3 lookup ?page=0 without count", r[0] == "5.00", repr(r))


rdharness.run(main())
sys.exit(1 if shown else 0)
