"""Helper for the C20 demos: drives aiocoap.cli.rd's StandaloneResourceDirectory
directly (no sockets) on an event loop with a virtual clock.

Usage:  import rdharness; rdharness.setup(repo_root) BEFORE importing aiocoap.
"""

import asyncio
import selectors
import sys


def setup(root):
    sys.path.insert(0, root)


class _VirtualSelector(selectors.SelectSelector):
    """A selector that never blocks: when asked to wait, it advances the
    loop's virtual clock instead."""

    def __init__(self, clock):
        super().__init__()
        self._clock = clock

    def select(self, timeout=None):
        events = super().select(0)
        if not events and timeout:
            self._clock.now += timeout
        return events


class _Clock:
    now = 1000.0


def new_loop():
    clock = _Clock()
    loop = asyncio.SelectorEventLoop(_VirtualSelector(clock))
    loop.time = lambda: clock.now
    return loop


def run(coro):
    loop = new_loop()
    asyncio.set_event_loop(loop)
    try:
        return loop.run_until_complete(coro)
    finally:
        try:
            for t in asyncio.all_tasks(loop):
                t.cancel()
            loop.run_until_complete(asyncio.sleep(0))
        finally:
            loop.close()


class Remote:
    """Stand-in for an EndpointAddress of a client"""

    is_multicast = False
    is_multicast_locally = False
    scheme = "coap"
    maximum_block_size_exp = 6
    maximum_payload_size = 1024

    def __init__(self, host="[2001:db8::1]", anonymous=False):
        self.host = host
        self.anonymous = anonymous

    @property
    def uri_base(self):
        from aiocoap import error

        if self.anonymous:
            raise error.AnonymousHost()
        return "coap://" + self.host

    uri = uri_base
    hostinfo = property(lambda self: self.host)

    def __repr__(self):
        return "<Remote %s>" % self.host


class RD:
    """A resource directory site plus a tiny client to it."""

    def __init__(self, **kwargs):
        import aiocoap.cli.rd as rdmod

        self.rdmod = rdmod
        self.site = rdmod.StandaloneResourceDirectory(context=None, **kwargs)
        self.common = self.site.common_rd
        self.default_remote = Remote()

    async def request(self, code, path, query=(), payload=b"", cf=None, remote=None):
        """Returns (dotted response code, payload text, location path)"""
        import aiocoap
        from aiocoap import error
        from aiocoap.message import Direction

        msg = aiocoap.Message(code=code, payload=payload)
        msg.opt.uri_path = tuple(path)
        if query:
            msg.opt.uri_query = tuple(query)
        if cf is not None:
            msg.opt.content_format = cf
        msg.remote = remote or self.default_remote
        msg.direction = Direction.INCOMING
        try:
            resp = await self.site.render(msg)
        except error.RenderableError as e:
            resp = e.to_message()
        return (
            resp.code.dotted,
            resp.payload.decode("utf8"),
            tuple(resp.opt.location_path),
        )

    async def register(self, query, links=b"", remote=None, cf=40, path=("resourcedirectory", "")):
        import aiocoap

        return await self.request(aiocoap.POST, path, query, links, cf, remote)

    async def update(self, loc, query=(), remote=None):
        import aiocoap

        return await self.request(aiocoap.POST, loc, query, remote=remote)

    async def put(self, loc, query=(), links=b"", remote=None, cf=40):
        import aiocoap

        return await self.request(aiocoap.PUT, loc, query, links, cf, remote)

    async def delete(self, loc, remote=None):
        import aiocoap

        return await self.request(aiocoap.DELETE, loc, remote=remote)

    async def get(self, loc, query=()):
        import aiocoap

        return await self.request(aiocoap.GET, loc, query)

    async def ep_lookup(self, *query):
        import aiocoap

        code, payload, _ = await self.request(
            aiocoap.GET, ("endpoint-lookup", ""), query
        )
        return code, payload

    async def res_lookup(self, *query):
        import aiocoap

        code, payload, _ = await self.request(
            aiocoap.GET, ("resource-lookup", ""), query
        )
        return code, payload

    async def endpoints(self, *query):
        """Endpoint lookup parsed into a sorted list of
        (href, {attr: [values]}) entries"""
        from aiocoap.util.linkformat import parse

        code, payload = await self.ep_lookup(*query)
        assert code == "2.05", (code, payload)
        out = []
        for link in parse(payload).links:
            attrs = {}
            for k, v in link.attr_pairs:
                attrs.setdefault(k, []).append(v)
            out.append((link.href, attrs))
        return sorted(out, key=lambda e: e[0])

    async def resources(self, *query):
        from aiocoap.util.linkformat import parse

        code, payload = await self.res_lookup(*query)
        assert code == "2.05", (code, payload)
        return sorted(
            (link.href, tuple(sorted((k, v or "") for k, v in link.attr_pairs)))
            for link in parse(payload).links
        )
