"""Helpers shared by the C13 round-4 demos and the notes replay.

Usage (from a demo): call ``setup(repo_root)`` first; it puts the repository
root first on sys.path and the stand-in modules of /tmp/mut/shims (cbor2,
cryptography, filelock -- none of which is installed in the sandbox) after it,
imports aiocoap.oscore and registers a toy AEAD algorithm under the name
"demo-hmac" (the cryptography shim has no AES).  No sockets are opened, all
files live in fresh temporary directories.

The toy AEAD is NOT confidential (ciphertext = plaintext || HMAC tag); all that
matters here is that it authenticates key, nonce and AAD the way a real AEAD
would, and that it lets the demo see every (key, nonce) pair that is used for
encryption.
"""

import hashlib
import hmac
import json
import os
import sys
import tempfile

SHIMS = "/tmp/mut/shims"

oscore = None
aiocoap = None

#: every (key, nonce, plaintext) the toy AEAD was asked to encrypt, in order
ENCRYPTIONS = []


def setup(repo_root):
    global oscore, aiocoap
    repo_root = os.path.abspath(repo_root)
    sys.path.insert(0, repo_root)
    sys.path.insert(1, SHIMS)
    import aiocoap as _aiocoap
    import aiocoap.oscore as _oscore

    assert os.path.abspath(_aiocoap.__file__).startswith(repo_root), _aiocoap.__file__
    aiocoap = _aiocoap
    oscore = _oscore

    class DemoHmacAead(_oscore.AeadAlgorithm):
        value = 10  # pretend to be AES-CCM-16-64-128 in the AAD / KDF info
        key_bytes = 16
        tag_bytes = 8
        iv_bytes = 13

        @classmethod
        def _tag(cls, plaintext, aad, key, iv):
            return hmac.new(
                key, bytes([len(iv)]) + iv + aad + plaintext, hashlib.sha256
            ).digest()[: cls.tag_bytes]

        @classmethod
        def encrypt(cls, plaintext, aad, key, iv):
            ENCRYPTIONS.append((bytes(key), bytes(iv), bytes(plaintext)))
            return plaintext + cls._tag(plaintext, aad, key, iv)

        @classmethod
        def decrypt(cls, ciphertext_and_tag, aad, key, iv):
            plaintext = ciphertext_and_tag[: -cls.tag_bytes]
            tag = ciphertext_and_tag[-cls.tag_bytes :]
            if not hmac.compare_digest(tag, cls._tag(plaintext, aad, key, iv)):
                raise _oscore.ProtectionInvalid("Tag invalid")
            return plaintext

    _oscore.algorithms["demo-hmac"] = DemoHmacAead()
    return _oscore


def make_context_dir(sender_id, recipient_id, window=None, parent=None):
    """Create a directory holding the static part of a file-backed context"""
    d = tempfile.mkdtemp(prefix="c13-ctx-", dir=parent)
    settings = {
        "algorithm": "demo-hmac",
        "sender-id_hex": sender_id.hex(),
        "recipient-id_hex": recipient_id.hex(),
        "secret_hex": "0102030405060708090a0b0c0d0e0f10",
        "salt_hex": "9e7ca92223786340",
    }
    if window is not None:
        settings["window"] = window
    with open(os.path.join(d, "settings.json"), "w") as f:
        json.dump(settings, f)
    return d


def load(basedir, **kwargs):
    return oscore.FilesystemSecurityContext(basedir, **kwargs)


def crash(ctx):
    """The process dies: nothing is written any more, the lock goes away (a
    real file lock dies with its process; the filelock stand-in would otherwise
    keep the stale file)."""
    lock = ctx.lockfile
    ctx.lockfile = None  # keeps __del__ from writing the state back
    try:
        os.unlink(lock.lock_file)
    except FileNotFoundError:
        pass
    lock.is_locked = False


def clean_stop(ctx):
    """Orderly shutdown: what __del__ does"""
    ctx._destroy()


def sequence_file(basedir):
    try:
        with open(os.path.join(basedir, "sequence.json")) as f:
            return json.load(f)
    except FileNotFoundError:
        return None


_mid = [0]


def over_the_wire(msg):
    """Serialize an outgoing (protected) message and parse it again, as the
    peer (or an attacker who recorded it) would see it"""
    from aiocoap.numbers.types import NON

    if msg.mtype is None:
        msg.mtype = NON
    if msg.mid is None:
        _mid[0] = (_mid[0] + 1) & 0xFFFF
        msg.mid = _mid[0]
    if msg.token is None:
        msg.token = b""
    return msg.encode()


def incoming(wire_bytes):
    return aiocoap.Message.decode(wire_bytes)


def request(payload=b"", **kwargs):
    m = aiocoap.Message(code=aiocoap.POST, uri_path=["r"], payload=payload, **kwargs)
    return m


def piv_of(msg):
    """Partial IV (as integer) carried in the OSCORE option of a protected
    message, or None"""
    _, _, unprotected, _ = oscore.CanUnprotect._uncompress(msg.opt.oscore, b"")
    piv = unprotected.get(oscore.COSE_PIV)
    return None if piv is None else int.from_bytes(piv, "big")
