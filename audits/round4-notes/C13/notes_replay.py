#!/usr/bin/env python3
"""Replay for out4/notes.md (C13): on the UNCHANGED tree, one transient failure
of a file-system operation inside FilesystemSecurityContext._store (here:
tempfile.mkstemp raising OSError ENOSPC once) leaves the in-memory bookkeeping
ahead of the disk, and a later crash then leads to

  (a) sender sequence numbers (= nonces under the same key) issued twice,
  (b) requests accepted before the crash being accepted again without Echo.

Run as:  /venv/bin/python notes_replay.py <path-to-repo-root>
Exit status 0 = neither effect observed, 1 = at least one observed.
No sockets; temporary directories only; needs /tmp/mut/shims.

Note on scope: the property quantifies over crashes, not over failing
file-system calls, so this is outside its letter; it is reported because the
state that goes wrong is exactly the state the property is about.
"""

import errno
import os
import shutil
import sys
import tempfile

sys.path.insert(0, os.path.dirname(os.path.abspath(__file__)))
import c13_helpers as H  # noqa: E402


class FailOnce:
    """Make the next tempfile.mkstemp call fail like a full disk would"""

    def __enter__(self):
        self.orig = tempfile.mkstemp
        self.fired = False

        def mkstemp(*a, **k):
            if not self.fired:
                self.fired = True
                raise OSError(errno.ENOSPC, "No space left on device (injected)")
            return self.orig(*a, **k)

        tempfile.mkstemp = mkstemp
        return self

    def __exit__(self, *exc):
        tempfile.mkstemp = self.orig


def sender_side(oscore, parent):
    d = H.make_context_dir(b"\x01", b"\x02", parent=parent)
    ctx = H.load(d)
    issued = []
    # 10 numbers: the first chunk (0..9) is used up, sequence.json says 10
    for _ in range(10):
        issued.append(ctx.new_sequence_number())
    print("(a) issued %r; sequence.json %r" % (issued, H.sequence_file(d)))
    # the store for the next chunk fails once; the caller sees the error and
    # does not use the number ...
    with FailOnce():
        try:
            n = ctx.new_sequence_number()
            print("(a) unexpectedly got number", n)
        except OSError as e:
            print("(a) protect fails with %r; counter %d, sequence_number_persisted %d, "
                  "sequence.json %r" % (e, ctx.sender_sequence_number,
                                        ctx.sequence_number_persisted, H.sequence_file(d)))
    # ... but the disk works again and the application carries on
    for _ in range(5):
        issued.append(ctx.new_sequence_number())
    print("(a) issued so far %r; sequence.json still %r" % (issued, H.sequence_file(d)))
    H.crash(ctx)
    del ctx
    ctx = H.load(d)
    again = [ctx.new_sequence_number() for _ in range(8)]
    H.crash(ctx)
    twice = sorted(set(issued) & set(again))
    print("(a) after crash and reload issued %r -> issued twice: %r" % (again, twice))
    return bool(twice)


def receiver_side(oscore, parent):
    sdir = H.make_context_dir(b"\x01", b"\x02", parent=parent)
    cdir = H.make_context_dir(b"\x02", b"\x01", parent=parent)
    client = H.load(cdir)
    server = H.load(sdir)
    wires = []
    for i in range(4):
        protected, _ = client.protect(H.request(b"r%d" % i))
        wires.append(H.over_the_wire(protected))
    # the once-per-lifetime write of received="unknown" fails: the first
    # request is lost with an error ...
    with FailOnce():
        try:
            server.unprotect(H.incoming(wires[0]))
            print("(b) unexpectedly accepted request 0")
        except OSError as e:
            print("(b) first request fails with %r; replay_window_persisted=%r, "
                  "sequence.json %r" % (e, server.replay_window_persisted,
                                        H.sequence_file(sdir)))
    # ... the following ones are accepted, and nothing is written for them
    for w in wires[1:]:
        plain, _ = server.unprotect(H.incoming(w))
    print("(b) requests 1..3 accepted; sequence.json %r" % (H.sequence_file(sdir),))
    H.crash(server)
    del server
    server = H.load(sdir)
    print("(b) after crash and reload the window is initialised: %r -> %r"
          % (server.recipient_replay_window.is_initialized(),
             server.recipient_replay_window.persist()))
    accepted_again = []
    for i, w in enumerate(wires):
        try:
            server.unprotect(H.incoming(w))
            accepted_again.append(i)
        except oscore.ProtectionInvalid:
            pass
    H.crash(server)
    H.crash(client)
    print("(b) recorded requests accepted again without Echo: %r" % (accepted_again,))
    return bool(set(accepted_again) & {1, 2, 3})


def main(repo_root):
    oscore = H.setup(repo_root)
    parent = tempfile.mkdtemp(prefix="c13-notes-")
    try:
        a = sender_side(oscore, parent)
        b = receiver_side(oscore, parent)
    finally:
        shutil.rmtree(parent, ignore_errors=True)
    if a or b:
        print("\nOBSERVED: %s" % ", ".join(
            x for x, y in (("nonce re-use after a failed chunk store", a),
                           ("replay acceptance after a failed 'unknown' store", b)) if y))
        return 1
    print("\nnot observed")
    return 0


if __name__ == "__main__":
    if len(sys.argv) != 2:
        sys.exit("usage: notes_replay.py <path-to-repo-root>")
    sys.exit(main(sys.argv[1]))
