"""In-process driver for aiocoap.cli.fileserver.FileServer (no sockets).

Requests are handed to the resource the way the server side of a Context does
it: as incoming messages inside a Pipe, through render_to_pipe(), so that
needs_blockwise_assembly / add_observation / render all take part.  Exceptions
are turned into responses like aiocoap.protocol does (RenderableError ->
its message, anything else -> 5.00).
"""

import asyncio
import logging

import aiocoap
from aiocoap import error
from aiocoap.message import Direction
from aiocoap.numbers.codes import Code
from aiocoap.pipe import Pipe


class FakeRemote:
    """Just enough of an EndpointAddress for the block-wise helpers"""

    maximum_payload_size = 1024
    maximum_block_size_exp = 6
    is_multicast = False
    is_multicast_locally = False
    scheme = "coap"
    hostinfo = "client.invalid"
    hostinfo_local = "server.invalid"
    uri_base = "coap://client.invalid"
    uri_base_local = "coap://server.invalid"
    authenticated_claims = ()

    def __init__(self, name="client-1"):
        self.name = name

    @property
    def blockwise_key(self):
        return (self.name,)

    def __repr__(self):
        return "<FakeRemote %s>" % self.name


log = logging.getLogger("c19-demo")


def build_request(code, uri_path, remote=None, payload=b"", **options):
    msg = aiocoap.Message(code=code, payload=payload, uri_path=tuple(uri_path), **options)
    msg.direction = Direction.INCOMING
    msg.remote = remote or FakeRemote()
    msg.token = b"tk"
    msg.mid = 1
    return msg


class Exchange:
    """One request running against the resource; keeps running for observations"""

    def __init__(self, resource, request):
        self.events = asyncio.Queue()
        self.pipe = Pipe(request, log)
        self.pipe.on_event(self._on_event)
        self.task = asyncio.create_task(self._run(resource))

    def _on_event(self, event):
        self.events.put_nowait(event)
        return not event.is_last

    async def _run(self, resource):
        try:
            await resource.render_to_pipe(self.pipe)
        except error.RenderableError as e:
            try:
                msg = e.to_message()
            except Exception:
                msg = aiocoap.Message(code=Code.INTERNAL_SERVER_ERROR)
            self.events.put_nowait(Pipe.Event(msg, None, True))
        except asyncio.CancelledError:
            raise
        except Exception as e:
            msg = aiocoap.Message(code=Code.INTERNAL_SERVER_ERROR)
            msg.demo_exception = e
            self.events.put_nowait(Pipe.Event(msg, None, True))

    async def next_response(self, timeout=10):
        event = await asyncio.wait_for(self.events.get(), timeout)
        if event.exception is not None:
            raise event.exception
        return event.message

    def cancel(self):
        self.task.cancel()


async def request(resource, code, uri_path, **kwargs):
    """Single request -> its (first) response"""
    ex = Exchange(resource, build_request(code, uri_path, **kwargs))
    try:
        return await ex.next_response()
    finally:
        ex.cancel()
        try:
            await ex.task
        except BaseException:
            pass


async def fetch_blockwise(resource, uri_path, szx, remote=None, max_blocks=100000):
    """Fetch a file block by block with explicit Block2 options of the given
    size exponent, the way a client steps through a body (RFC 7959): ask for
    block n until a block comes without the M flag.  Returns (body, blocks)
    where blocks is a list of (number, more, payload_length, code, etag)."""
    body = b""
    blocks = []
    n = 0
    while n < max_blocks:
        r = await request(resource, Code.GET, uri_path, remote=remote, block2=(n, False, szx))
        b2 = r.opt.block2
        blocks.append(
            (n, None if b2 is None else b2.more, len(r.payload), str(r.code), r.opt.etag)
        )
        if not r.code.is_successful():
            break
        body += r.payload
        if b2 is None or not b2.more:
            break
        n += 1
    return body, blocks
