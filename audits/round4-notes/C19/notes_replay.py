#!/usr/bin/env python3
"""C19 replay on the UNCHANGED tree: a symbolic link inside the served
directory takes GET / listing / PUT / DELETE outside of it.

Usage: notes_replay.py <path-to-repo-root>

No sockets (in-process requests, see c19_driver.py).  Exit status 1 = objects
outside the served root were read / listed / created / replaced / deleted.
"""

import sys
import os

repo = os.path.abspath(sys.argv[1])
sys.path.insert(0, repo)
sys.path.insert(1, os.path.dirname(os.path.abspath(__file__)))

import asyncio
import logging
import tempfile
import shutil
from pathlib import Path

import aiocoap
from aiocoap.numbers.codes import Code
from aiocoap.cli.fileserver import FileServer

import c19_driver as drv

assert os.path.abspath(aiocoap.__file__).startswith(repo), aiocoap.__file__


async def main():
    base = Path(tempfile.mkdtemp(suffix="-c19notes"))
    findings = []
    try:
        root = base / "served"
        outside = base / "outside"
        root.mkdir()
        outside.mkdir()
        (outside / "secret.txt").write_bytes(b"not for the network\n")
        (outside / "victim.txt").write_bytes(b"original\n")
        (outside / "doomed.txt").write_bytes(b"delete me not\n")
        (root / "hello.txt").write_bytes(b"hello\n")
        # every Uri-Path component below is an ordinary name: no '..', no
        # '/', no empty component
        (root / "link").symlink_to(outside)
        (root / "filelink.txt").symlink_to(outside / "secret.txt")

        fs = FileServer(root, logging.getLogger("fileserver"), write=True)

        r = await drv.request(fs, Code.GET, ("link", "secret.txt"))
        print("GET  link/secret.txt ->", r.code, r.payload)
        if r.code.is_successful() and r.payload == b"not for the network\n":
            findings.append("read a file outside the root through a directory symlink")

        r = await drv.request(fs, Code.GET, ("filelink.txt",))
        print("GET  filelink.txt    ->", r.code, r.payload)
        if r.code.is_successful() and r.payload == b"not for the network\n":
            findings.append("read a file outside the root through a file symlink")

        r = await drv.request(fs, Code.GET, ("link", ""))
        print("GET  link/           ->", r.code, r.payload)
        if r.code.is_successful() and b"secret.txt" in r.payload:
            findings.append("listed a directory outside the root")

        r = await drv.request(fs, Code.PUT, ("link", "planted.txt"), payload=b"planted")
        print("PUT  link/planted.txt->", r.code)
        if (outside / "planted.txt").exists():
            findings.append("created a file outside the root")

        r = await drv.request(fs, Code.PUT, ("link", "victim.txt"), payload=b"replaced")
        print("PUT  link/victim.txt ->", r.code)
        if (outside / "victim.txt").read_bytes() != b"original\n":
            findings.append("replaced a file outside the root")

        r = await drv.request(fs, Code.DELETE, ("link", "doomed.txt"))
        print("DEL  link/doomed.txt ->", r.code)
        if not (outside / "doomed.txt").exists():
            findings.append("deleted a file outside the root")
    finally:
        shutil.rmtree(base, ignore_errors=True)

    if findings:
        print("OUTSIDE THE ROOT:")
        for f in findings:
            print("  -", f)
        return 1
    print("OK: nothing outside the root was touched")
    return 0


if __name__ == "__main__":
    sys.exit(asyncio.run(main()))
