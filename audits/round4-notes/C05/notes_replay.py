#!/usr/bin/env python3
"""Replay of what the UNCHANGED tree does on some inputs (see notes.md).

Run as:  notes_replay.py <path-to-aiocoap-tree>
Opens UDP and TCP sockets on 127.0.0.1 only.  Peer: minicoap (no aiocoap code).
Exit status 1 if at least one of the findings reproduces, 0 if none does.
"""

import asyncio
import os
import sys
import warnings

sys.path.insert(0, sys.argv[1])
sys.path.insert(1, os.path.dirname(os.path.abspath(__file__)))

import aiocoap  # noqa: E402
from aiocoap import Message, GET, PUT, Context  # noqa: E402
import minicoap as mc  # noqa: E402

found = []


def b1trace(srv):
    return [(q.block(mc.BLOCK1), len(q.payload)) for q in srv.requests]


async def put(ctx, uri, body, **kw):
    msg = Message(code=PUT, uri=uri, payload=body, **kw)
    try:
        return await asyncio.wait_for(ctx.request(msg).response, 30)
    except Exception as e:
        return e


async def finding1(ctx):
    print("== 1: TCP, server answers a BERT block (SZX 7) with a smaller SZX in the Block1 option")
    for title, mms, bw, prime, ack_szx, n in (
        ("fresh connection, server without BERT that acknowledges with SZX 6", 1152, False, False, 6, 1125),
        ("fresh connection, server without BERT that acknowledges with SZX 6", 1152, False, False, 6, 10000),
        ("BERT negotiated (4 KiB blocks), server acknowledges with SZX 6", 4096 + 128, True, True, 6, 10000),
        ("BERT negotiated (4 KiB blocks), server acknowledges with SZX 4", 4096 + 128, True, True, 4, 10000),
    ):
        store = mc.Store()
        store.block1_szx = lambda off, szx, a=ack_szx: min(szx, a)
        srv = await mc.TcpServer.start(store, max_message_size=mms, blockwise=bw)
        uri = "coap+tcp://127.0.0.1:%d/x" % srv.port
        if prime:
            store.body = b"hi"
            await ctx.request(Message(code=GET, uri=uri)).response
            srv.requests.clear()
        body = mc.pattern(n)
        r = await put(ctx, uri, body)
        ok = isinstance(r, Message) and r.code.is_successful() and store.uploads == [body]
        print("   %s, %d bytes:" % (title, n))
        print("      Block1 requests seen (option, payload length):", b1trace(srv)[:4])
        print("      server complaints:", store.errors[:1], "-> client outcome:", r if isinstance(r, Message) else repr(r))
        if not ok:
            found.append("1")
        srv.close()


async def finding2(ctx):
    print("== 2: two block-wise PUTs to the same resource at the same time (UDP)")
    store = mc.Store()
    store.keep_partial_on_mismatch = True
    srv = await mc.UdpServer.start(store)
    uri = "coap://127.0.0.1:%d/x" % srv.port
    a, b = mc.pattern(5000, 11), mc.pattern(5000, 22)
    ra, rb = await asyncio.gather(put(ctx, uri, a), put(ctx, uri, b))
    print("   outcome A:", ra if isinstance(ra, Message) else repr(ra))
    print("   outcome B:", rb if isinstance(rb, Message) else repr(rb))
    for u in store.uploads:
        seeds = [u[i + 8 : i + 10].decode() for i in range(0, len(u), 1024)]
        print("   body stored by the server: %d bytes; origin of each 1 KiB block: %s" % (len(u), seeds))
    succeeded = [x for x in (ra, rb) if isinstance(x, Message) and x.code.is_successful()]
    if succeeded and not any(u in (a, b) for u in store.uploads[-1:]):
        print("   -> a request reported success, the server holds a body that is neither payload")
        found.append("2")
    srv.close()


async def finding3(ctx):
    print("== 3: empty payload with the (deprecated) Block1 size hint")
    store = mc.Store()
    srv = await mc.UdpServer.start(store)
    with warnings.catch_warnings():
        warnings.simplefilter("ignore")
        r = await put(ctx, "coap://127.0.0.1:%d/x" % srv.port, b"", block1=(0, False, 2))
    print("   requests seen by the server: %d; client outcome: %s" % (len(srv.requests), r if isinstance(r, Message) else repr(r)))
    if not isinstance(r, Message):
        found.append("3")
    srv.close()


async def finding4(ctx):
    print("== 4: TCP, first upload on a fresh connection to a BERT server, body of 1125..4196 bytes")
    store = mc.Store()
    srv = await mc.TcpServer.start(store, max_message_size=4096 + 128, blockwise=True)
    body = mc.pattern(3000)
    r = await put(ctx, "coap+tcp://127.0.0.1:%d/x" % srv.port, body)
    t = b1trace(srv)
    print("   Block1 requests seen (option, payload length):", t, "->", r if isinstance(r, Message) else repr(r))
    if len(t) == 2 and t[0][0] is not None and t[0][0][1] and t[1][0] is None:
        print("   -> block 0 with M=1 is never continued; the body is sent again in one unfragmented request")
        found.append("4")
    srv.close()


async def finding5(ctx):
    print("== 5: TCP, BERT Block2 response with M=1 and an empty payload")

    def hollow(req):
        return mc.Msg(mc.CONTENT, [(mc.BLOCK2, mc.enc_block(0, True, 7))], b"")

    srv = await mc.TcpServer.start(hollow, max_message_size=8192 + 128, blockwise=True)
    req = ctx.request(Message(code=GET, uri="coap+tcp://127.0.0.1:%d/x" % srv.port))
    try:
        r = await asyncio.wait_for(asyncio.shield(req.response), 3)
        print("   outcome:", r)
    except asyncio.TimeoutError:
        print("   no outcome after 3 s and %d requests, the last for block %r" % (len(srv.requests), srv.requests[-1].block(mc.BLOCK2)))
        found.append("5")
        req.response.cancel()
    except Exception as e:
        print("   ended with", repr(e))
    srv.close()


async def main():
    ctx = await Context.create_client_context()
    for f in (finding1, finding2, finding3, finding4, finding5):
        await f(ctx)
    await ctx.shutdown()
    print("findings reproduced:", sorted(set(found)))
    return 1 if found else 0


if __name__ == "__main__":
    sys.exit(asyncio.run(main()))
