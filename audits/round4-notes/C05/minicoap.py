"""A small CoAP endpoint written without any aiocoap code: message codec for
UDP (RFC 7252) and TCP (RFC 8323) and a scriptable server for each.  Used by
the demos as the independent peer of the aiocoap client under test.

Sockets: binds 127.0.0.1:<ephemeral port> (UDP or TCP) only.
"""

import asyncio
import struct

# option numbers
ETAG, URI_PATH, BLOCK2, BLOCK1, SIZE2, SIZE1, OBSERVE = 4, 11, 23, 27, 28, 60, 6

GET, POST, PUT = 1, 2, 3
CREATED, CHANGED, CONTENT, CONTINUE = 0x41, 0x44, 0x45, 0x5F
BAD_REQUEST, NOT_FOUND, INCOMPLETE, TOO_LARGE = 0x80, 0x84, 0x88, 0x8D
CSM = 0xE1


def _ext(v):
    if v < 13:
        return v, b""
    if v < 269:
        return 13, bytes([v - 13])
    return 14, struct.pack("!H", v - 269)


def enc_opts(opts):
    out = b""
    last = 0
    for num, val in sorted(opts, key=lambda o: o[0]):
        d, de = _ext(num - last)
        l, le = _ext(len(val))
        out += bytes([(d << 4) | l]) + de + le + val
        last = num
    return out


def dec_opts(data):
    opts = []
    num = 0
    i = 0
    while i < len(data):
        if data[i] == 0xFF:
            return opts, data[i + 1 :]
        d, l = data[i] >> 4, data[i] & 15
        i += 1
        if d == 13:
            d = data[i] + 13
            i += 1
        elif d == 14:
            d = struct.unpack("!H", data[i : i + 2])[0] + 269
            i += 2
        if l == 13:
            l = data[i] + 13
            i += 1
        elif l == 14:
            l = struct.unpack("!H", data[i : i + 2])[0] + 269
            i += 2
        num += d
        opts.append((num, data[i : i + l]))
        i += l
    return opts, b""


def uint(b):
    return int.from_bytes(b, "big")


def enc_uint(v):
    return v.to_bytes((v.bit_length() + 7) // 8, "big")


def enc_block(num, more, szx):
    return enc_uint((num << 4) | (8 if more else 0) | szx)


class Msg:
    def __init__(self, code, opts=(), payload=b"", token=b"", mtype=None, mid=None):
        self.code = code
        self.opts = list(opts)
        self.payload = payload
        self.token = token
        self.mtype = mtype
        self.mid = mid

    def get(self, num):
        return [v for n, v in self.opts if n == num]

    def block(self, num):
        """(NUM, M, SZX) of a block option, or None"""
        v = self.get(num)
        if not v:
            return None
        i = uint(v[0])
        return (i >> 4, bool(i & 8), i & 7)

    @property
    def path(self):
        return "/".join(v.decode() for v in self.get(URI_PATH))

    def __repr__(self):
        return "<Msg code=%d.%02d opts=%r %d bytes>" % (
            self.code >> 5,
            self.code & 31,
            [(n, v.hex()) for n, v in self.opts],
            len(self.payload),
        )


class UdpServer(asyncio.DatagramProtocol):
    """handler(msg) returns a Msg (sent piggy-backed for CON, as NON for NON),
    None (no answer at all: the datagram is 'lost'), or a list of Msgs (all
    sent, eg. duplicates).  No deduplication is done here: handlers that care
    key on (mid)."""

    def __init__(self, handler):
        self.handler = handler
        self.requests = []  # every request datagram that was parsed
        self._seen = {}

    @classmethod
    async def start(cls, handler):
        loop = asyncio.get_running_loop()
        transport, proto = await loop.create_datagram_endpoint(
            lambda: cls(handler), local_addr=("127.0.0.1", 0)
        )
        proto.port = transport.get_extra_info("sockname")[1]
        return proto

    def connection_made(self, transport):
        self.transport = transport

    def close(self):
        self.transport.close()

    def datagram_received(self, data, addr):
        vttkl, code, mid = struct.unpack("!BBH", data[:4])
        tkl = vttkl & 15
        mtype = (vttkl >> 4) & 3
        token = data[4 : 4 + tkl]
        if code == 0 or mtype >= 2:
            return  # empty message / ACK / RST: nothing to do
        opts, payload = dec_opts(data[4 + tkl :])
        msg = Msg(code, opts, payload, token, mtype, mid)
        # message layer deduplication (RFC 7252 4.5): a retransmission gets
        # the stored answer again and is not shown to the handler twice
        key = (addr, mid)
        if key in self._seen:
            for raw in self._seen[key]:
                self.transport.sendto(raw, addr)
            return
        self.requests.append(msg)
        answer = self.handler(msg)
        if answer is None:
            return
        answers = answer if isinstance(answer, list) else [answer]
        raws = []
        for a in answers:
            rtype = 2 if mtype == 0 else 1
            raw = struct.pack("!BBH", 0x40 | (rtype << 4) | len(token), a.code, mid)
            raw += token + enc_opts(a.opts)
            if a.payload:
                raw += b"\xff" + a.payload
            raws.append(raw)
            self.transport.sendto(raw, addr)
        self._seen[key] = raws


def _tcp_frame(code, token, opts, payload):
    body = enc_opts(opts)
    if payload:
        body += b"\xff" + payload
    n = len(body)
    if n < 13:
        l, ext = n, b""
    elif n < 269:
        l, ext = 13, bytes([n - 13])
    elif n < 65805:
        l, ext = 14, struct.pack("!H", n - 269)
    else:
        l, ext = 15, struct.pack("!I", n - 65805)
    return bytes([(l << 4) | len(token)]) + ext + bytes([code]) + token + body


class TcpServer:
    """RFC 8323 server.  Sends a CSM announcing max_message_size and (if
    blockwise is set) the Block-Wise-Transfer option, which together allow the
    peer to use BERT."""

    def __init__(self, handler, max_message_size=1152, blockwise=True):
        self.handler = handler
        self.max_message_size = max_message_size
        self.blockwise = blockwise
        self.requests = []
        self._writers = []

    @classmethod
    async def start(cls, handler, **kw):
        self = cls(handler, **kw)
        self.server = await asyncio.start_server(self._conn, "127.0.0.1", 0)
        self.port = self.server.sockets[0].getsockname()[1]
        return self

    def close(self):
        self.server.close()
        for w in self._writers:
            w.close()

    async def _conn(self, reader, writer):
        opts = [(2, enc_uint(self.max_message_size))]
        if self.blockwise:
            opts.append((4, b""))
        self._writers.append(writer)
        writer.write(_tcp_frame(CSM, b"", opts, b""))
        try:
            while True:
                b0 = (await reader.readexactly(1))[0]
                l, tkl = b0 >> 4, b0 & 15
                if l == 13:
                    l = (await reader.readexactly(1))[0] + 13
                elif l == 14:
                    l = struct.unpack("!H", await reader.readexactly(2))[0] + 269
                elif l == 15:
                    l = struct.unpack("!I", await reader.readexactly(4))[0] + 65805
                code = (await reader.readexactly(1))[0]
                token = await reader.readexactly(tkl)
                body = await reader.readexactly(l)
                if code >> 5 == 7:
                    if code == 0xE2:  # ping -> pong
                        writer.write(_tcp_frame(0xE3, token, [], b""))
                    continue
                if code == 0:
                    continue
                opts, payload = dec_opts(body)
                msg = Msg(code, opts, payload, token)
                self.requests.append(msg)
                a = self.handler(msg)
                if a is not None:
                    writer.write(_tcp_frame(a.code, token, a.opts, a.payload))
        except (asyncio.IncompleteReadError, ConnectionError, asyncio.CancelledError):
            pass
        finally:
            writer.close()


class Store:
    """A conforming RFC 7959 server resource (atomic Block1 reassembly, Block2
    serving).  Policies:

    block1_szx(offset, szx) -> the SZX to put into the acknowledgement of the
        block received at byte offset `offset` with `szx` (default: echo).
    block2_szx(offset, szx) -> the SZX to serve the block at `offset` with
        when `szx` was asked for (default: as asked).
    """

    def __init__(self, body=b"", etag=None, default_szx=6, bert_unit=None):
        self.body = body
        self.etag = etag
        self.default_szx = default_szx
        self.bert_unit = bert_unit  # KiB per BERT (SZX 7) Block2 block
        self.block1_szx = lambda offset, szx: szx
        self.block2_szx = lambda offset, szx: szx
        self.partial = None
        # what to do with the blocks held when a block arrives out of order
        # (which is answered 4.08 either way): drop them, or keep them and
        # wait for the block that fits
        self.keep_partial_on_mismatch = False
        self.uploads = []  # completed uploads
        self.errors = []  # protocol violations seen in requests

    @staticmethod
    def _size(szx):
        return 1024 if szx == 7 else 16 << szx

    def __call__(self, req):
        if req.code in (PUT, POST):
            return self.upload(req)
        return self.download(req)

    def upload(self, req):
        b1 = req.block(BLOCK1)
        if b1 is None:
            self.body = req.payload
            self.uploads.append(req.payload)
            self.partial = None
            return Msg(CHANGED)
        num, more, szx = b1
        offset = num * self._size(szx)
        if szx == 7:
            if more and len(req.payload) % 1024:
                self.errors.append("BERT block with M=1 and %d bytes" % len(req.payload))
                return Msg(BAD_REQUEST)
        elif more and len(req.payload) != self._size(szx):
            self.errors.append("non-final block of %d bytes with SZX %d" % (len(req.payload), szx))
            return Msg(BAD_REQUEST)
        elif len(req.payload) > self._size(szx):
            self.errors.append("final block of %d bytes with SZX %d" % (len(req.payload), szx))
            return Msg(BAD_REQUEST)
        if num == 0:
            self.partial = b""
        if self.partial is None or offset != len(self.partial):
            self.errors.append(
                "block at offset %d while %s bytes are held"
                % (offset, None if self.partial is None else len(self.partial))
            )
            if not self.keep_partial_on_mismatch:
                self.partial = None
            return Msg(INCOMPLETE)
        self.partial += req.payload
        ack_szx = self.block1_szx(offset, szx)
        if more:
            return Msg(CONTINUE, [(BLOCK1, enc_block(num, True, ack_szx))])
        self.body = self.partial
        self.uploads.append(self.partial)
        self.partial = None
        return Msg(CHANGED, [(BLOCK1, enc_block(num, False, ack_szx))])

    def download(self, req):
        b2 = req.block(BLOCK2)
        opts = []
        if self.etag is not None:
            opts.append((ETAG, self.etag))
        if b2 is None:
            if len(self.body) <= self._size(self.default_szx) * (
                self.bert_unit or 1 if self.default_szx == 7 else 1
            ):
                return Msg(CONTENT, opts, self.body)
            num, szx = 0, self.default_szx
        else:
            num, _, szx = b2
        offset = num * self._size(szx)
        new_szx = self.block2_szx(offset, szx)
        if new_szx != szx:
            assert offset % self._size(new_szx) == 0
            num, szx = offset // self._size(new_szx), new_szx
        if offset >= len(self.body) and offset:
            return Msg(BAD_REQUEST)
        length = self._size(szx) * (self.bert_unit or 1 if szx == 7 else 1)
        chunk = self.body[offset : offset + length]
        more = offset + len(chunk) < len(self.body)
        opts.append((BLOCK2, enc_block(num, more, szx)))
        return Msg(CONTENT, opts, chunk)


def pattern(n, seed=0):
    """n bytes in which every 16-byte line carries its own offset, so that a
    shifted, repeated or missing stretch is visible"""
    out = bytearray()
    i = 0
    while len(out) < n:
        out += b"%07d:%02d|....\n" % (i, seed % 100)
        i += 16
    return bytes(out[:n])
