"""shared set-up for F3 replays: /repo first, harness shims behind it, a stub `lakers`"""
import sys
import os
import types

sys.path.insert(0, "/verif/harness/shims")
sys.path.insert(0, "/repo")
if "lakers" not in sys.modules:
    lk = types.ModuleType("lakers")

    class _X:                                   # never instantiated here
        def __init__(self, *a, **k):
            raise NotImplementedError
    for n in ("EdhocResponder", "EdhocInitiator", "CredentialTransfer", "EADItem", "AutoCredential",
              "Credential"):
        setattr(lk, n, _X)
    lk.credential_check_or_fetch = lambda *a, **k: None
    sys.modules["lakers"] = lk

import aiocoap                                  # noqa: E402
from aiocoap import oscore                      # noqa: E402
assert aiocoap.__file__.startswith("/repo/"), aiocoap.__file__


def enc_l(x):
    out = bytearray()
    for b in x:
        out += bytes([1, b])
    out.append(0)
    return bytes(out)


class TAead(oscore.AeadAlgorithm):
    """transparent AEAD: header binding (key, nonce, aad, plaintext) followed by the plaintext"""
    value = 10
    key_bytes = 16
    tag_bytes = 4
    iv_bytes = 13

    def __init__(self):
        self.log = []

    def encrypt(self, plaintext, aad, key, iv):
        self.log.append(("enc", bytes(plaintext), bytes(aad), bytes(key), bytes(iv)))
        return enc_l(key) + enc_l(iv) + enc_l(aad) + enc_l(plaintext) + bytes(plaintext)

    def decrypt(self, c, aad, key, iv):
        c = bytes(c)
        hdr0 = len(enc_l(key)) + len(enc_l(iv)) + len(enc_l(aad)) + 1
        plen = max(len(c) - hdr0, 0) // 3
        p = c[len(c) - plen:]
        if enc_l(key) + enc_l(iv) + enc_l(aad) + enc_l(p) + p != c:
            raise oscore.ProtectionInvalid("Tag invalid")
        return p


class Ctx(oscore.CanProtect, oscore.CanUnprotect, oscore.SecurityContextUtils):
    def __init__(self, sid, rid, idctx=None, window=32, send_kid=False):
        self.alg_aead = TAead()
        self.hashfun = oscore.hashfunctions["sha256"]
        self.sender_id, self.recipient_id, self.id_context = sid, rid, idctx
        self.derive_keys(b"", b"\x01" * 16)
        self.sender_sequence_number = 0
        self.echo_recovery = None
        self.responses_send_kid = send_kid
        self.recipient_replay_window = oscore.ReplayWindow(window, lambda: None)
        self.recipient_replay_window.initialize_empty()

    def post_seqnoincrease(self):
        pass

    def fresh(self):
        self.recipient_replay_window = oscore.ReplayWindow(32, lambda: None)
        self.recipient_replay_window.initialize_empty()


def over_wire(m, mid=1, token=b"t"):
    m.mid, m.token = mid, token
    if m.mtype is None:
        m.mtype = aiocoap.CON
    return aiocoap.Message.decode(m.encode())
