"""Fix 51b9257 (outer code checked up front in unprotect) against the library's own callers, in-process and without
sockets: the REAL `TransportOSCORE._request` (client) talks to the REAL `OscoreSiteWrapper` (server, inside a real
`aiocoap.Context.render_to_pipe`) through a stub wire that serialises / parses every message.  Scenarios: plain
GET / PUT / 4.04, an observation with two notifications and a final one, Echo recovery (4.01 + Echo, retry), a
replayed request, outer codes rewritten in transit.
exit 1 = a genuine exchange of the library with itself fails at HEAD, or a rewritten outer code surfaces as something
other than a protection error at the caller."""
import asyncio
import logging
import sys
from common import aiocoap, oscore, Ctx
import aiocoap.pipe
import aiocoap.resource as resource
from aiocoap import Message, Context
from aiocoap.numbers import codes
from aiocoap.oscore_sitewrapper import OscoreSiteWrapper
from aiocoap.transports.oscore import TransportOSCORE, OSCOREAddress
from aiocoap.transports.udp6 import UDP6EndpointAddress
import socket

log = logging.getLogger("f3")
problems = []
notes = []


class Plain(resource.Resource):
    async def render_get(self, request):
        return Message(code=codes.CONTENT, payload=b"plain:" + bytes(repr(type(request.remote).__name__), "ascii"))

    async def render_put(self, request):
        return Message(code=codes.CHANGED, payload=b"put:" + request.payload)


class Obs(resource.ObservableResource):
    def __init__(self):
        super().__init__()
        self.n = 0

    async def render_get(self, request):
        self.n += 1
        return Message(code=codes.CONTENT, payload=b"state%d" % self.n)


class Creds:
    def __init__(self, sc):
        self.sc = sc

    def find_oscore(self, unprotected):
        if unprotected.get(oscore.COSE_KID) == self.sc.recipient_id:
            return self.sc
        raise KeyError()


def remote(port):
    class Iface:
        pass
    return UDP6EndpointAddress((socket.inet_pton(socket.AF_INET6, "::1") and "::1", port, 0, 0), Iface())


class WireRequest:
    """what `self._wire.request(protected)` returns: .response future and .observation async iterator"""

    def __init__(self, loop):
        self.response = loop.create_future()
        self._q = asyncio.Queue()
        outer = self

        class It:
            def __aiter__(self):
                return self

            async def __anext__(self):
                m = await outer._q.get()
                if m is None:
                    raise StopAsyncIteration
                return m
        self.observation = It()

    def feed(self, msg, is_last):
        if not self.response.done():
            self.response.set_result(msg)
        else:
            self._q.put_nowait(msg)
        if is_last:
            self._q.put_nowait(None)


class Wire:
    """stub forward context: hands the protected request to the server context, responses back; `mangle_req` /
    `mangle_resp` rewrite the datagram bytes in transit"""

    def __init__(self, loop, server_ctx):
        self.loop, self.server_ctx = loop, server_ctx
        self.mangle_req = self.mangle_resp = None
        self.requests = []
        self.responses = []

    def request(self, protected):
        wr = WireRequest(self.loop)
        protected.mid, protected.token = 7, b"T"
        protected.mtype = aiocoap.CON
        raw = protected.encode()
        if self.mangle_req:
            raw = self.mangle_req(raw)
        self.requests.append(raw)
        inc = Message.decode(raw, remote(40000))
        pipe = aiocoap.pipe.Pipe(inc, log)

        def on_event(ev):
            if ev.exception is not None:
                if not wr.response.done():
                    wr.response.set_exception(ev.exception)
                return False
            m = ev.message
            m.mid, m.token = 8, b"T"
            if m.mtype is None:
                m.mtype = aiocoap.ACK
            raw2 = m.encode()
            if self.mangle_resp:
                raw2 = self.mangle_resp(raw2)
            self.responses.append(raw2)
            wr.feed(Message.decode(raw2, remote(5683)), ev.is_last)
            return not ev.is_last
        pipe.on_event(on_event)
        self.server_ctx.render_to_pipe(pipe)
        return wr


class ClientCtx:
    def __init__(self, loop):
        self.loop, self.log = loop, log
        self.client_credentials = None


async def one(tr, wire, client_sc, msg, collect=1, timeout=2.0):
    """send `msg` through TransportOSCORE; returns list of ('msg', code, payload, observe) / ('exc', type)"""
    msg.remote = OSCOREAddress(client_sc, remote(5683))
    pipe = aiocoap.pipe.Pipe(msg, log)
    got = []
    done = asyncio.get_running_loop().create_future()

    def on_event(ev):
        if ev.exception is not None:
            got.append(("exc", type(ev.exception).__name__, str(ev.exception)))
            if not done.done():
                done.set_result(None)
            return False
        got.append(("msg", str(ev.message.code), ev.message.payload, ev.message.opt.observe))
        if ev.is_last or len(got) >= collect:
            if not done.done():
                done.set_result(None)
        return not ev.is_last
    pipe.on_event(on_event)
    tr.request(pipe)
    try:
        await asyncio.wait_for(done, timeout)
    except asyncio.TimeoutError:
        got.append(("timeout",))
    return got


def expect(label, got, want_prefix):
    ok = len(got) >= len(want_prefix) and all(g[:len(w)] == w for g, w in zip(got, want_prefix))
    print(f"  {label}: {got}")
    if not ok:
        problems.append(f"{label}: got {got}, wanted {want_prefix}")


async def main():
    loop = asyncio.get_running_loop()
    client_sc, server_sc = Ctx(b"\x01", b"\x02"), Ctx(b"\x02", b"\x01")
    site = resource.Site()
    obs = Obs()
    site.add_resource(["p"], Plain())
    site.add_resource(["o"], obs)
    server_ctx = Context(loop=loop, serversite=OscoreSiteWrapper(site, Creds(server_sc)))
    wire = Wire(loop, server_ctx)
    tr = TransportOSCORE(ClientCtx(loop), wire)

    print("genuine exchanges of the library with itself:")
    expect("GET /p", await one(tr, wire, client_sc, Message(code=codes.GET, uri_path=("p",))),
           [("msg", "2.05 Content")])
    print("     outer codes seen: request %d, response %d" % (wire.requests[-1][1], wire.responses[-1][1]))
    expect("PUT /p", await one(tr, wire, client_sc, Message(code=codes.PUT, uri_path=("p",), payload=b"x")),
           [("msg", "2.04 Changed", b"put:x")])
    expect("GET /nowhere", await one(tr, wire, client_sc, Message(code=codes.GET, uri_path=("nowhere",))),
           [("msg", "4.04 Not Found")])

    async def poke():
        for _ in range(2):
            await asyncio.sleep(0.05)
            obs.updated_state()
    t = loop.create_task(poke())
    r = await one(tr, wire, client_sc, Message(code=codes.GET, uri_path=("o",), observe=0), collect=3)
    await t
    expect("GET /o Observe:0 + 2 notifications", r,
           [("msg", "2.05 Content", b"state1"), ("msg", "2.05 Content", b"state2"), ("msg", "2.05 Content", b"state3")])
    print("     outer codes seen: request %d, responses %s" % (wire.requests[-1][1], [x[1] for x in wire.responses[-3:]]))

    # Echo recovery: server lost its window
    server_sc.recipient_replay_window = oscore.ReplayWindow(32, lambda: None)
    server_sc.echo_recovery = b"ECHO1234"
    expect("GET /p at a server that lost its window (4.01+Echo, retried by the transport)",
           await one(tr, wire, client_sc, Message(code=codes.GET, uri_path=("p",))), [("msg", "2.05 Content")])

    # replayed datagram at the server
    raw = wire.requests[-1]
    pipe = aiocoap.pipe.Pipe(Message.decode(raw, remote(40000)), log)
    seen = []
    pipe.on_event(lambda ev: seen.append(ev) or False)
    server_ctx.render_to_pipe(pipe)
    await asyncio.sleep(0.05)
    print("  replayed request datagram at the server:", [(str(e.message.code), e.message.payload) if e.message else e.exception for e in seen])
    if not seen or seen[0].message is None or str(seen[0].message.code) != "4.01 Unauthorized":
        problems.append(f"replayed request: {seen}")

    print("outer code rewritten in transit (caller-level view):")
    # response 2.04 -> 0.04 / 2.05 -> 0.05 (one bit): a stub wire hands it to the OSCORE transport as the response
    wire.mangle_resp = lambda raw: raw[:1] + bytes([raw[1] ^ 0x40]) + raw[2:]
    r = await one(tr, wire, client_sc, Message(code=codes.GET, uri_path=("p",)))
    wire.mangle_resp = None
    print("  response code ^0x40:", r)
    if not (r and r[0][0] == "exc" and r[0][1] in ("ProtectionInvalid", "DecodeError")):
        problems.append(f"response with outer code changed to a request code: {r}")
    # response 2.04 -> 2.05, 4.04 (still a response): accepted with the original message (RFC 8613: not authenticated)
    for newcode in (69, 132, 160):
        wire.mangle_resp = lambda raw, c=newcode: raw[:1] + bytes([c]) + raw[2:]
        r = await one(tr, wire, client_sc, Message(code=codes.PUT, uri_path=("p",), payload=b"y"))
        wire.mangle_resp = None
        print(f"  response outer code -> {newcode}:", r)
        if not (r and r[0][:3] == ("msg", "2.04 Changed", b"put:y")):
            problems.append(f"response with outer code {newcode}: {r}")
    # request POST -> PUT: the site wrapper answers 4.05 before unprotect; unprotected 4.05 at the client
    wire.mangle_req = lambda raw: raw[:1] + bytes([3]) + raw[2:]
    r = await one(tr, wire, client_sc, Message(code=codes.GET, uri_path=("p",)))
    wire.mangle_req = None
    print("  request POST -> PUT:", r)
    notes.append(f"request with outer PUT at the client: {r}")
    await server_ctx.shutdown() if False else None


asyncio.run(main())
print()
for p in problems:
    print("PROBLEM:", p)
print("RESULT:", "callers broken / wrong error class" if problems else
      "51b9257 breaks none of the library's own callers in these exchanges")
sys.exit(1 if problems else 0)
