"""C11 / fixes 64c7673 + 4439439: does `_uncompress` at /repo HEAD (a) accept every option value RFC 8613 6.1 / 5
allows (own builder), (b) accept everything aiocoap's own `_compress` produces, (c) refuse the neighbours of the two
reported inputs for every flag combination?   exit 1 = a legal / self-produced option is refused, or an illegal
neighbour is accepted."""
import itertools
import sys
from common import oscore

U = oscore.CanUnprotect._uncompress
C = oscore.CanProtect._compress
bad = []


def build(piv, ctx, kid, group):
    flags = (len(piv) if piv else 0) | (8 if kid is not None else 0) | (0x10 if ctx is not None else 0) | \
        (0x20 if group else 0)
    if flags == 0:
        return b""
    return bytes([flags]) + (piv or b"") + (bytes([len(ctx)]) + ctx if ctx is not None else b"") + (kid or b"")


def minimal(n):
    return n.to_bytes(max(1, (n.bit_length() + 7) // 8), "big")


PIVS = [None] + [minimal(n) for n in (0, 1, 255, 256, 65535, 65536, 2**24 - 1, 2**24, 2**32 - 1, 2**32, 2**40 - 1)]
CTXS = [None, b"", b"\x00", b"c", b"\x00\x00", b"12345678", b"x" * 255]
KIDS = [None, b"", b"\x00", b"k", b"\x00\x00", b"1234567"]
n_legal = 0
for piv, ctx, kid, group in itertools.product(PIVS, CTXS, KIDS, (False, True)):
    v = build(piv, ctx, kid, group)
    n_legal += 1
    try:
        _, _, un, _ = U(v, b"ct")
    except Exception as e:
        bad.append(f"LEGAL option {v[:12].hex()}.. (piv={piv}, ctx={None if ctx is None else len(ctx)}, kid={kid}, "
                   f"group={group}) refused: {type(e).__name__}: {e}")
        continue
    got = (un.get(oscore.COSE_PIV), un.get(oscore.COSE_KID_CONTEXT), un.get(oscore.COSE_KID),
           oscore.COSE_COUNTERSIGNATURE0 in un)
    if got != (piv, ctx, kid, group):
        bad.append(f"LEGAL option {v[:12].hex()} decoded to {got}")

# (b) everything _compress writes (the PIV as _build_new_nonce makes it)
n_self = 0
for n, ctx, kid, group in itertools.product(
        [None, 0, 1, 255, 256, 2**16, 2**24, 2**32, 2**40 - 2, 2**40 - 1], CTXS, KIDS, (False, True)):
    un = {}
    if n is not None:
        un[oscore.COSE_PIV] = n.to_bytes(5, "big").lstrip(b"\0") or b"\0"
    if ctx is not None:
        un[oscore.COSE_KID_CONTEXT] = ctx
    if kid is not None:
        un[oscore.COSE_KID] = kid
    if group:
        un[oscore.COSE_COUNTERSIGNATURE0] = b""
    want = dict(un)
    opt, _ = C({}, dict(un), b"ct")
    n_self += 1
    try:
        _, _, back, _ = U(opt, b"ct")
    except Exception as e:
        bad.append(f"SELF-PRODUCED option {opt[:12].hex()} refused: {type(e).__name__}: {e}")
        continue
    if group:
        want[oscore.COSE_COUNTERSIGNATURE0] = oscore.PRESENT_BUT_NO_VALUE_YET
    if back != want:
        bad.append(f"SELF-PRODUCED option {opt[:12].hex()} decoded to {back} != {want}")

# (c) neighbours of the reported inputs: trailing bytes for every k-less flag combination, flag byte 00 alone /
# with junk, a leading zero for every PIV length 2..5, for every other flag combination
n_ill = 0
for piv, ctx, group in itertools.product(PIVS, CTXS[:4], (False, True)):
    v = build(piv, ctx, None, group)
    for junk in (b"\x00", b"\xaa", b"\x00\x00", b"\xaa\xbb\xcc"):
        w = (v or b"\x00") + junk
        n_ill += 1
        try:
            U(w, b"ct")
        except oscore.DecodeError:
            pass
        except Exception as e:
            bad.append(f"ILLEGAL option {w[:12].hex()} raised {type(e).__name__} (not DecodeError)")
        else:
            bad.append(f"ILLEGAL option {w[:12].hex()} (bytes behind a k-less option) accepted")
for w in (b"\x00",):
    n_ill += 1
    try:
        U(w, b"ct")
    except oscore.DecodeError:
        pass
    else:
        bad.append("option 00 accepted")
for ln in (2, 3, 4, 5):
    for body in (b"\x00" * (ln - 1) + b"\x05", b"\x00" + b"\xff" * (ln - 1), b"\x00" * ln):
        for ctx, kid, group in itertools.product(CTXS[:3], KIDS[:4], (False, True)):
            w = build(body, ctx, kid, group)
            n_ill += 1
            try:
                U(w, b"ct")
            except oscore.DecodeError:
                pass
            except Exception as e:
                bad.append(f"ILLEGAL option {w.hex()} raised {type(e).__name__}")
            else:
                bad.append(f"ILLEGAL option {w.hex()} (padded Partial IV) accepted")
# reserved n = 6, 7; reserved bits; announced-but-missing fields: still DecodeError, never IndexError
for w in (b"\x06" + b"\x01" * 6, b"\x07" + b"\x01" * 7, b"\x40", b"\x80", b"\x41\x01", b"\x10", b"\x11\x05",
          b"\x10\x02\x01", b"\x03\x01\x02", b"\x05\x01", b"\x18", b"\x19\x01", b"\x30", b"\x28"):
    n_ill += 1
    try:
        r = U(w, b"ct")
    except oscore.DecodeError:
        pass
    except Exception as e:
        bad.append(f"malformed option {w.hex()} raised {type(e).__name__}: {e}")
    else:
        if w not in (b"\x28",):                    # 28 = group + k with empty kid: legal
            bad.append(f"malformed option {w.hex()} accepted: {r[2]}")

print(f"legal (RFC 8613 6.1 + group flag) options tried: {n_legal}; self-produced: {n_self}; illegal neighbours: {n_ill}")
for b in bad[:40]:
    print("  !!", b)
print("RESULT:", "MISMATCH" if bad else "fixes 64c7673 / 4439439 refuse nothing legal or self-produced, and every neighbour tried")
sys.exit(1 if bad else 0)
