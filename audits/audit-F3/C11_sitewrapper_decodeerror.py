"""Observation (not a C11 clause): what the library's server entry point answers to requests whose OSCORE option the
round-4 fixes newly call undecodable.  OscoreSiteWrapper maps DecodeError from unprotect() to 4.02 / silence for NON,
but `verify_start` runs outside that try block."""
import asyncio, logging, sys
from common import aiocoap, oscore, Ctx, over_wire
import aiocoap.pipe, aiocoap.resource as resource
from aiocoap import Message, Context
from aiocoap.numbers import codes
from aiocoap.oscore_sitewrapper import OscoreSiteWrapper
logging.disable(logging.CRITICAL)
log = logging.getLogger("x")

class Creds:
    def __init__(self, sc): self.sc = sc
    def find_oscore(self, u):
        if u.get(oscore.COSE_KID) == self.sc.recipient_id: return self.sc
        raise KeyError()

async def main():
    loop = asyncio.get_running_loop()
    C, S = Ctx(b"\x01", b"\x02"), Ctx(b"\x02", b"\x01")
    site = resource.Site()
    ctx = Context(loop=loop, serversite=OscoreSiteWrapper(site, Creds(S)))
    C.sender_sequence_number = 5
    outer, _ = C.protect(Message(code=codes.GET, uri_path=("p",)))
    res = {}
    for label, opt, mtype in (("genuine", None, aiocoap.CON), ("PIV 02 00 05 (CON)", b"\x0a\x00\x05\x01", aiocoap.CON),
                              ("PIV 02 00 05 (NON)", b"\x0a\x00\x05\x01", aiocoap.NON),
                              ("reserved bit (NON, old)", b"\x49\x05\x01", aiocoap.NON),
                              ("wrong tag (NON)", "tag", aiocoap.NON)):
        m = over_wire(outer)
        m.mtype = mtype
        if opt == "tag": m.payload = m.payload[:-1] + bytes([m.payload[-1] ^ 1])
        elif opt is not None: m.opt.oscore = opt
        S.fresh()
        pipe = aiocoap.pipe.Pipe(m, log)
        seen = []
        pipe.on_event(lambda ev: seen.append(ev) or False)
        ctx.render_to_pipe(pipe)
        await asyncio.sleep(0.05)
        res[label] = [str(e.message.code) if e.message is not None else repr(e.exception) for e in seen]
        print(f"  {label}: {res[label]}")
asyncio.run(main())
