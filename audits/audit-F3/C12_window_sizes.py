"""Fix d4a2c42 (window size < 1 refused) and its neighbours on the real FilesystemSecurityContext: sizes 0, -1, false,
true, 1, 1.5, "8"; a refused load between two orderly lives must leave sequence.json as it was, so that after the
operator repairs the setting every number accepted before is still refused and fresh ones are accepted.
exit 1 = at-most-once violated / non-protection exception / state damaged."""
import gc
import json
import os
import shutil
import sys
import tempfile
from common import aiocoap, oscore, Ctx, TAead, over_wire
from aiocoap import Message
from aiocoap.numbers import codes

oscore.algorithms["f3-transparent"] = TAead()
sys.unraisablehook = lambda u: None
problems = []


def settings(d, window):
    st = {"algorithm": "f3-transparent", "sender-id_hex": "02", "recipient-id_hex": "01", "secret_hex": "01" * 16}
    if window is not None:
        st["window"] = window
    with open(os.path.join(d, "settings.json"), "w") as f:
        json.dump(st, f)


def load(d):
    try:
        os.unlink(os.path.join(d, "lock"))        # the shim's lock is a plain file; a dead object leaves it behind
    except FileNotFoundError:
        pass
    return oscore.FilesystemSecurityContext(d)


peer = Ctx(b"\x01", b"\x02")


def request(seq):
    peer.sender_sequence_number = seq
    outer, _ = peer.protect(Message(code=codes.GET, uri_path=("x",)))
    return over_wire(outer)


def arrive(ctx, seq):
    try:
        ctx.unprotect(request(seq))
        return "A"
    except oscore.ReplayErrorWithEcho:
        return "E"
    except oscore.ReplayError:
        return "R"
    except oscore.ProtectionInvalid:
        return "P"
    except Exception as e:
        return "X<%s>" % type(e).__name__


for w in (0, -1, -32, False, True, 1, 1.5, "8", None):
    d = tempfile.mkdtemp(prefix="f3-", dir="/dev/shm" if os.access("/dev/shm", os.W_OK) else None)
    try:
        settings(d, w)
        try:
            ctx = load(d)
        except oscore.FilesystemSecurityContext.LoadError as e:
            print(f"window={w!r}: load refused ({e}); sequence.json exists: {os.path.exists(os.path.join(d, 'sequence.json'))}")
            gc.collect()
            if os.path.exists(os.path.join(d, "sequence.json")):
                problems.append(f"window={w!r}: a refused load wrote sequence.json")
            continue
        outs = [arrive(ctx, n) for n in (0, 1, 0, 5, 1, 4, 5, 6)]
        print(f"window={w!r}: loaded, size {ctx.recipient_replay_window._size!r}; arrivals 0 1 0 5 1 4 5 6 -> {''.join(outs)}")
        acc = [n for n, o in zip((0, 1, 0, 5, 1, 4, 5, 6), outs) if o == "A"]
        if len(acc) != len(set(acc)) or any(o.startswith("X") for o in outs) or outs[0] != "A" or outs[3] != "A" or outs[7] != "A":
            problems.append(f"window={w!r}: {outs}")
        ctx._destroy()
    finally:
        shutil.rmtree(d, ignore_errors=True)

# a setting without slots edited in between two orderly lives, then repaired
for bad in (0, -1):
    d = tempfile.mkdtemp(prefix="f3-", dir="/dev/shm" if os.access("/dev/shm", os.W_OK) else None)
    try:
        settings(d, 32)
        ctx = load(d)
        first = [arrive(ctx, n) for n in (0, 1, 2, 7)]
        ctx._destroy()
        before = open(os.path.join(d, "sequence.json")).read()
        settings(d, bad)
        try:
            ctx = load(d)
            problems.append(f"window edited to {bad}: loaded")
        except oscore.FilesystemSecurityContext.LoadError:
            pass
        ctx = None
        gc.collect()
        after = open(os.path.join(d, "sequence.json")).read()
        settings(d, 32)
        ctx = load(d)
        again = [arrive(ctx, n) for n in (0, 1, 2, 7, 3, 8)]
        print(f"32 -> {bad} (refused) -> 32: first life {''.join(first)}, sequence.json unchanged by the refused load: "
              f"{before == after}, third life 0 1 2 7 3 8 -> {''.join(again)}")
        if before != after or again != ["R", "R", "R", "R", "A", "A"]:
            problems.append(f"window edited to {bad} and back: {before} / {after} / {again}")
        ctx._destroy()
    finally:
        shutil.rmtree(d, ignore_errors=True)

for s in (0, -1, 0.5):
    try:
        oscore.ReplayWindow(s, lambda: None)
        problems.append(f"ReplayWindow({s}) constructed")
    except ValueError:
        pass
print("RESULT:", problems or "d4a2c42 holds on all neighbours tried")
sys.exit(1 if problems else 0)
