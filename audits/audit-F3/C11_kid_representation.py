"""C11 sentence 3 ("any change to ... the partial IV, key ID or ID context in the OSCORE option ... makes
unprotection fail with a protection error and never yields a message"), round 4's reading ("any modification is
rejected": 64c7673, 4439439).  The same class of field-level rewrites on KID / KID context that `unprotect()` at HEAD
still takes: exit 1 when a rewritten OSCORE option is accepted."""
import sys
from common import aiocoap, oscore, Ctx, over_wire
from aiocoap import Message
from aiocoap.numbers import codes

accepted = []


def run(label, recv, msg, rid, newopt):
    m = over_wire(msg)
    old = m.opt.oscore
    m.opt.oscore = newopt
    recv.fresh()
    try:
        plain, _ = recv.unprotect(m, rid)
    except oscore.ProtectionInvalid as e:
        print(f"  {label}: {old.hex() or '(empty)'} -> {newopt.hex() or '(empty)'}: refused ({type(e).__name__})")
    except Exception as e:
        print(f"  {label}: {old.hex()} -> {newopt.hex()}: raised {type(e).__name__}: {e}")
        accepted.append(label + " (other exception)")
    else:
        print(f"  {label}: {old.hex() or '(empty)'} -> {newopt.hex() or '(empty)'}: ACCEPTED, yields {plain.code} {plain.payload!r}")
        accepted.append(label)


for idctx in (None, b"\xc7"):
    print(f"contexts with ID context {idctx!r}")
    C, S = Ctx(b"\x01", b"\x02", idctx), Ctx(b"\x02", b"\x01", idctx)
    C.sender_sequence_number = 5
    S.sender_sequence_number = 9
    outer, rid_c = C.protect(Message(code=codes.GET, uri_path=("a",), payload=b"req"))
    opt = over_wire(outer).opt.oscore               # 09 05 01   or   19 05 01 c7 01
    # request: K flag cleared, KID removed
    if idctx is None:
        run("request, KID removed", S, outer, None, bytes([opt[0] & ~8]) + opt[1:2])
    else:
        run("request, KID removed (ctx kept)", S, outer, None, bytes([opt[0] & ~8]) + opt[1:4])
        run("request, KID context removed", S, outer, None, bytes([opt[0] & ~0x10]) + opt[1:2] + opt[4:])
        run("request, KID and KID context removed", S, outer, None, bytes([opt[0] & 7]) + opt[1:2])
    S.fresh()
    _, rid_s = S.unprotect(over_wire(outer))
    r1, _ = S.protect(Message(code=codes.CONTENT, payload=b"first"), rid_s)      # reuses the request nonce: option empty
    r2, _ = S.protect(Message(code=codes.CONTENT, payload=b"second"), rid_s)     # own Partial IV: 01 09
    run("response (no PIV), KID added", C, r1, rid_c, b"\x08" + C.recipient_id)
    run("response (own PIV), KID added", C, r2, rid_c, b"\x09\x09" + C.recipient_id)
    if idctx is not None:
        run("response (no PIV), KID context added", C, r1, rid_c, b"\x10" + bytes([len(idctx)]) + idctx)
        run("response (own PIV), KID + KID context added", C, r2, rid_c,
            b"\x19\x09" + bytes([len(idctx)]) + idctx + C.recipient_id)
    # for comparison, what round 4 closed
    run("response (own PIV), leading zero [closed by 4439439]", C, r2, rid_c, b"\x02\x00\x09")
    run("response (no PIV), bytes appended [closed by 64c7673]", C, r1, rid_c, b"\x00\xaa")

print()
print("rewritten OSCORE options that unprotect() accepts at HEAD:", accepted or "none")
sys.exit(1 if accepted else 0)
