"""Fix 51b9257 over ALL 256 outer codes x {request, response with own PIV, response without PIV} x {request_id given,
not given} x window {empty, lost + echo_recovery, lost without}: the result is a ProtectionInvalid (sub)class or the
original message; a refused message never touches the replay window; a recorded request is never accepted under a
response code and vice versa; a lost window is only initialised by an authentic response code + identifiers.
exit 1 = anything else (other exception class, role confusion, window touched)."""
import sys
from common import aiocoap, oscore, Ctx, over_wire
from aiocoap import Message
from aiocoap.numbers import codes

problems = []
C, S = Ctx(b"\x01", b"\x02"), Ctx(b"\x02", b"\x01")
C.sender_sequence_number = 5
S.sender_sequence_number = 9
req, rid_c = C.protect(Message(code=codes.GET, uri_path=("a",), payload=b"req"))
_, rid_s = S.unprotect(over_wire(req))
r1, _ = S.protect(Message(code=codes.CONTENT, payload=b"first"), rid_s)
r2, _ = S.protect(Message(code=codes.CONTENT, payload=b"second"), rid_s)
# a request of S for C to receive (so that C has a "recorded request of the peer")
S.sender_sequence_number = 20
sreq, _ = S.protect(Message(code=codes.GET, uri_path=("b",), payload=b"sreq"))

stats = {}


def win(ctx):
    w = ctx.recipient_replay_window
    return w.persist() if w.is_initialized() else None


def setwin(ctx, state):
    ctx.recipient_replay_window = oscore.ReplayWindow(32, lambda: None)
    ctx.echo_recovery = None
    if state == "empty":
        ctx.recipient_replay_window.initialize_empty()
    elif state == "lost+echo":
        ctx.echo_recovery = b"E" * 8
    elif state == "part":
        ctx.recipient_replay_window.initialize_from_persisted({"index": 3, "bitfield": 0b101})


for state in ("empty", "part", "lost+echo", "lost"):
    for made_as, wire_msg, recv, rid, payload in (
            ("request", sreq, C, rid_c, b"sreq"),            # a request of the peer arriving at C
            ("response+piv", r2, C, rid_c, b"second"),
            ("response", r1, C, rid_c, b"first")):
        for code in range(256):
            for give_rid in (False, True):
                m = over_wire(wire_msg)
                m.code = codes.Code(code)
                setwin(recv, state)
                before = win(recv)
                try:
                    plain, _ = recv.unprotect(m, rid if give_rid else None)
                    out = "A"
                except oscore.ProtectionInvalid as e:
                    out = "P:" + type(e).__name__
                except Exception as e:
                    out = "X:" + type(e).__name__
                after = win(recv)
                key = (state, made_as, give_rid, out)
                stats[key] = stats.get(key, 0) + 1
                where = f"window {state}, {made_as} under outer code {code >> 5}.{code & 31:02d}, request_id {'given' if give_rid else 'None'}"
                if out.startswith("X"):
                    problems.append(f"{where}: {out}")
                    continue
                is_resp_code = 64 <= code < 192
                if out == "A":
                    if plain.payload != payload:
                        problems.append(f"{where}: accepted with another message")
                    if made_as == "request" and (give_rid or code not in (2, 5)):
                        problems.append(f"{where}: a request accepted outside the request path")
                    if made_as != "request" and not (give_rid and is_resp_code):
                        problems.append(f"{where}: a response accepted outside the response path")
                    if made_as == "request" and state.startswith("lost"):
                        problems.append(f"{where}: request accepted on a lost window without Echo")
                else:
                    if before != after:
                        problems.append(f"{where}: refused ({out}) but window {before} -> {after}")
                if before is not None and made_as != "request" and before != after:
                    problems.append(f"{where}: response changed an initialised window")
                if before is None and after is not None and not (
                        made_as == "response+piv" and give_rid and is_resp_code and state == "lost+echo"):
                    problems.append(f"{where}: lost window initialised to {after}")

for k in sorted(stats):
    print(" ", k, stats[k])
print("RESULT:", problems[:20] or "only protection errors or the original message; no role confusion; windows untouched by refusals")
sys.exit(1 if problems else 0)
