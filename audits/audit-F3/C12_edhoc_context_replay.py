"""C12 position "contexts without echo_recovery: refused, wrong class; not reachable with the shims" made reachable:
a real EdhocResponderContext (made ready through `_make_ready` with a stand-in for the lakers object and the
transparent AEAD in place of AES-CCM) sees a request twice.  exit 1 = the replay is not refused with a ReplayError
(the property's success/failure reading is still satisfied when it is refused by another exception)."""
import logging, sys
from common import aiocoap, oscore, Ctx, TAead, over_wire
from aiocoap import Message, edhoc
from aiocoap.numbers import codes

real = oscore.algorithms["AES-CCM-16-64-128"]
oscore.algorithms["AES-CCM-16-64-128"] = TAead()


class FakeLakers:
    def selected_cipher_suite(self):
        return 2

    def edhoc_exporter(self, label, ctx, length):
        return bytes([label + 1]) * length


try:
    srv = edhoc.EdhocResponderContext(None, b"\x02", b"\x01", None, logging.getLogger("x"), None)
    srv._make_ready(FakeLakers(), b"\x01", b"\x02")          # c_ours = recipient id (the peer sender id), c_theirs = own sender id
    srv._incomplete = False
    cli = Ctx(b"\x01", b"\x02")
    cli.alg_aead = oscore.algorithms["AES-CCM-16-64-128"]
    cli.derive_keys(FakeLakers().edhoc_exporter(1, [], 8), FakeLakers().edhoc_exporter(0, [], 16))
    outer, _ = cli.protect(Message(code=codes.GET, uri_path=("x",), payload=b"hello"))
    first, _ = srv.unprotect(over_wire(outer))
    print("first arrival :", first.code, first.payload)
    try:
        srv.unprotect(over_wire(outer))
        print("second arrival: ACCEPTED")
        rc = 1
    except oscore.ReplayError as e:
        print("second arrival: ReplayError", e)
        rc = 0
    except Exception as e:
        print(f"second arrival: refused, but with {type(e).__name__}: {e}")
        print("has echo_recovery attribute:", hasattr(srv, "echo_recovery"),
              "| via OscoreSiteWrapper this is an unhandled exception -> 5.00 + traceback in the log instead of 4.01")
        rc = 1
finally:
    oscore.algorithms["AES-CCM-16-64-128"] = real
sys.exit(rc)
