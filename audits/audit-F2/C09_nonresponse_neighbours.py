"""20e4f9c neighbours: messages whose code is no response code reaching the token manager by
other entry points than a plain handler's return value: first response / notification of an
observable resource (rendered, explicit via updated_state / trigger), code None, int code set
after construction, own render(), own render_to_pipe with a non-final bad event.
exit 1 = some request not answered by exactly one final response / a non-response left the server
on the client's token / callback or count wrong."""
from fk import *

bad = []


def check(name, mi, peer, tok, want_final, res=None, want_cb=None):
    msgs = mi.to(peer)
    nonresp = [m for m in msgs if not m.code.is_response() and not (m.code == EMPTY and m.mtype in (ACK, RST))]
    finals = [m for m in mi.to(peer, tok) if m.code.is_response() and (m.opt.observe is None or not m.code.is_successful())]
    line = "%-44s sent: %s" % (name, "; ".join(desc(m) for m in msgs))
    print(line)
    if nonresp:
        bad.append(name + ": non-response on the wire: " + "; ".join(desc(m) for m in nonresp))
    codes = [int(m.code) for m in finals]
    if codes != want_final:
        bad.append("%s: final responses %r, expected %r" % (name, codes, want_final))
    if mi.tman.incoming_requests:
        bad.append("%s: incoming_requests left: %r" % (name, list(mi.tman.incoming_requests)))
    if res is not None and want_cb is not None:
        if res.cb != want_cb or (res.counts and res.counts[-1] != 0) or len(res._observations):
            bad.append("%s: callback ran %d (want %d), counts %r, set %d" % (name, res.cb, want_cb, res.counts, len(res._observations)))


async def obs_case(name, first=None, notif=None, explicit=None, via="update", mt=CON):
    res = Obs()
    site = resource.Site()
    site.add_resource(["r"], res)
    ctx, mi = await server(site)
    p = Addr("p")
    if first is not None:
        res.renders.append(first)
    mi.inject(p, mtype=mt, code=GET, mid=10, token=b"\x01", path=("r",), observe=0)
    await settle()
    if first is not None:
        check(name, mi, p, b"\x01", [160], res, want_cb=1)
        await ctx.shutdown()
        return
    # ack nothing needed for the piggy-backed first response
    if notif is not None:
        res.renders.append(notif)
        res.state += 1
        res.updated_state()
    else:
        res.state += 1
        if via == "update":
            res.updated_state(explicit())
        else:
            res.last_so.trigger(explicit())
    await settle()
    # ack whatever CON went out
    for m in mi.to(p):
        if m.mtype == CON:
            mi.inject(p, mtype=ACK, code=EMPTY, mid=m.mid)
    await settle()
    check(name, mi, p, b"\x01", [160], res, want_cb=1)
    # the endpoint is still served afterwards
    mi.inject(p, mtype=CON, code=GET, mid=11, token=b"\x02", path=("r",))
    await settle()
    ok = [m for m in mi.to(p, b"\x02") if int(m.code) == 69]
    if len(ok) != 1:
        bad.append(name + ": later request not answered 2.05")
    await ctx.shutdown()


class OwnRender(resource.Resource):
    def __init__(self, val):
        super().__init__()
        self.val = val

    async def needs_blockwise_assembly(self, request):
        return False

    async def render(self, request):
        return self.val()


class OwnPipe(resource.Resource):
    async def render_to_pipe(self, pipe):
        pipe.add_response(Message(code=GET, payload=b"x"), is_last=False)
        pipe.add_response(Message(code=CONTENT, payload=b"y"), is_last=True)


class IntCode(resource.Resource):
    async def render_get(self, request):
        m = Message(payload=b"int")
        m.code = 69          # plain int, not a Code
        return m


async def plain_case(name, res, want):
    site = resource.Site()
    site.add_resource(["r"], res)
    ctx, mi = await server(site)
    p = Addr("p")
    mi.inject(p, mtype=CON, code=GET, mid=10, token=b"\x01", path=("r",))
    await settle()
    check(name, mi, p, b"\x01", want)
    await ctx.shutdown()


async def main():
    for mt in (CON, NON):
        n = "CON" if mt == CON else "NON"
        await obs_case(n + " first response code=GET", first=lambda: Message(code=GET, payload=b"x"), mt=mt)
        await obs_case(n + " first response code=EMPTY", first=lambda: Message(code=EMPTY), mt=mt)
        await obs_case(n + " notification rendered code=GET", notif=lambda: Message(code=GET, payload=b"x"), mt=mt)
        await obs_case(n + " notification rendered code=EMPTY", notif=lambda: Message(code=EMPTY), mt=mt)
        await obs_case(n + " notification rendered code=7.01", notif=lambda: Message(code=Code(225)), mt=mt)
        await obs_case(n + " updated_state(Message(code=EMPTY))", explicit=lambda: Message(code=EMPTY), mt=mt)
        await obs_case(n + " updated_state(Message(code=PUT))", explicit=lambda: Message(code=PUT, payload=b"x"), mt=mt)
        await obs_case(n + " trigger(Message()) code None", explicit=lambda: Message(payload=b"x"), via="trigger", mt=mt)
    await plain_case("own render() returns Message() (no code)", OwnRender(lambda: Message(payload=b"x")), [160])
    await plain_case("own render() returns code=EMPTY", OwnRender(lambda: Message(code=EMPTY)), [160])
    await plain_case("own render_to_pipe: non-final GET then 2.05", OwnPipe(), [160])
    await plain_case("render_get sets int code 69 after construction", IntCode(), [69])


_, loopexc = run(main())
for e in loopexc:
    bad.append("loop exception: " + e)
print()
for b in bad:
    print("DEVIATION:", b)
sys.exit(1 if bad else 0)
