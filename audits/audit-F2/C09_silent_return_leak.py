"""Position "a render_to_pipe implementer returning without an event (the OSCORE wrapper's way to stay silent towards
NON requests)": what the library's own wrapper leaves behind. 200 NON requests with an OSCORE option that matches no
context, distinct tokens. exit 1 = entries stay in TokenManager.incoming_requests (one Pipe + request each, for good)."""
import sys
sys.path.insert(2, "/tmp/audit/F2/stubs")
from fk import *
sys.path.insert(2, "/tmp/audit/F2/stubs")
from aiocoap.oscore_sitewrapper import OscoreSiteWrapper

class Creds(dict):
    def find_oscore(self, unprotected):
        raise KeyError()

async def main():
    wrapper = OscoreSiteWrapper(resource.Site(), Creds())
    ctx, mi = await server(wrapper)
    p = Addr("p")
    for i in range(200):
        mi.inject(p, mtype=NON, code=POST, mid=100 + i, token=i.to_bytes(2, "big"), payload=b"\x01\x02\x03\x04\x05\x06\x07\x08\x09",
                  oscore=b"\x09\x01\x42")
    await asyncio.sleep(300)
    n = len(mi.tman.incoming_requests)
    print("sent to peer:", len(mi.to(p)), "incoming_requests entries after 300 s:", n)
    await ctx.shutdown()
    return n

n, _ = run(main())
sys.exit(1 if n else 0)
