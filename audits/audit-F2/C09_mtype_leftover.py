"""a5672c0 neighbours: message type left on / set on a response object.
 1. the application sets mtype=ACK / RST deliberately on a fresh response (NON request, slow CON request)
 2. one pre-built response: fast CON (piggy-backed) -> slow CON -> fast CON -> NON -> slow CON
 3. observable resource returning one pre-built object: first response piggy-backed, then notifications (each ACKed)
 4. the library's own empty ACK / RST (ping, unknown response) still go out with the peer's message ID
exit 1 = a response leaves as ACK/RST that does not carry the message ID of that peer's CON request on the token,
or the separate response to a CON request that was already acknowledged is not retransmittable (not CON) although the
application never asked for NON  [the second is DESIGN's declared position "left-over NON": printed, counted separately]."""
from fk import *

bad, noted = [], []


class Pre(resource.Resource):
    def __init__(self, msg=None, mk=None):
        super().__init__()
        self.msg, self.mk = msg, mk
        self.delay = 0

    async def render_get(self, request):
        if self.delay:
            await asyncio.sleep(self.delay)
        return self.mk() if self.mk else self.msg


def stray(mi, p, reqs):
    out = []
    for m in mi.to(p):
        if m.code.is_response() and m.mtype in (ACK, RST):
            if m.mtype == RST or reqs.get(m.mid) != m.token:
                out.append(desc(m))
    return out


async def deliberate(kind):
    def mk():
        m = Message(code=CONTENT, payload=b"x")
        m.mtype = kind
        return m
    res = Pre(mk=mk)
    site = resource.Site()
    site.add_resource(["r"], res)
    ctx, mi = await server(site)
    p = Addr("p")
    mi.inject(p, mtype=NON, code=GET, mid=10, token=b"\x01", path=("r",))
    await settle()
    res.delay = 0.5
    mi.inject(p, mtype=CON, code=GET, mid=11, token=b"\x02", path=("r",))
    await asyncio.sleep(1)
    res.delay = 0
    mi.inject(p, mtype=CON, code=GET, mid=12, token=b"\x03", path=("r",))
    await settle()
    print("application sets mtype=%s:" % kind.name, "; ".join(desc(m) for m in mi.to(p)))
    s = stray(mi, p, {11: b"\x02", 12: b"\x03"})
    if s:
        bad.append("deliberate %s: stray %s" % (kind.name, s))
    for tok in (b"\x01", b"\x02", b"\x03"):
        if len([m for m in mi.to(p, tok) if m.code.is_response()]) != 1:
            bad.append("deliberate %s: token %s not answered once" % (kind.name, tok.hex()))
    await ctx.shutdown()


async def prebuilt():
    res = Pre(msg=Message(code=CONTENT, payload=b"static"))
    site = resource.Site()
    site.add_resource(["r"], res)
    ctx, mi = await server(site)
    p = Addr("p")
    seq = [("fast", CON), ("slow", CON), ("fast", CON), ("fast", NON), ("slow", CON)]
    reqs = {}
    for i, (speed, mt) in enumerate(seq):
        res.delay = 0.5 if speed == "slow" else 0
        mid, tok = 10 + i, bytes([i + 1])
        if mt == CON:
            reqs[mid] = tok
        mi.inject(p, mtype=mt, code=GET, mid=mid, token=tok, path=("r",))
        await asyncio.sleep(1)
        for m in mi.to(p):
            if m.mtype == CON:
                mi.inject(p, mtype=ACK, code=EMPTY, mid=m.mid)
        await settle()
        got = [m for m in mi.to(p, tok) if m.code.is_response()]
        print("pre-built object, %s %s request -> %s" % (speed, mt.name, "; ".join(desc(m) for m in got)))
        if len(got) != 1:
            bad.append("prebuilt step %d: %d responses" % (i, len(got)))
        elif speed == "slow" and mt == CON and got[0].mtype != CON:
            noted.append("prebuilt step %d: separate response to an acknowledged CON request left as %s" % (i, got[0].mtype.name))
    s = stray(mi, p, reqs)
    if s:
        bad.append("prebuilt: stray %s" % s)
    await ctx.shutdown()


async def observe_prebuilt():
    class R(Obs):
        def __init__(self):
            super().__init__()
            self.msg = Message(code=CONTENT, payload=b"static")

        async def render_get(self, request):
            return self.msg
    res = R()
    site = resource.Site()
    site.add_resource(["r"], res)
    ctx, mi = await server(site)
    p = Addr("p")
    mi.inject(p, mtype=CON, code=GET, mid=10, token=b"\x01", path=("r",), observe=0)
    await settle()
    for k in range(3):
        res.updated_state()
        await settle()
        for m in mi.to(p):
            if m.mtype == CON:
                mi.inject(p, mtype=ACK, code=EMPTY, mid=m.mid)
        await settle()
    print("observable, one pre-built object:", "; ".join(desc(m) for m in mi.to(p)))
    s = stray(mi, p, {10: b"\x01"})
    if s:
        bad.append("observe prebuilt: stray %s" % s)
    obs = [m.opt.observe for m in mi.to(p, b"\x01")]
    if obs != [0, 1, 2, 3]:
        bad.append("observe prebuilt: Observe values %r" % obs)
    # a plain GET afterwards gets the object back, with the Observe option the library wrote into it
    mi.inject(p, mtype=CON, code=GET, mid=30, token=b"\x09", path=("r",))
    await settle()
    pg = mi.to(p, b"\x09")
    print("   plain GET afterwards:", "; ".join(desc(m) for m in pg))
    if any(m.opt.observe is not None for m in pg):
        noted.append("plain GET answered with Observe=%r left in the resource's object by the library" % pg[0].opt.observe)
    await ctx.shutdown()


async def own():
    ctx, mi = await server(resource.Site())
    p = Addr("p")
    mi.inject(p, mtype=CON, code=EMPTY, mid=77)            # ping
    mi.inject(p, mtype=CON, code=CONTENT, mid=78, token=b"\x55")   # unknown response
    await settle()
    got = [(m.mtype.name, int(m.code), m.mid) for m in mi.to(p)]
    print("library's own replies:", got)
    if got != [("RST", 0, 77), ("RST", 0, 78)]:
        bad.append("own RSTs: %r" % got)
    await ctx.shutdown()


async def main():
    await deliberate(ACK)
    await deliberate(RST)
    await prebuilt()
    await observe_prebuilt()
    await own()

_, le = run(main())
for e in le:
    bad.append("loop exception: " + e)
print()
for n in noted:
    print("NOTED (declared position):", n)
for b in bad:
    print("DEVIATION:", b)
sys.exit(1 if bad else 0)
