"""Small socket-free harness for the F2 replays: real Context/TokenManager/MessageManager over a
fake message interface; virtual clock; optional synchronous transport error (like udp6: send()
calls dispatch_error before it returns and then returns normally)."""
import sys, os, asyncio, heapq, logging, errno, warnings

REPO = os.environ.get("REPO", "/repo")
sys.path.insert(0, REPO)
sys.path.insert(1, "/verif/harness/shims")
warnings.simplefilter("ignore")

import aiocoap  # noqa
from aiocoap import interfaces, resource, Message, Context  # noqa
from aiocoap.numbers.types import CON, NON, ACK, RST  # noqa
from aiocoap.numbers.codes import Code, EMPTY, GET, PUT, POST, CONTENT, CHANGED  # noqa


class VLoop(asyncio.SelectorEventLoop):
    def __init__(self):
        super().__init__()
        self._vt = 0.0
        self.exc = []
        self.set_exception_handler(lambda loop, ctx: self.exc.append(
            "%s: %r" % (ctx.get("message"), ctx.get("exception"))))

    def time(self):
        return self._vt

    def _run_once(self):
        if not self._ready and self._scheduled:
            while self._scheduled and self._scheduled[0]._cancelled:
                h = heapq.heappop(self._scheduled)
                h._scheduled = False
            if self._scheduled and self._scheduled[0]._when > self._vt:
                self._vt = self._scheduled[0]._when
        super()._run_once()


class Addr(interfaces.EndpointAddress):
    scheme = "coap"
    is_multicast = False
    is_multicast_locally = False
    hostinfo_local = "server"
    uri_base_local = "coap://server"
    maximum_block_size_exp = 6
    maximum_payload_size = 1024

    def __init__(self, name):
        self.name = name

    def __hash__(self):
        return hash(self.name)

    def __eq__(self, o):
        return isinstance(o, Addr) and o.name == self.name

    def __repr__(self):
        return "<%s>" % self.name

    hostinfo = property(lambda s: s.name)
    uri_base = property(lambda s: "coap://" + s.name)
    blockwise_key = property(lambda s: s.name)


class MI(interfaces.MessageInterface):
    def __init__(self, mman, loop):
        self.mman, self.loop = mman, loop
        self.sent = []        # (t, remote, decoded)
        self.failed = []      # (t, remote, decoded)  datagrams whose send failed synchronously
        self.sync_fail = set()  # names: send() reports OSError via dispatch_error, returns normally

    def send(self, message):
        raw = message.encode()
        d = Message.decode(raw, message.remote)
        if message.remote.name in self.sync_fail:
            self.failed.append((self.loop.time(), message.remote, d))
            self.mman.dispatch_error(OSError(errno.ECONNREFUSED, "Connection refused"), message.remote)
            return
        self.sent.append((self.loop.time(), message.remote, d))

    async def shutdown(self):
        pass

    async def recognize_remote(self, remote):
        return isinstance(remote, Addr)

    async def determine_remote(self, m):
        return None

    def inject(self, remote, *, mtype, code, mid, token=b"", path=(), payload=b"", **opts):
        m = Message(code=code, payload=payload, **opts)
        m.mtype, m.mid, m.token = mtype, mid, token
        if path:
            m.opt.uri_path = tuple(path)
        self.mman.dispatch_message(Message.decode(m.encode(), remote))

    def to(self, remote, token=None):
        return [m for (_, r, m) in self.sent if r == remote and (token is None or m.token == token)]


class LogCap(logging.Handler):
    def __init__(self):
        super().__init__(logging.WARNING)
        self.recs = []

    def emit(self, r):
        try:
            msg = r.getMessage()
        except Exception as e:
            msg = "<unformattable %r>" % e
        self.recs.append((r.levelname, msg[:200]))


async def server(site):
    loop = asyncio.get_running_loop()
    ctx = Context(loop=loop, serversite=site, loggername="coap-server")
    cap = LogCap()
    ctx.log.addHandler(cap)
    ctx.log.setLevel(logging.DEBUG)
    ctx.log.propagate = False
    h = {}

    async def construct(mman):
        h["mi"] = MI(mman, loop)
        return h["mi"]

    await ctx._append_tokenmanaged_messagemanaged_transport(construct)
    mi = h["mi"]
    mi.ctx, mi.cap = ctx, cap
    mi.tman = mi.mman.token_manager
    return ctx, mi


def run(coro):
    logging.basicConfig(level=logging.CRITICAL)
    loop = VLoop()
    asyncio.set_event_loop(loop)
    try:
        r = loop.run_until_complete(coro)
        return r, loop.exc
    finally:
        loop.close()


async def settle(n=12):
    for _ in range(n):
        await asyncio.sleep(0)


def desc(m):
    return "%s %s mid=%d tok=%s obs=%s %r" % (m.mtype.name if m.mtype is not None else None, m.code, m.mid,
                                            m.token.hex() or "-", m.opt.observe, m.payload[:30])


class Obs(resource.ObservableResource):
    """observable resource whose renderings are scripted"""

    def __init__(self):
        super().__init__()
        self.state = 0
        self.counts = []
        self.cb = 0
        self.renders = []      # callables/values consumed per render; default: fresh 2.05

    def update_observation_count(self, n):
        self.counts.append(n)

    async def add_observation(self, request, so):
        await super().add_observation(request, so)
        inner = so._cancellation_callback
        self.last_so = so

        def cb():
            self.cb += 1
            inner()
        so.accept(cb)

    async def render_get(self, request):
        if self.renders:
            r = self.renders.pop(0)
            if isinstance(r, BaseException) or (isinstance(r, type) and issubclass(r, BaseException)):
                raise r
            if callable(r):
                r = r()
                if asyncio.iscoroutine(r):
                    r = await r
            return r
        return Message(code=CONTENT, payload=b"s%d" % self.state)
