"""194b8e5 neighbours: a transport error reported synchronously from inside send() (udp6 style: dispatch_error is
called before send() returns, which then returns normally) for every kind of datagram a registration causes, with
what the render task does afterwards, a second registration of the endpoint, a second use after the error.
exit 1 = after the error: a registration of that endpoint is not ended (callback != 1, count not restored,
incoming_requests entry left), something is still sent for it, an exception reaches the loop / is logged at ERROR by
the library, or another endpoint's registration is harmed."""
from fk import *

bad = []


def errors(mi):
    # the resource's own exception is logged by error_to_message: not the library's failure
    return [r for r in mi.cap.recs if r[0] in ("ERROR", "CRITICAL") and "ValueError('boom')" not in r[1]]


async def scenario(name, mt, when, pending=None, second=False):
    """when: 'first' | 'notif' | 'last' | 'unsuccessful' | 'raising' | 'explicit'
       pending: None | 'change' (another change arrives while the failing notification's render is suspended)"""
    res = Obs()
    resq = Obs()
    site = resource.Site()
    site.add_resource(["r"], res)
    site.add_resource(["q"], resq)
    ctx, mi = await server(site)
    p, q = Addr("p"), Addr("q")
    # a bystander on another endpoint (own resource object, so that scripted renders are p's alone)
    mi.inject(q, mtype=CON, code=GET, mid=50, token=b"\x77", path=("q",), observe=0)
    await settle()
    if when == "first":
        mi.sync_fail.add("p")
    mi.inject(p, mtype=mt, code=GET, mid=10, token=b"\x01", path=("r",), observe=0)
    await settle()
    if second:
        was = set(mi.sync_fail)
        mi.sync_fail.clear()
        mi.inject(p, mtype=mt, code=GET, mid=11, token=b"\x02", path=("r",), observe=0)
        await settle()
        mi.sync_fail |= was
    n_before = len(mi.sent)
    if when != "first":
        mi.sync_fail.add("p")
        gate = None
        if pending == "change":
            loop = asyncio.get_running_loop()
            gate = loop.create_future()

            async def slow():
                await gate
                return Message(code=CONTENT, payload=b"slow%d" % res.state)
            for _ in res._observations:
                res.renders.append(lambda: slow())
        if when == "unsuccessful":
            res.renders.append(lambda: Message(code=Code(132), payload=b"gone"))
        if when == "raising":
            res.renders.append(ValueError("boom"))
        res.state += 1
        if when == "last":
            for so in list(res._observations):
                so.trigger(None, is_last=True)
        elif when == "explicit":
            res.updated_state(Message(code=CONTENT, payload=b"explicit"))
        else:
            res.updated_state()
        await settle()
        if gate is not None:
            res.state += 1
            res.updated_state()
            await settle()
            gate.set_result(None)
            await settle()
    await settle()
    n_fail = len(mi.failed)
    mi.sync_fail.clear()
    # afterwards: more changes must not produce anything for p
    mark = len(mi.sent)
    res.state += 1
    res.updated_state()
    resq.state += 1
    resq.updated_state()
    await settle()
    for m in mi.to(q):
        if m.mtype == CON:
            mi.inject(q, mtype=ACK, code=EMPTY, mid=m.mid)
    await asyncio.sleep(100)
    later_p = [desc(m) for (t, r, m) in mi.sent[mark:] if r == p]
    later_q = [m for (t, r, m) in mi.sent[mark:] if r == q and m.opt.observe is not None]
    expect_cb = 1 + (2 if second else 1)      # q's stays; p's registrations all ended
    live_q = 0
    if len(resq._observations) != 1 or resq.cb != 0:
        msgs_q = "bystander's registration harmed: set %d callbacks %d" % (len(resq._observations), resq.cb)
    else:
        msgs_q = None
    ok = True
    msgs = []
    if msgs_q:
        msgs.append(msgs_q)
    if n_fail == 0:
        msgs.append("no send failed (scenario did not arm)")
    if later_p:
        msgs.append("sent to p after the error: %s" % later_p)
    if not later_q:
        msgs.append("bystander q was not notified of the later change")
    if res.cb != (2 if second else 1):
        msgs.append("callbacks run %d, expected %d" % (res.cb, 2 if second else 1))
    if len(res._observations) != live_q or res.counts[-1] != live_q:
        msgs.append("observer set %d / last count %d, expected %d" % (len(res._observations), res.counts[-1], live_q))
    left = [k for k in mi.tman.incoming_requests if k[1] == p]
    if left:
        msgs.append("incoming_requests left for p: %r" % left)
    if errors(mi):
        msgs.append("ERROR log records: %r" % errors(mi)[:2])
    if [k for k in mi.mman._active_exchanges if k[0] == p] or p in mi.mman._backlogs:
        msgs.append("exchange/backlog left for p")
    # second use: p registers again on the same token and is served
    mi.inject(p, mtype=mt, code=GET, mid=12, token=b"\x01", path=("r",), observe=0)
    await settle()
    again = [m for m in mi.to(p, b"\x01") if m.opt.observe == 0]
    if len(again) != (1 if when == "first" else 2) - (1 if when == "first" else 1) + 1 - (0 if when != "first" else 0) and False:
        pass
    if not [m for (t, r, m) in mi.sent if r == p and m.opt.observe == 0 and t >= 100]:
        msgs.append("re-registration after the error was not answered with Observe 0")
    print("%-58s failed=%d %s" % (name, n_fail, "OK" if not msgs else "!! " + " | ".join(msgs)))
    for m in msgs:
        bad.append(name + ": " + m)
    await ctx.shutdown()


async def plain_slow():
    """not a registration: the separate response of a slow plain request fails to be sent; also its 5.00"""
    for what in ("ok", "raise"):
        class R(resource.Resource):
            async def render_get(self, request):
                await asyncio.sleep(0.5)
                if what == "raise":
                    raise ValueError("x")
                return Message(code=CONTENT, payload=b"late")
        site = resource.Site()
        site.add_resource(["r"], R())
        ctx, mi = await server(site)
        p = Addr("p")
        mi.inject(p, mtype=CON, code=GET, mid=10, token=b"\x01", path=("r",))
        await asyncio.sleep(0.3)
        mi.sync_fail.add("p")
        await asyncio.sleep(100)
        msgs = []
        if mi.tman.incoming_requests:
            msgs.append("incoming_requests left")
        if mi.mman._active_exchanges or mi.mman._backlogs:
            msgs.append("exchange/backlog left: %r %r" % (mi.mman._active_exchanges, mi.mman._backlogs))
        if [e for e in errors(mi) if "rendering a resource" not in e[1]]:
            msgs.append("ERROR records %r" % errors(mi)[:2])
        print("%-58s failed=%d %s" % ("slow plain request, separate response fails (%s)" % what, len(mi.failed),
                                      "OK" if not msgs else "!! " + " | ".join(msgs)))
        for m in msgs:
            bad.append("plain slow %s: %s" % (what, m))
        await ctx.shutdown()


async def main():
    for mt in (CON, NON):
        n = mt.name
        await scenario(n + " first response fails", mt, "first")
        for when in ("notif", "last", "unsuccessful", "raising", "explicit"):
            await scenario("%s %s fails" % (n, when), mt, when)
            await scenario("%s %s fails, second token of the endpoint" % (n, when), mt, when, second=True)
        await scenario(n + " notif fails, another change pending during render", mt, "notif", pending="change")
    await plain_slow()

_, le = run(main())
for e in le:
    bad.append("loop exception: " + e)
print()
for b in bad:
    print("DEVIATION:", b)
sys.exit(1 if bad else 0)
