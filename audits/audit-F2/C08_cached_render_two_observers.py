"""Position "response-object aliasing" (DESIGN section 6 C08 round 4 / section 7): a resource that caches its rendered
representation and returns that Message object from render() -- to every observer that is notified of the same state.
388c867 copies only *explicitly triggered* messages. Two CON observers A and B, one state change, A's copy of the
notification is lost (A silent), B acknowledges.
Property text: "notifications carry the registration's token"; "when a confirmable notification times out ... the
registration ends"; quantifier "every loss pattern, for several simultaneous observers".
exit 1 = a datagram to one observer carries the other's token, or A's unacknowledged CON notification is not
retransmitted / A's registration never ends."""
from fk import *


class Cached(Obs):
    def __init__(self):
        super().__init__()
        self._cache = None

    def change(self):
        self.state += 1
        self._cache = None
        self.updated_state()

    async def render_get(self, request):
        if self._cache is None:
            self._cache = Message(code=CONTENT, payload=b"s%d" % self.state)
        return self._cache


bad = []


async def main():
    res = Cached()
    site = resource.Site()
    site.add_resource(["r"], res)
    ctx, mi = await server(site)
    A, B = Addr("A"), Addr("B")
    mi.inject(A, mtype=CON, code=GET, mid=10, token=b"\xaa", path=("r",), observe=0)
    await settle()
    mi.inject(B, mtype=CON, code=GET, mid=20, token=b"\xbb", path=("r",), observe=0)
    await settle()
    res.change()
    await settle()
    # B acknowledges whatever CON it got; A stays silent
    for m in mi.to(B):
        if m.mtype == CON:
            mi.inject(B, mtype=ACK, code=EMPTY, mid=m.mid)
    await asyncio.sleep(120)      # virtual: beyond MAX_TRANSMIT_WAIT
    for t, r, m in mi.sent:
        print("t=%6.2f to %s: %s" % (t, r, desc(m)))
    print("counts", res.counts, "callbacks", res.cb, "loop exceptions", asyncio.get_running_loop().exc)
    for t, r, m in mi.sent:
        if m.code.is_response() and m.token != {"A": b"\xaa", "B": b"\xbb"}[r.name]:
            bad.append("datagram to %s carries token %s" % (r, m.token.hex()))
    toA = [m for m in mi.to(A) if m.opt.observe == 1]
    if len(toA) < 5:
        bad.append("A's unacknowledged CON notification was transmitted %d time(s), not 5" % len(toA))
    toB = [m for m in mi.to(B) if m.opt.observe == 1]
    if len(toB) != 1:
        bad.append("B acknowledged its notification at once but got it %d times" % len(toB))
    if res.counts[-1] != 1 or res.cb != 1:
        bad.append("after A's notification timed out the count should be 1 with one callback run: counts %r callbacks %d"
                   % (res.counts, res.cb))
    if asyncio.get_running_loop().exc:
        bad.append("exceptions in the event loop: %r" % asyncio.get_running_loop().exc)
    await ctx.shutdown()

run(main())
print()
for b in bad:
    print("DEVIATION:", b)
sys.exit(1 if bad else 0)
