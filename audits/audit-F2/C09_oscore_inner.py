"""Neighbour of 20e4f9c / e3d6247: the OSCORE site wrapper has an inner pipe of its own. What does an inner
handler returning a non-response code / raising a BaseException / returning None produce?
exit 1 = a request (CON, protected) not answered by exactly one response, or inner non-response code protected and sent."""
import sys
sys.path.insert(2, "/tmp/audit/F2/stubs")
from fk import *
sys.path.insert(2, "/tmp/audit/F2/stubs")
sys.path.insert(2, "/verif/harness")
import aiocoap.oscore as oscore
import oscore_util
from aiocoap.oscore_sitewrapper import OscoreSiteWrapper

Aead, HCtx = oscore_util.make(oscore)
bad = []

class MyBase(BaseException):
    pass

class H(resource.Resource):
    def __init__(self, f):
        super().__init__()
        self.f = f
    async def render_get(self, request):
        return self.f()

class Creds(dict):
    def __init__(self, sc):
        self.sc = sc
    def find_oscore(self, unprotected):
        return self.sc

def raiser(e):
    def f():
        raise e
    return f

async def case(name, f, want_inner):
    server_sc = HCtx(sender_id=b"\x01", recipient_id=b"\x02")
    client_sc = HCtx(sender_id=b"\x02", recipient_id=b"\x01")
    site = resource.Site()
    site.add_resource(["r"], H(f))
    wrapper = OscoreSiteWrapper(site, Creds(server_sc))
    ctx, mi = await server(wrapper)
    p = Addr("p")
    req = Message(code=GET)
    req.opt.uri_path = ("r",)
    req.remote = p
    prot, rid = client_sc.protect(req)
    prot.mtype, prot.mid, prot.token = CON, 10, b"\x07"
    mi.mman.dispatch_message(Message.decode(prot.encode(), p))
    await settle(30)
    await asyncio.sleep(1)
    msgs = mi.to(p)
    resp = [m for m in msgs if m.code.is_response() and m.token == b"\x07"]
    out = []
    for m in resp:
        if m.opt.oscore is not None:
            try:
                inner, _ = client_sc.unprotect(m, rid)
                out.append("protected(inner %s %r)" % (inner.code, inner.payload[:20]))
            except Exception as e:
                out.append("protected(unreadable: %r)" % e)
        else:
            out.append("plain %s %r" % (m.code, m.payload[:30]))
    print("%-34s -> %s | all sent: %s" % (name, out, "; ".join(desc(m) for m in msgs)))
    if len(resp) != 1:
        bad.append("%s: %d responses" % (name, len(resp)))
    elif want_inner not in out[0]:
        bad.append("%s: got %s, expected %s" % (name, out[0], want_inner))
    if mi.tman.incoming_requests:
        bad.append("%s: incoming_requests left %r" % (name, list(mi.tman.incoming_requests)))
    await ctx.shutdown()

async def main():
    await case("inner returns 2.05", lambda: Message(code=CONTENT, payload=b"ok"), "inner 2.05")
    await case("inner returns code-less", lambda: Message(payload=b"ok"), "inner 2.05")
    await case("inner returns code=EMPTY", lambda: Message(code=EMPTY), "5.00")
    await case("inner returns code=GET", lambda: Message(code=GET, payload=b"x"), "5.00")
    await case("inner returns code=7.01", lambda: Message(code=Code(225)), "5.00")
    await case("inner raises ValueError", raiser(ValueError("secret")), "inner 5.00")
    await case("inner raises BaseException", raiser(MyBase("secret")), "inner 5.00")
    await case("inner returns None", lambda: None, "5.00")

_, le = run(main())
for e in le:
    bad.append("loop exception: " + e)
print()
for b in bad:
    print("DEVIATION:", b)
sys.exit(1 if bad else 0)
