"""e3d6247 neighbours: exceptions outside the Exception hierarchy in other places than a plain handler,
and together with a cancellation of the render task.
exit 1 = a request that is still wanted is not answered by exactly one response, an abandoned one is answered,
an incoming_requests entry leaks, or something reaches the event loop's exception handler."""
from fk import *

bad = []


class MyBase(BaseException):
    pass


class Slow(resource.Resource):
    """GET suspends on self.gate; `after` decides what happens when it is woken / cancelled"""

    def __init__(self, on_cancel=None, on_wake=None):
        super().__init__()
        self.on_cancel, self.on_wake = on_cancel, on_wake
        self.gate = None
        self.log = []

    async def render_get(self, request):
        self.gate = asyncio.get_running_loop().create_future()
        try:
            await self.gate
        except asyncio.CancelledError:
            self.log.append("cancelled")
            if self.on_cancel is not None:
                return self.on_cancel()
            raise
        if self.on_wake is not None:
            return self.on_wake()
        return Message(code=CONTENT, payload=b"late")


def raiser(e):
    def f():
        raise e
    return f


def finals(mi, p, tok):
    return [int(m.code) for m in mi.to(p, tok) if m.code.is_response()]


async def plain(name, exc, want):
    class R(resource.Resource):
        async def render_get(self, request):
            raise exc
    site = resource.Site()
    site.add_resource(["r"], R())
    ctx, mi = await server(site)
    p = Addr("p")
    for mt, mid, tok in ((CON, 10, b"\x01"), (NON, 11, b"\x02")):
        mi.inject(p, mtype=mt, code=GET, mid=mid, token=tok, path=("r",))
        await settle()
        got = finals(mi, p, tok)
        print("%-46s %s -> %r" % (name, "CON" if mt == CON else "NON", got))
        if got != want:
            bad.append("%s: responses %r, expected %r" % (name, got, want))
    if mi.tman.incoming_requests:
        bad.append(name + ": incoming_requests left")
    leak = [m for m in mi.to(p) if b"secret" in m.payload]
    if leak:
        bad.append(name + ": text leaked")
    await ctx.shutdown()


async def override(name, on_cancel):
    """request 1 is running; the peer asks again on the token (request 1 is abandoned, its task cancelled); the
    handler of request 1 reacts to the CancelledError by raising something else"""
    res = Slow(on_cancel=on_cancel)
    site = resource.Site()
    site.add_resource(["r"], res)
    fast = Obs()
    site.add_resource(["f"], fast)
    ctx, mi = await server(site)
    p = Addr("p")
    mi.inject(p, mtype=NON, code=GET, mid=10, token=b"\x01", path=("r",))
    await settle()
    mi.inject(p, mtype=NON, code=GET, mid=11, token=b"\x01", path=("f",))
    await settle()
    got = [(int(m.code), m.payload) for m in mi.to(p, b"\x01") if m.code.is_response()]
    print("%-46s -> %r  handler log %r" % (name, got, res.log))
    if got != [(69, b"s0")]:
        bad.append("%s: responses on the token %r, expected only the second request's 2.05" % (name, got))
    if mi.tman.incoming_requests:
        bad.append(name + ": incoming_requests left %r" % list(mi.tman.incoming_requests))
    await ctx.shutdown()


async def obs_notif(name, exc):
    res = Obs()
    site = resource.Site()
    site.add_resource(["r"], res)
    ctx, mi = await server(site)
    p = Addr("p")
    mi.inject(p, mtype=NON, code=GET, mid=10, token=b"\x01", path=("r",), observe=0)
    await settle()
    res.renders.append(exc)
    res.state += 1
    res.updated_state()
    await settle()
    got = [(int(m.code), m.opt.observe) for m in mi.to(p, b"\x01")]
    print("%-46s -> %r cb=%d counts=%r" % (name, got, res.cb, res.counts))
    if got != [(69, 0), (160, None)] or res.cb != 1 or res.counts != [1, 0]:
        bad.append("%s: wire %r cb %d counts %r" % (name, got, res.cb, res.counts))
    if mi.tman.incoming_requests:
        bad.append(name + ": incoming_requests left")
    await ctx.shutdown()


async def add_obs_raises(name, exc):
    class R(Obs):
        async def add_observation(self, request, so):
            await super().add_observation(request, so)
            raise exc
    res = R()
    site = resource.Site()
    site.add_resource(["r"], res)
    ctx, mi = await server(site)
    p = Addr("p")
    mi.inject(p, mtype=CON, code=GET, mid=10, token=b"\x01", path=("r",), observe=0)
    await settle()
    got = finals(mi, p, b"\x01")
    print("%-46s -> %r cb=%d counts=%r" % (name, got, res.cb, res.counts))
    if got != [160] or res.cb != 1 or res.counts[-1:] != [0]:
        bad.append("%s: wire %r cb %d counts %r" % (name, got, res.cb, res.counts))
    if mi.tman.incoming_requests:
        bad.append(name + ": incoming_requests left")
    await ctx.shutdown()


async def main():
    await plain("handler raises MyBase", MyBase("secret"), [160])
    await plain("handler raises BaseExceptionGroup[MyBase]", BaseExceptionGroup("secret", [MyBase("secret")]), [160])
    await plain("handler raises ExceptionGroup[ValueError]", ExceptionGroup("secret", [ValueError("secret")]), [160])
    await plain("handler raises StopAsyncIteration", StopAsyncIteration("secret"), [160])
    await plain("handler raises asyncio.CancelledError", asyncio.CancelledError("secret"), [160])
    await override("abandoned: handler re-raises CancelledError", None)
    await override("abandoned: handler raises MyBase instead", raiser(MyBase("x")))
    await override("abandoned: handler raises ValueError instead", raiser(ValueError("x")))
    await override("abandoned: handler returns a response anyway", lambda: Message(code=CONTENT, payload=b"zombie"))
    await obs_notif("notification render raises MyBase", MyBase("secret"))
    await obs_notif("notification render raises CancelledError", asyncio.CancelledError())
    await add_obs_raises("add_observation accepts, then raises MyBase", MyBase("x"))


_, le = run(main())
for e in le:
    bad.append("loop exception: " + e)
print()
for b in bad:
    print("DEVIATION:", b)
sys.exit(1 if bad else 0)
