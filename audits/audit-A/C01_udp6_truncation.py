"""C01 (b/c-minor, doubtful): the udp6 receive path reads with recvmsg(4096, ...) and ignores MSG_TRUNC, so a
well-formed datagram longer than 4096 bytes reaches Message.decode cut short and is dispatched as a
*different, valid-looking* message (payload silently truncated).  Property: "Every datagram that is well-formed
under RFC 7252 section 3 is parsed into the fields ... the RFC assigns to it", quantifier "all byte strings up to
a datagram's size"; DESIGN section 7 lists this as outside the quantifier.  The harness injects at
datagram_msg_received, i.e. behind the truncation.
Drives the real RecvmsgSelectorDatagramTransport._read_ready + MessageInterfaceUDP6 over a fake socket that
behaves like the kernel (returns the first bufsize bytes and MSG_TRUNC).  exit 1 = truncated message dispatched."""
import sys, os, asyncio, socket, struct, logging
sys.path.insert(0, "/repo")
from aiocoap import Message, PUT
from aiocoap.numbers.types import Type
from aiocoap.transports.udp6 import MessageInterfaceUDP6
from aiocoap.util.asyncio.recvmsg import RecvmsgSelectorDatagramTransport

m = Message(code=PUT, payload=bytes(range(256)) * 20, uri_path=("big",))   # 5120 byte payload
m.mtype = Type.NON; m.mid = 7; m.token = b"\x01"
wire = m.encode()

class FakeSock:
    def __init__(self): self.r, self.w = os.pipe(); self.queue = [wire]
    def fileno(self): return self.r
    def close(self): pass
    def recvmsg(self, bufsize, ancbufsize=0, flags=0):
        if flags or not self.queue:
            raise BlockingIOError()
        d = self.queue.pop(0)
        pktinfo = struct.pack("16sI", socket.inet_pton(socket.AF_INET6, "::1"), 0)
        return (d[:bufsize], [(socket.IPPROTO_IPV6, socket.IPV6_PKTINFO, pktinfo)],
                socket.MSG_TRUNC if len(d) > bufsize else 0, ("::1", 5683, 0, 0))

class Sink:
    got = []
    def dispatch_message(self, msg): self.got.append(msg)
    def dispatch_error(self, *a): pass

loop = asyncio.new_event_loop()
log = logging.getLogger("x"); log.disabled = True
async def make():
    mi = MessageInterfaceUDP6(None, log, loop); mi._ctx = Sink(); return mi
mi = loop.run_until_complete(make())
t = RecvmsgSelectorDatagramTransport(loop, FakeSock(), mi, loop.create_future())
t._read_ready()
print("datagram on the wire: %d bytes, payload %d bytes" % (len(wire), len(m.payload)))
if Sink.got:
    g = Sink.got[0]
    print("dispatched: code %s path %r payload %d bytes (a prefix of the original: %s)" % (g.code, g.opt.uri_path, len(g.payload), m.payload.startswith(g.payload)))
    sys.exit(1 if g.payload != m.payload else 0)
print("nothing dispatched"); sys.exit(0)
